"""C10 -- no public call modifies the arrays, tables or models passed to it.

Shape (C): full product  registry entry  x  argument representation  x  data
condition  (x mask form in the thorough tier).  Every entry is a call recipe of
``mcphot.ref.registry`` that builds valid arguments from a small scene; every
caller-held object (data, error, mask, background / threshold maps, kernels,
footprints, position arrays, tables, PSF models, apertures, segmentation
images, NDData, WCS, parents of views) is snapshotted component-wise before the
first call and compared bit-exactly after *every* step -- the constructor or
function call, and then each public property / argument-less public method of
the returned catalog-like object, whether the step returned or raised.

Oracle: snapshot(before) == snapshot(after).  No tolerance: the property says
bit-for-bit (values, dtype, mask, fill_value, nomask-ness, unit, table columns
and meta, model parameters / fixed / bounds).  Not part of the value: lazily
cached attributes that *appear* in a passed photutils object (a cache that gets
filled is not a modification; a cached value that changes is).  Exempt:
documented in-place mutators of their own object (SegmentationImage mutators,
LinkedEPSFStar.constrain_centers, ... -- ``registry.MUTATORS``), estimator /
fitter / geometry state objects (not in the property's list).
"""
import re

from ..ref import registry as R
from ..runner import Acc

PROPERTY = 'C10'
LEVEL = 'exploration'
RULE = ('full Cartesian product: every registry recipe (one per public entry point / family, generated against the walk of '
        'every photutils module __all__) x argument representation x data condition (x mask form in the thorough tier); '
        'each recipe executes its calls as steps (constructor / function call, then every public property and every public '
        'method callable without arguments of the returned object) and all caller-held objects are compared with their '
        'snapshot after every step; one evaluation = one executed step; a step is non-trivial when it ran to completion '
        '(did not raise) -- steps that raise are still checked; distinct = distinct (step label, representation, condition, '
        'mask form)')
ASSUMPTIONS = ['numpy / astropy containers report their own state faithfully (tobytes, mask, fill_value, unit)',
               'a cached lazyproperty value appearing in a caller-held photutils object is not a modification',
               'one scene (41x47, three sources) per condition: a clean-up branch that needs a different scene is not reached',
               'plotting members, file loaders, remote data sets are outside the property (listed under coverage.uncovered)']


def reps(tier):
    return R.C10_REPS_THOROUGH if tier == 'thorough' else R.C10_REPS_QUICK


def maskforms(tier):
    return R.MASKFORMS if tier == 'thorough' else R.MASKFORMS[:1]


def combos(r, tier):
    """The (mask form, representation, condition, geometry) product for one
    recipe, simplest first; axes the recipe's arguments do not depend on
    collapse.  The geometry alphabet is the recipe's own (``r.geoms``), the
    same in both tiers."""
    rr = reps(tier) if 'rep' in r.axes else reps(tier)[:1]
    cc = R.CONDITIONS if 'cond' in r.axes else R.CONDITIONS[:1]
    mm = maskforms(tier) if 'cond' in r.axes else R.MASKFORMS[:1]
    out = []
    for geom in r.geoms:
        for mf in mm:
            for rep in rr:
                if rep == 'nddata' and not r.nddata:
                    continue
                for cond in cc:
                    if mf == 'none' and cond in ('clean', 'int'):
                        continue           # identical to mask form 'cond' (the mask is None there already)
                    out.append((mf, rep, cond, geom))
    return out


def plan(tier, seed):
    units = []
    for name, r in R.RECIPES.items():
        if r.slow and tier != 'thorough':
            continue
        for rep in sorted({c[1] for c in combos(r, tier)}, key=reps(tier).index):
            units.append({'recipe': name, 'rep': rep})
    return units


def site_of(label, arg):
    """'<entry point>:<argument name>' with the variant suffix '[...]' of the
    step label dropped, so all variants of one call share a key."""
    base = re.sub(r'\[[^\]]*\]', '', label)
    return f'{base}:{arg}'


def run_combo(acc, name, rep, cond, mf, seed, sample=False, geom='base'):
    c = R.run_recipe(name, rep, cond, seed, maskform=mf, geom=geom)
    if c is None:
        acc.skip('combination not applicable')
        return None
    case0 = {'recipe': name, 'rep': rep, 'cond': cond, 'maskform': mf, 'geom': geom}
    for i, (label, status) in enumerate(c.steps):
        ok = status == 'ok'
        acc.case(nontrivial=ok, key=(label, rep, cond, mf, geom) if ok else None,
                 sample=dict(case0, step=label, status=status, watched=list(c.held)) if (sample and i == 0) else None)
        if not ok:
            acc.counters['steps_that_raised'] += 1
    acc.counters['recipe_runs'] += 1
    acc.counters['watched_objects'] += len(c.held)
    for label, arg, comps in c.changes:
        acc.violation('input-mutated', site_of(label, arg), dict(case0, step=label, arg=arg),
                      observed=f'{arg} changed in: {comps}', expected='bit-for-bit unchanged',
                      detail=f'after step {label!r} (status {dict(c.steps).get(label)}) with data representation {rep!r}, '
                             f'condition {cond!r}, mask form {mf!r}, geometry {geom!r} (image shape {c.shape})')
    acc.outcome((name, rep, cond, mf, geom, tuple(s for _, s in c.steps)))
    return c


def run_unit(unit, tier, seed):
    acc = Acc()
    name = unit['recipe']
    for n, (mf, rep, cond, geom) in enumerate(combos(R.RECIPES[name], tier)):
        if rep == unit['rep']:
            run_combo(acc, name, rep, cond, mf, seed, sample=(n % 41 == 0), geom=geom)
    return acc


def replay(case, seed):
    acc = Acc()
    run_combo(acc, case['recipe'], case['rep'], case['cond'], case.get('maskform', 'cond'), seed, geom=case.get('geom', 'base'))
    return acc


def describe(tier, seed):
    cov = R.coverage()
    members = {}
    import importlib
    for path in ('photutils.aperture.ApertureStats', 'photutils.background.Background2D', 'photutils.segmentation.SourceCatalog',
                 'photutils.segmentation.SegmentationImage', 'photutils.segmentation.Segment', 'photutils.profiles.RadialProfile',
                 'photutils.profiles.CurveOfGrowth', 'photutils.isophote.Isophote', 'photutils.isophote.IsophoteList',
                 'photutils.psf.EPSFStar', 'photutils.psf.EPSFStars', 'photutils.aperture.CircularAperture',
                 'photutils.aperture.ApertureMask', 'photutils.utils.cutouts.CutoutImage'):
        mod, cls = path.rsplit('.', 1)
        k = getattr(importlib.import_module(mod), cls)
        kinds = {}
        for n, kind in R.member_names(k):
            kinds.setdefault(kind, []).append(n)
        members[cls] = {'evaluated': len(kinds.get('property', [])) + len(kinds.get('method0', [])),
                        'not_evaluated': {kk: v for kk, v in kinds.items() if kk not in ('property', 'method0')}}
    return {'alphabet': {'recipes': len(R.RECIPES), 'representations': list(reps(tier)), 'conditions': list(R.CONDITIONS),
                         'mask_forms': list(maskforms(tier))},
            'public_callables': cov['public_callables'],
            'covered': len(cov['covered']),
            'uncovered': cov['uncovered'],
            'unclassified_public_callables': cov['unclassified'],
            'stale_registry_names': cov['stale_registry_names'],
            'members_of_catalog_like_classes': members}
