"""C10 -- no public call modifies the arrays, tables or models passed to it.

Shape (C): full product  registry entry  x  geometry  x  argument representation
x  data condition  x  mask form, plus  registry entry x companion slot x companion
representation x data condition [x geometry]  and  table argument x table form
(see below).  Every entry is a call
recipe of ``mcphot.ref.registry`` that builds valid arguments from a small scene.
*Geometry* is the shape relation between the image handed to the API and the
box / cutout / aperture / fit box / segment / kernel the implementation works
on (whether an intermediate reshape / ravel / slice of the implementation is a
view of the caller's buffer depends on it): the image is a frame of the scene
cut so that the 9x9 block around source 0 is strictly inside it (base), is the
whole image, spans every column, spans every row, is larger than the image, or
the image has a single row / column; Background2D enumerates its box layouts
(1..3 x 1..3 whole boxes x with/without partial boxes per axis x pad/crop).
Every frame contains a pixel of every kind a clean-up branch writes to.

*Mask form*: every mask-like argument (the ``mask`` keyword, coverage masks,
NDData masks, the source mask of ImageDepth) is handed out as None, as an
all-False array ("nothing to mask": the boundary value at which "nothing to
combine: use the caller's array" shortcuts alias) and with True pixels, each as
an array of its own and as a view of a larger array (representation 'view').
Mask form 'cond' ties the form to the data condition (None: clean, int;
all-False: negatives; True pixels: masked, nonfinite*), 'none' / 'empty' force
None / all-False for every condition.  Quick tier: 'cond' everywhere plus
'none' and 'empty' for the two conditions with non-finite pixels at the base
geometry; thorough tier: the full product.

*One companion at a time*: the representations re-wrap the image (and, in
'view', every array at once).  Every OTHER array argument of a recipe -- error,
background, threshold / convolved-data / gain maps, kernels, weights,
footprints, masks and coverage masks, coordinate / radius / label arrays: the
"companion slots" the recipe registers with the context, listed per recipe under
the counters "companion slot | recipe | slot | representations" of the
evidence -- is singled out in turn: the image and all other
arguments are plain C-contiguous ndarrays, the slot alone is handed over as a
MaskedArray that owns a real mask array with True pixels (two-dimensional float
arrays; thorough also: a real all-False mask array) or as a non-contiguous view
(every second element along each axis) of a larger, watched array (every slot).
Quick: x the four conditions holding a pixel a clean-up branch writes to, base
geometry; thorough: x all conditions x all geometries.

*Table arguments* (init_params of PSFPhotometry / IterativePSFPhotometry,
params tables of make_model_image / params_table_to_models, catalogues of
extract_stars): the code renames columns to canonical names, adds missing
columns, converts units and reorders -- whether it works on a copy may depend on
which of these is needed, so the *table form* is an axis: column-name convention
{x/y/flux, x_0/y_0/flux_0, x_init/y_init/flux_init (canonical: nothing to
rename), xcentroid/ycentroid/flux, x_fit/y_fit/flux_fit} x {QTable, Table} x
every subset of the optional columns {flux, id, group_id, local_bkg} (minimal ..
complete) x {columns in the data unit, flux / local_bkg in mJy instead of Jy}
x {plain, Quantity data}, an extra fitted parameter column under each accepted
spelling, a result table fed back, and forms the call rejects (it raises, maybe
after the clean-up has begun); iterative class: minimal / complete sets in the
quick tier, the full product in the thorough tier.  Model-parameter tables and
catalogues: every subset of their optional columns x table class.  Besides, the
minimal canonical init table (and with Quantity data the one with flux in mJy)
is passed in EVERY run of the three PSF-photometry recipes (x representation x
condition x geometry).  Tables are snapshotted deeply: class, column order, per
column values / dtype / shape / unit / column class / mask / info, and meta.

*Container arguments* (``ref/registry_containers.py``): dict / list arguments
and the dictionaries a caller unpacks into ``**kwargs`` are merged with
defaults, stripped of the keys the callee sets itself, appended to or converted
-- on a copy or not may depend on what is in the container, so the *form* of the
container is an axis: every subset of its optional entries from empty over
partial to complete, in full product with the neighbouring axes (which columns
the table has, dict / OrderedDict, list / tuple / ndarray values), plus rejected
forms (the call raises, maybe after the merge).  make_model_image(params_map) =
x_0 / y_0 {listed, column under own name} x flux / fwhm {listed, own name, no
column} (36) x 2 classes x {valid, bad key, bad value}; param_ranges, the
``**kwargs`` of make_model_params / make_psf_model_image / centroid_sources /
EPSFFitter, meta / epsfs / grid_xypos of grid_from_epsfs, the lists of
aperture_photometry / EPSFStars / LinkedEPSFStar / extract_stars likewise
(coverage.container_arguments lists callable -> argument -> forms).  Containers
are snapshotted deeply: class, keys in order, length, every value recursively.

*Star geometries* of EPSFFitter / EPSFBuilder: a star is deep-copied before the
fitted centre / flux / status is written, separately on every path; the path
depends on where ``cutout_center`` lies relative to the cutout edge and on
``fit_boxsize``, and the builder excludes failed stars after its third
iteration.  Full product: geometry of the odd star {all centred, fit box touches
the edge, sticks out left / right / bottom / top / corner, centre on the edge,
centre outside the cutout, every star off-centre} (10) x fit_boxsize {5, (3, 7),
11 == cutout, 13 > cutout} x star kind {EPSFStar, LinkedEPSFStar with the odd
star first / second} x entry {EPSFFitter(), EPSFBuilder maxiters 1, EPSFBuilder
5 iterations without convergence (exclusion branch), build_epsf(init_epsf)} =
480 calls (thorough); quick: fit_boxsize {5, 11} and the five-iteration builder
with plain EPSFStar only = 200 calls.  The EPSFStars collection, every star in
it (incl. the private fit-status / exclusion flags) and the ePSF are watched.

Every caller-held object (data, error, mask, background / threshold maps,
kernels, footprints, position arrays, label arrays, column lists, plot origins,
tables, PSF models, apertures, segmentation images, NDData, WCS, files on disk,
parents of views) is snapshotted component-wise before the first call and
compared bit-exactly after *every* step, whether the step returned or raised.
Steps: the constructor or function call, then for the returned catalog-like
object (``Ctx.members``)
  1. every public property and every public method callable without arguments;
  2. every plotting / patch / region member (plot, plot_error, plot_meshes,
     plot_grid, plot_patches, to_patches, imshow, imshow_map, as_artist,
     plot_kron_apertures, plot_circular_apertures, make_cmap) with NON-default
     arguments -- an Axes of a headless Agg figure, ``origin`` = (3.5, -2) handed
     over as an ndarray, ``scale`` = 1.5, patch keywords -- because with the
     defaults origin=(0, 0) / scale=1 an in-place shift or scaling of an aliased
     array is a no-op; every member that needs arguments with one sensible
     non-default argument set (``registry_members.MEMBER_ARGS``) unless the
     recipe calls it as an explicit step with the image; methods with optional
     arguments additionally with their listed non-default variants.
     During this second pass the object itself is watched too ('self'; its
     lazily cached values are filled by then: a cached value that changes -- the
     Kron apertures of a catalog shifted by plotting them -- is a modification);
  3. documented mutators are called where a recipe says so, with their argument
     arrays watched (label arrays, extra-property values) and their own object
     exempt.
Attribute assignment through the aperture descriptors is a step as well.

Oracle: snapshot(before) == snapshot(after).  No tolerance: the property says
bit-for-bit (values, dtype, mask, fill_value, nomask-ness, unit, table columns
and meta, model parameters / fixed / bounds).  Not part of the value: lazily
cached attributes that *appear* in a passed photutils object (a cache that gets
filled is not a modification; a cached value that changes is).  Exempt:
documented in-place mutators of their own object (SegmentationImage mutators,
LinkedEPSFStar.constrain_centers, ... -- ``registry.MUTATORS``), estimator /
fitter / geometry state objects (not in the property's list).
"""
import re

import numpy as np

from ..ref import registry as R
from ..runner import Acc

PROPERTY = 'C10'
LEVEL = 'exploration'
RULE = ('full Cartesian product: every registry recipe (one per public entry point / family, generated against the walk of '
        'every photutils module __all__) x geometry (the recipe\'s own alphabet of image-vs-box/cutout/aperture/segment/kernel '
        'shape relations, listed under coverage.geometry together with the recipes that have the single geometry "base": those '
        'without an image argument, isophote fitting (samples the image point-wise), and sky apertures, Background2D[IDW], '
        'finder-driven / iterative PSF photometry, SourceFinder and ImageDepth, which run the cutout code of a recipe that '
        'has the axis) x argument representation x data condition x mask form (quick: form "cond" -- None / all-False / '
        'True pixels tied to the condition -- everywhere, plus forms "none" and "empty" x the two conditions with non-finite '
        'pixels at the base geometry; thorough: full product; every mask-like argument incl. coverage masks, NDData masks and '
        'the ImageDepth source mask follows the form, ImageDepth enumerates {source mask, all-False, None} itself in every run); '
        'each recipe executes its calls as steps: constructor / function call, then for the returned object every public '
        'property and every public method callable without arguments, then (second pass, the object itself watched as well) '
        'every plotting / patch member with non-default arguments (Axes, origin=(3.5, -2) as a caller-held ndarray, scale=1.5, '
        'patch keywords) and every member that needs arguments with a non-default argument set (coverage.'
        'members_of_catalog_like_classes lists them and what is left: documented mutators only), mutators with their '
        'argument arrays watched; all caller-held objects are compared with their '
        'snapshot after every step; one evaluation = one executed step; a step is non-trivial when it ran to completion '
        '(did not raise) -- steps that raise are still checked; distinct = distinct (step label, representation, condition, '
        'mask form, geometry).  ONE COMPANION AT A TIME: for every recipe, every other array argument it registers (companion '
        'slot: error, background, threshold / convolved / gain maps, kernels, weights, footprints, masks, coverage masks, '
        'coordinate / radius / label arrays; coverage.counters "companion slot | ...") x companion representation {MaskedArray owning a real '
        'mask array with True pixels [2-D float arrays], non-contiguous strided view of a larger watched array [every slot]; '
        'thorough also MaskedArray with a real all-False mask} with the image and all other arguments plain ndarrays x data '
        'condition (quick: negatives, nonfinite, nonfinite_error, masked; thorough: all six) x geometry (quick: base; thorough: '
        'all of the recipe).  TABLE FORMS: init_params of PSFPhotometry = column-name convention (5) x {QTable, Table} x every '
        'subset of {flux, id, group_id, local_bkg} x {data unit, flux/local_bkg in mJy} x {plain, Quantity data}, + extra fitted '
        'parameter column x 4 spellings x {minimal, complete}, + result table fed back, + 5 rejected (raising) forms per '
        'convention; IterativePSFPhotometry = convention x {minimal, complete} x unit x data kind x mode (thorough: the full '
        'product); make_model_image / params_table_to_models = every subset of the optional columns {id, flux, fwhm, '
        'model_shape, local_bkg[, name]} x {QTable, Table} x flux {plain, Quantity}; extract_stars catalogues = every subset '
        'of {id, x+y, skycoord, extra column} giving a position x {Table, QTable} for one image, linked images and an image '
        'with WCS; the minimal canonical init table is also passed in every run of the PSF-photometry recipes.  CONTAINER ARGUMENTS '
        '(dict / list arguments and dictionaries unpacked into **kwargs; coverage.container_arguments): the form of the container '
        'is the axis -- every subset of its optional entries, empty .. partial .. complete, x the neighbouring axes: '
        'make_model_image(params_map) = x_0 {listed, own-name column} x y_0 {same} x flux {listed, own-name column, no column} x '
        'fwhm {same} (36) x {dict, OrderedDict} x {valid, + key that is no model parameter, + value that is no column} = 216; '
        'make_random_models_table(param_ranges) = 16 subsets x {list, tuple, ndarray} values x {dict, OrderedDict}; '
        'make_model_params / make_psf_model_image **kwargs = 8 subsets x 3 value classes; grid_from_epsfs = meta {None, 16 subsets '
        'of {unrelated key, the three keys the function sets}} x 2 classes, grid_xypos {list of tuples, list of lists, ndarray} x '
        'meta {None, empty, complete}; centroid_sources **kwargs = 8 subsets (quadratic) + {empty, error} (1dg, 2dg) x {1, 3} '
        'positions as lists; EPSFFitter **fitter_kwargs = 16 subsets incl. the keys the class removes; aperture_photometry list of '
        '0..3 apertures; EPSFStars / LinkedEPSFStar lists of 0..3 / 1..2 stars and a list holding a LinkedEPSFStar; extract_stars '
        'data {NDData, [1], [2]} x catalogs {Table, [1], [2]}.  EPSF STAR GEOMETRIES (coverage.epsf_star_geometry): geometry of '
        'the odd star (10: all centred, fit box touching the cutout edge, sticking out on each side / the corner, centre on the '
        'edge, centre outside, every star off-centre) x fit_boxsize x star kind {EPSFStar, LinkedEPSFStar odd star first / second} '
        'x entry {EPSFFitter(), EPSFBuilder maxiters=1, EPSFBuilder 5 iterations without convergence, build_epsf(init_epsf)}: '
        'thorough fit_boxsize {5, (3, 7), 11, 13} = 480 calls; quick fit_boxsize {5, 11} and the 5-iteration builder with plain '
        'EPSFStar only = 200 calls')
ASSUMPTIONS = ['numpy / astropy containers report their own state faithfully (tobytes, mask, fill_value, unit)',
               'a cached lazyproperty value appearing in a caller-held photutils object is not a modification',
               'one scene (41x47, four sources) per condition, handed over whole or as one of the frames of the geometry alphabet '
               '(each holding source 0 and a pixel of every bad-pixel kind of the condition): a clean-up branch or an aliasing '
               'that needs another scene or another shape relation (e.g. >3 boxes per axis, strides other than the '
               'representations listed) is not reached',
               'geometries that matter only for Fortran-ordered data (registry.GEOMS_THOROUGH_ONLY) are enumerated in the thorough '
               'tier only, where the Fortran-ordered representation is',
               'one non-default argument set per plotting member / member with arguments (origin (3.5, -2), scale 1.5, the '
               'listed keywords): an aliasing that needs another value of those arguments (e.g. a negative scale, an origin '
               'given as a list) is not reached; plotting runs on the headless Agg backend, what is drawn is not inspected',
               'the second pass watches the object itself only while it runs (after its caches are filled); during the first '
               'pass (property reads, argument-less methods such as normalize()) only the objects the caller passed in are watched',
               'quick tier: mask forms "none" / "empty" are combined with the non-finite conditions at the base geometry only',
               'one companion at a time: a companion is singled out with the image being a plain ndarray (pairs of non-plain '
               'arguments only as in the representations "view" [all views], "quantity" [all Quantities] and, thorough, '
               '"ma_error"); quick tier: base geometry, mask form "cond", the four conditions with bad pixels -- an aliasing of '
               'a companion that needs a clean integer image or another geometry is reached in the thorough tier only; '
               'MaskedArray companions carry two masked pixels at fixed generic places; companion slots are the array '
               'arguments the recipes hand out through the context (counters "companion slot | ..."): tuples, lists and scalars '
               'are watched but have one representation',
               'table forms are enumerated on the clean scene (plain and Quantity data); with the other representations / '
               'conditions / geometries only the baseline table and the minimal canonical table are passed; column-name '
               'conventions: 5 of the 14 accepted x/y spellings and 4 of the 10 flux spellings (one per class: bare, model '
               'parameter, canonical, finder output, fit result)',
               'container arguments: the callables / arguments listed under coverage.container_arguments (plus the lists the '
               'member argument sets and the recipes hand over: columns, labels, ids, apertures, shapes); other sequence-valued '
               'arguments (positions, box sizes, xycen, radii ...) are handed over as ndarrays / tuples and have one form; a '
               'dictionary unpacked into **kwargs cannot be changed at its top level by the callee (Python copies it): it is watched '
               'for its mutable values; Ellipse.fit_isophote(isophote_list) appends to the list by documentation and is not a case',
               'EPSF star geometries: 11x11 cutouts of the three scene sources, the odd star is star 0, sub-pixel offset (0.2, 0.1), '
               'oversampling 2; fit_boxsize=None is rejected by the EPSFFitter constructor of the pinned tree (TypeError) and is not '
               'in the alphabet; quick tier: fit_boxsize {5, 11} and the linked kinds without the five-iteration builder (the '
               'thorough tier has the full product)',
               'remote data loaders (photutils.datasets.load_*) need the network and are not called (coverage.uncovered); '
               'abstract base classes, mixins and the aperture descriptor classes are exercised through a concrete class '
               '(coverage.covered_through_concrete_class, verified member by member)']


PLOT_STEP = re.compile(r'\.(%s)' % '|'.join(R.PLOT_PREFIXES))


def reps(tier):
    return R.C10_REPS_THOROUGH if tier == 'thorough' else R.C10_REPS_QUICK


def maskforms(tier):
    return R.MASKFORMS if tier == 'thorough' else R.MASKFORMS[:1]


# Quick tier: besides mask form 'cond' (which hands every mask argument out as None [clean, int], as an all-False array
# [negatives] and with True pixels [masked, nonfinite*]), the two combinations in which a clean-up *write* (non-finite
# pixels present) meets a mask that is absent or all-False -- "nothing to combine with: use the caller's array itself"
# shortcuts alias exactly there.  Base geometry only; the thorough tier has the full product.
QUICK_EXTRA_MASKFORMS = tuple((mf, cond) for mf in ('none', 'empty') for cond in ('nonfinite', 'nonfinite_error'))


def geoms(r, tier):
    return tuple(g for g in r.geoms if tier == 'thorough' or g not in R.GEOMS_THOROUGH_ONLY)


def combos(r, tier):
    """The (mask form, representation, condition, geometry) product for one
    recipe, simplest first; axes the recipe's arguments do not depend on
    collapse.  The geometry alphabet is the recipe's own (``r.geoms``)."""
    rr = reps(tier) if 'rep' in r.axes else reps(tier)[:1]
    cc = R.CONDITIONS if 'cond' in r.axes else R.CONDITIONS[:1]
    mm = maskforms(tier) if 'cond' in r.axes else R.MASKFORMS[:1]
    out = []
    for geom in geoms(r, tier):
        for mf in mm:
            for rep in rr:
                if rep == 'nddata' and not r.nddata:
                    continue
                for cond in cc:
                    if mf == 'none' and cond in ('clean', 'int'):
                        continue           # identical to mask form 'cond' (the mask is None there already)
                    if mf == 'empty' and cond == 'negatives':
                        continue           # identical to mask form 'cond' (the mask is all-False there already)
                    out.append((mf, rep, cond, geom))
        if tier != 'thorough' and geom == 'base' and 'cond' in r.axes:
            for mf, cond in QUICK_EXTRA_MASKFORMS:
                for rep in rr:
                    if rep == 'nddata' and not r.nddata:
                        continue
                    out.append((mf, rep, cond, geom))
    return out


# ---- one companion at a time -------------------------------------------------------------------------------------------
# Besides the representations above (which re-wrap the IMAGE, and in 'view' every array at once), every other array
# argument of a recipe -- error, background, threshold / convolved-data / gain maps, kernels, weights, footprints, masks,
# coverage masks, coordinate and label arrays: the *companion slots* the recipe registers with the context -- is singled
# out in turn: the image and all other arguments are plain ndarrays, the slot alone is a MaskedArray owning a real mask
# array with True pixels / (thorough) a real all-False mask array (two-dimensional float arrays), or a non-contiguous
# view of a larger array (every slot).  Quick: x every condition at the base geometry; thorough: x every geometry.
COMPANIONS = 'companions'


def companion_kinds(tier):
    return R.COMPANION_KINDS_THOROUGH if tier == 'thorough' else R.COMPANION_KINDS_QUICK


def companion_conditions(tier):
    """Quick: the four conditions that hold a pixel a clean-up branch writes to
    (negative, non-finite data, non-finite error, masked); thorough: all six."""
    return R.CONDITIONS if tier == 'thorough' else tuple(c for c in R.CONDITIONS if c not in ('clean', 'int'))


_SLOTS = {}


def companion_slots(name, geom, seed):
    """The companion slots of a recipe at one geometry, found by executing it
    once (condition 'masked': every mask argument is handed out)."""
    if (name, geom, seed) not in _SLOTS:
        c = R.run_recipe(name, 'ndarray', 'masked', seed, geom=geom)
        _SLOTS[name, geom, seed] = dict(c.array_slots) if c is not None else {}
    return _SLOTS[name, geom, seed]


def companion_combos(r, tier, seed):
    """(mask form, 'companion:<kind>:<slot>', condition, geometry), simplest
    first; a mask slot is skipped where the condition has no mask argument."""
    cc = companion_conditions(tier) if 'cond' in r.axes else R.CONDITIONS[:1]
    out = []
    for geom in (geoms(r, tier) if tier == 'thorough' else ('base',)):
        for slot, info in companion_slots(r.name, geom, seed).items():
            for kind in companion_kinds(tier):
                if kind not in R.COMPANION_LAYOUT_KINDS and info['kinds'] != 'all':
                    continue
                for cond in cc:
                    if info['mask'] and 'cond' in r.axes and cond in ('clean', 'int'):
                        continue           # the mask argument is None there
                    out.append(('cond', f'companion:{kind}:{slot}', cond, geom))
    return out


def plan(tier, seed):
    units = []
    for name, r in R.RECIPES.items():
        if r.slow and tier != 'thorough':
            continue
        for rep in sorted({c[1] for c in combos(r, tier)}, key=reps(tier).index):
            units.append({'recipe': name, 'rep': rep})
        if r.companions:
            units.append({'recipe': name, 'rep': COMPANIONS})      # (the slots are found by the unit itself)
    return units


def site_of(label, arg):
    """'<entry point>:<argument name>' with the variant suffix '[...]' of the
    step label dropped, so all variants of one call share a key."""
    base = re.sub(r'\[[^\]]*\]', '', label)
    return f'{base}:{arg}'


def run_combo(acc, name, rep, cond, mf, seed, sample=False, geom='base', full=False):
    c = R.run_recipe(name, rep, cond, seed, maskform=mf, geom=geom, extras=True, full=full)
    if c is None:
        acc.skip('combination not applicable')
        return None
    case0 = {'recipe': name, 'rep': rep, 'cond': cond, 'maskform': mf, 'geom': geom}
    if full:
        case0['full'] = True       # (recipes with a quick-tier sub-product: the step belongs to the full product)
    if rep.startswith('companion:'):
        if not c.comp_applied:
            acc.skip('companion slot not handed out in this combination')
            return None
        _, kind, slot = rep.split(':', 2)
        acc.counters['companion runs: ' + kind] += 1
        info = companion_slots(name, geom, seed).get(slot, {})
        acc.counters[f'companion slot | {name} | {slot} | {"MaskedArray kinds + strided view" if info.get("kinds") == "all" else "strided view"}'] += 1
        unknown = set(c.array_slots) - set(companion_slots(name, geom, seed))
        if unknown:      # (the discovery run leaves the C10-only steps out: a slot registered by one of them must not go unnoticed)
            raise AssertionError(f'recipe {name!r}: companion slots {sorted(unknown)} are not found by companion_slots()')
    for i, (label, status) in enumerate(c.steps):
        ok = status == 'ok'
        acc.case(nontrivial=ok, key=(label, rep, cond, mf, geom) if ok else None,
                 sample=dict(case0, step=label, status=status, watched=list(c.held)) if (sample and i == 0) else None)
        if not ok:
            acc.counters['steps_that_raised'] += 1
    acc.counters['recipe_runs'] += 1
    acc.counters['watched_objects'] += len(c.held)
    for _, kind, is_view in c.masks_out:
        acc.counters[f'mask arguments handed out: {kind}{", view of a larger array" if is_view else ""}'] += 1
    acc.counters['plotting / patch steps'] += sum(1 for lab, _ in c.steps if PLOT_STEP.search(lab) is not None)
    for label, arg, comps in c.changes:
        acc.violation('input-mutated', site_of(label, arg), dict(case0, step=label, arg=arg),
                      observed=f'{arg} changed in: {comps}', expected='bit-for-bit unchanged',
                      detail=f'after step {label!r} (status {dict(c.steps).get(label)}) with data representation {rep!r}, '
                             f'condition {cond!r}, mask form {mf!r}, geometry {geom!r} (image shape {c.shape})')
    acc.outcome((name, rep, cond, mf, geom, tuple(s for _, s in c.steps)))
    return c


def run_unit(unit, tier, seed):
    acc = Acc()
    name = unit['recipe']
    if unit['rep'] == COMPANIONS:
        for n, (mf, rep, cond, geom) in enumerate(companion_combos(R.RECIPES[name], tier, seed)):
            run_combo(acc, name, rep, cond, mf, seed, sample=(n % 41 == 0), geom=geom, full=(tier == 'thorough'))
        return acc
    for n, (mf, rep, cond, geom) in enumerate(combos(R.RECIPES[name], tier)):
        if rep == unit['rep']:
            run_combo(acc, name, rep, cond, mf, seed, sample=(n % 41 == 0), geom=geom, full=(tier == 'thorough'))
    return acc


def replay(case, seed):
    acc = Acc()
    run_combo(acc, case['recipe'], case['rep'], case['cond'], case.get('maskform', 'cond'), seed, geom=case.get('geom', 'base'),
              full=bool(case.get('full', False)))
    return acc


def bad_pixels_inside(geom, seed):
    """Number of pixels of every bad-pixel kind inside the frame of a geometry
    (measured on the scenes actually handed out)."""
    out = {}
    for cond in R.CONDITIONS:
        c = R.Ctx('ma_masked', cond, seed, geom=geom)
        sc = {k: (None if v is None else c._cut(v, None)) for k, v in c.sc.items()}
        if cond == 'nonfinite':
            out['non-finite data'] = (~np.isfinite(sc['data'])).sum()
        if cond == 'nonfinite_error':
            out['non-finite error'] = (~np.isfinite(sc['error'])).sum()
        if cond == 'negatives':
            out['negative data'] = (sc['data'] < 0).sum()
        if cond in ('masked', 'nonfinite'):
            out[f'mask argument True ({cond})'] = sc['mask'].sum()
        if cond == 'clean':
            out['MaskedArray mask True'] = np.ma.getmaskarray(c.data()).sum()
    return out


def describe(tier, seed):
    cov = R.coverage()
    members = {}
    import importlib
    from ..ref import registry_members as M
    for path in ('photutils.aperture.ApertureStats', 'photutils.background.Background2D', 'photutils.segmentation.SourceCatalog',
                 'photutils.segmentation.SegmentationImage', 'photutils.segmentation.Segment', 'photutils.profiles.RadialProfile',
                 'photutils.profiles.CurveOfGrowth', 'photutils.isophote.Isophote', 'photutils.isophote.IsophoteList',
                 'photutils.psf.EPSFStar', 'photutils.psf.EPSFStars', 'photutils.aperture.CircularAperture',
                 'photutils.aperture.SkyCircularAperture', 'photutils.aperture.BoundingBox',
                 'photutils.aperture.ApertureMask', 'photutils.utils.cutouts.CutoutImage', 'photutils.background.MeanBackground',
                 'photutils.background.StdBackgroundRMS', 'photutils.detection.DAOStarFinder', 'photutils.isophote.EllipseGeometry',
                 'photutils.psf.STDPSFGrid'):
        mod, cls = path.rsplit('.', 1)
        k = getattr(importlib.import_module(mod), cls)
        kinds = {}
        for n, kind in R.member_names(k):
            kinds.setdefault(kind, []).append(n)
        with_args = {n: [v[0] for v in M.argument_sets(k, n, kind)] for n, kind in R.member_names(k) if M.argument_sets(k, n, kind)}
        explicit = [n for n, kind in R.member_names(k) if kind == 'method-needs-args' and not M.argument_sets(k, n, kind)
                    and M._lookup(M.EXPLICIT, k, n)]
        members[cls] = {'evaluated_without_arguments': len(kinds.get('property', [])) + len(kinds.get('method0', [])),
                        'called_with_non_default_arguments (member: argument sets)': with_args,
                        'called_by_explicit_recipe_steps': explicit,
                        'not_evaluated': M.not_evaluated(k)}
    frames = {}
    for g, region in R.FRAMES.items():
        c = R.Ctx('ndarray', 'clean', seed, geom=g)
        frames[g] = {'image_shape': list(c.shape), 'block_bbox_in_image (ixmin, ixmax, iymin, iymax)': list(c.block_bbox()),
                     'bad_pixels_inside': {k: int(v) for k, v in bad_pixels_inside(g, seed).items()},
                     'tier': 'thorough' if g in R.GEOMS_THOROUGH_ONLY else 'both'}
    by_alphabet = {}
    for r in R.RECIPES.values():
        gg = geoms(r, tier)
        if len(gg) > 1:
            by_alphabet.setdefault(' | '.join(gg) if len(gg) < 12 else f'base + {len(gg) - 1} Background2D box layouts', []).append(r.name)
    from ..ref import registry_recipes as RR
    tables = {'init_params conventions (x, y, flux)': {k: list(v) for k, v in RR.INIT_NAMES.items()},
              'init_params optional columns (every subset)': list(RR.INIT_OPTIONAL),
              'init_params forms: PSFPhotometry, plain data': len(RR.init_table_forms(False)),
              'init_params forms: PSFPhotometry, Quantity data': len(RR.init_table_forms(True)),
              'init_params forms: IterativePSFPhotometry per mode (quick), plain / Quantity data': [
                  len(RR.init_table_forms(u, classes=('QTable',), subsets=(RR.MINIMAL, RR.COMPLETE))) for u in (False, True)],
              'extra fitted parameter column spellings': [str(x) for x in RR.INIT_FWHM_NAMES],
              'params table optional columns (every subset)': list(RR.PARAMS_OPTIONAL) + ['name (params_table_to_models)'],
              'catalogue columns (every subset giving a position)': ['id', 'x + y', 'skycoord', 'extra column'],
              'table classes': ['QTable', 'Table'],
              'snapshot': 'class, column order, per column values / dtype / shape / unit / column class / mask / info, meta'}
    from ..ref import registry_containers as RC
    full = tier == 'thorough'
    star = {'geometry of the odd star: cutout_center (x, y) in the 11x11 cutout': {k: ('every star centred (5.2, 5.1)' if v is None else
                                                                                      'every star at (1.2, 5.1)' if v == 'all' else list(v))
                                                                                  for k, v in RC.STAR_GEOMS.items()},
            'fit_boxsize': [b for b in RC.FIT_BOXSIZES if full or b in RC.QUICK_FIT_BOXSIZES],
            'star kinds': list(RC.STAR_KINDS), 'entries': list(RC.EPSF_ENTRIES),
            'steps per geometry (fit_boxsize, kind, entry)': len(RC.star_steps(full)),
            'calls': len(RC.star_steps(full)) * len(RC.STAR_GEOMS),
            'watched': 'the EPSFStars collection with every EPSFStar / LinkedEPSFStar in it (data, weights, mask, cutout_center, origin, '
                       'flux, fit status and exclusion flags), the ePSF'}
    return {'container_arguments': {k: dict(v) for k, v in RC.CONTAINER_ARGS.items()},
            'epsf_star_geometry': star,
            'companion_axis': {'representations': {'ma': 'MaskedArray owning a real mask array with two True pixels (2-D float arrays)',
                                                   'ma_empty': 'MaskedArray owning a real all-False mask array (2-D float arrays)',
                                                   'strided': 'every second element along each axis of a larger watched array (every slot)'},
                               'representations_enumerated': list(companion_kinds(tier)),
                               'conditions': list(companion_conditions(tier)),
                               'geometries': 'all of the recipe' if tier == 'thorough' else ['base'],
                               'slots': 'counters "companion slot | <recipe> | <slot> | <representations>": number of runs '
                                        '(the slots are found by executing the recipe; a mask slot is not run where the '
                                        'condition has no mask argument)'},
            'table_forms': tables,
            'alphabet': {'recipes': len(R.RECIPES), 'representations': list(reps(tier)), 'conditions': list(R.CONDITIONS),
                         'mask_forms': list(maskforms(tier)) + ([f'{mf} x {cond} (base geometry)' for mf, cond in QUICK_EXTRA_MASKFORMS]
                                                                 if tier != 'thorough' else []),
                         'mask_argument_values': ['None', 'all-False array', 'array with True pixels',
                                                  'each also as a view of a larger array (representation "view")'],
                         'geometries': [g for g in R.FRAMES if tier == 'thorough' or g not in R.GEOMS_THOROUGH_ONLY]
                         + [g for g in list(RR.CUTS) + ['blend'] if g not in R.FRAMES]
                         + [f'{len(RR.BKG_LAYOUTS)} Background2D box layouts (coverage.geometry)']},
            'geometry': {'frames': frames, 'single_source_cutouts': {k: [[s.start, s.stop] for s in v] for k, v in RR.CUTS.items()},
                         'background2d_layouts (image shape, box, edge_method)': {k: [list(v[0]) if not isinstance(v[0], str) else v[0],
                                                                                     list(v[1]), v[2]] for k, v in RR.BKG_LAYOUTS.items()},
                         'recipes_by_geometry_alphabet': by_alphabet,
                         'recipes_with_base_geometry_only': [r.name for r in R.RECIPES.values() if len(r.geoms) == 1]},
            'public_callables': cov['public_callables'],
            'covered': len(cov['covered']),
            'covered_through_concrete_class': cov['covered_through_concrete_class'],
            'uncovered': cov['uncovered'],
            'plot_arguments': {'origin': [3.5, -2.0], 'scale': M.SCALE, 'patch_keywords': M.PATCH_KW, 'backend': 'Agg'},
            'unclassified_public_callables': cov['unclassified'],
            'stale_registry_names': cov['stale_registry_names'],
            'members_of_catalog_like_classes': members}
