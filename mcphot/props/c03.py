"""C03 -- results are covariant under integer translation (embedding in a larger
zero-padded canvas at offset (dx, dy)) and under axis transposition.

Shape (C), metamorphic: 4 seed-generic asymmetric scenes (non-square frames, with
mask, error, background ramp, smoothed image and segmentation map, all built with
numpy only) x ALL offsets (dx, dy) in {0,1,2,5} x {0,1,3,7} x pad widths x API
configurations; plus transposition for the APIs the property lists for it.  No
oracle is needed: the classification tables in ``mcphot/ref/c03_tables.py`` say for
every output column / property whether it is position-like (must move by exactly
(dx, dy); x/y members swap on transposition) or position-free (must not change).

Three rules keep the relation from being vacuous for cutout-registration / border slips:

* SOURCE ALPHABET.  Every scene holds, besides its 3-5 extended Gaussians, one
  instance of each "odd" segment of ``c03_core.ODD_PATTERNS`` (5-pixel diagonal, single
  pixel, one-row / one-column segment, negative block, completely masked block, block
  whose peak is on its bounding-box edge), with its own label in the segmentation map.
  They drive the rare per-source branches (failed / impossible quadratic fit and its
  fall-back, minimum and circular-minimum Kron radius, undefined Kron radius, "no
  unmasked pixel", isophotal fall-back of the windowed centroid, ...) under every
  offset.  Apertures (aperture_photometry, ApertureStats incl. apertures smaller than a
  segment), profile centres, IRAFStarFinder ``xycoords`` and a scalar SourceCatalog are
  placed on them as well.
* AUXILIARY ARRAYS.  Every optional per-pixel input of every API (error, mask,
  background, convolved data, detection catalogue, threshold map) is non-constant on the
  scale of the frame (the error map carries a smooth sensitivity gradient), is
  transformed with the scene (padding: a positive constant for error / threshold) and is
  passed in at least one configuration -- including ``error`` with the error-aware
  centroid functions (centroid_1dg / centroid_2dg) in find_peaks and centroid_sources.
  A cutout of such an array taken at the wrong place then changes the result.
* BORDER ALPHABET AND PER-AXIS FOOTPRINT RULE (find_peaks, DAOStarFinder, StarFinder).  "Footprint inside the
  original frame" is decided per axis on the integer DETECTION PIXEL of a row, with no margin: the row takes part when
  [xp-Rx, xp+Rx] x [yp-Ry, yp+Ry] lies inside the original frame, Rx / Ry being the largest half size along that axis
  of the search box / footprint, the kernel cutout, the documented border exclusion and int(min_separation)
  (``finish_peaks``).  find_peaks reports the pixel; for DAOStarFinder it is recovered from the documented ``peak``
  column (the one pixel within a kernel size of the centroid that holds exactly that value), for StarFinder from
  ``flux`` + centroid (the one kernel box around the centroid that reproduces both) -- numpy only
  (``c03_core.dao_peak_pixels`` / ``starfinder_peak_pixels``); exact ties give several candidate pixels: the row takes
  part when all of them satisfy the rule, is left out when none does, and is left out and counted otherwise (0 rows
  on the unchanged tree).  So that every boundary of that rule has rows on both sides, the image handed to
  DAOStarFinder / StarFinder carries one compact star for EVERY (edge, d) in {bottom, top, left, right} x {0..5}
  (brightest pixel d px from that edge), DAOStarFinder runs the full product kernel aspect {5x5, 5x9, 9x5, 5x7 tilted,
  7x5 tilted} x exclude_border {False, True} (+ min_separation/mask variants of the two elongated kernels),
  StarFinder kernel {7x5, 5x7, 5x5} x exclude_border, and find_peaks has border widths (2,4) and (3,1) -- the wider
  border once along x and once along y; find_peaks gets its near-edge rows from noise peaks (threshold 1.9 sigma).
  IRAFStarFinder (circular kernel only, no column that identifies the detection pixel) keeps the older loose rule:
  isotropic half size 2*kernel radius + min_separation + 2 around the centroid.
centroid_sources is checked under transposition (a centroid function) AND translation:
it is the centroid step of find_peaks, which passes it its peaks, data, mask and error.

TOLERANCES (mcphot/ref/c03_core.TOL), calibrated on the unchanged tree
(C03_CALIB=1, worst ratio deviation/allowed over seeds 0-2 is quoted):
  exact  integers (indices, boxes, slices, label maps, areas): bit-equal.
  pos    positions, atol 1e-9: a position is (cutout-relative value) + (integer origin);
         the shift changes only the last rounding of that sum (<= 2 ulp of ~1e2 = 3e-14).
  rel    position-free floats, rtol 1e-10 + atol 1e-9: a shift evaluates the identical
         arithmetic on identical cutouts (observed 0 or a few ulp); transposition re-orders
         sums over <= ~500 pixels (relative 1e-13).  Image moments get an additional
         allowance rtol * M00 * L**(i+j) because high-order central moments are small
         differences of large terms.
  geom   quantities built on the exact/sub-pixel overlap kernels (aperture sums, Kron flux,
         profiles), rtol 1e-9: the kernels compute pixel-edge coordinates as
         (ixmin - 0.5 - x0), whose rounding changes with the integer offset, and carry an
         internal 1e-10 geometric tolerance (DESIGN C01).
  fit    iterative results (windowed centroid: stops when the step is < 1e-4 and then is
         accurate to the next step ~1e-8; brentq radius xtol 2e-12; 1-D Gaussian fits), 1e-6.
  fitl   2-D Gaussian least-squares centroids under transposition (ftol-limited), 1e-5; under
         translation the same columns are held to 'fit' (bit-identical cutouts -> identical fits;
         observed deviation 0 or 1 ulp).
Calibration of the columns added with the odd segments / error-aware fits (seeds 0-2, quick):
worst deviation/allowed 3.5e-4 (ApertureStats.moments_central, transposition), fits <= 2e-5.
AMBIGUITY (rule 1): the orientation of a row with isotropic second moments (single pixel;
semimajor == semiminor within 1e-9) and the theta of an elliptical aperture with a == b are
undefined; any finite value is accepted there (counted as orientation_values_ambiguous).
"""
import math
import os
import warnings

import numpy as np

from ..ref import c03_core as core
from ..ref.c03_core import Identity, Shift, Transpose, make_scene, transform_from_case
from ..ref.c03_tables import TABLES, Res, compare
from ..runner import Acc

PROPERTY = 'C03'
LEVEL = 'exploration'
RULE = ('full Cartesian product scene x offset (dx,dy) x pad widths (px,py) x API configuration, plus scene x API '
        'configuration x transposition. quick: 4 scenes, (dx,dy) in {0,1,2,5}x{0,1,3,7}, pads {(4,6),(0,0)}; '
        'thorough: 8 scenes, (dx,dy) in {0,1,2,5,13}x{0,1,3,7,16}, pads {0,4}x{0,6}, and the full products of '
        'SourceCatalog (apermask_method x localbkg_width x kron_params x input set) and ApertureStats (aperture class '
        'x sum_method x sigma clipping) configurations. Every scene = 3-5 extended Gaussians + one instance of each '
        'of the 6 odd segments (diagonal, single pixel, one row/column, negative block, fully masked block, '
        'edge-peaked block), all labelled in the segmentation map and all measured (apertures, profile centres, '
        'given finder coordinates, a scalar catalogue sit on them too). Every optional per-pixel auxiliary input '
        '(error with a large-scale gradient, mask, background, convolved data, detection catalogue, threshold map) is '
        'transformed with the scene and passed in at least one configuration of each API that accepts it, error also '
        'to the error-aware centroid functions of find_peaks / centroid_sources. BORDER: the image of DAOStarFinder / '
        'StarFinder also holds one compact star per (edge, d) in {bottom,top,left,right} x {0..5} px (brightest pixel d px '
        'from the edge); DAOStarFinder = 5 general configurations + full product kernel aspect {5x5, 5x9, 9x5, 5x7 tilted, '
        '7x5 tilted} x exclude_border {F,T} + 2 min_separation/mask variants; StarFinder = kernel {7x5, 5x7, 5x5} x '
        'exclude_border {F,T}; find_peaks border_width in {none, (2,4), (3,1)}. Rows of find_peaks / DAOStarFinder / '
        'StarFinder are selected by the per-axis rule on the integer detection pixel: box of half sizes (Rx, Ry) = per-axis '
        'max(search footprint, kernel cutout, border width, int(min_separation)) inside the original frame, no margin '
        '(IRAFStarFinder: loose isotropic rule on the centroid). Every case runs the real API on '
        'the base inputs and on the transformed inputs and compares every classified column. A case is non-trivial '
        'when the transformation is not the identity embedding (dx,dy,px,py)=(0,0,0,0) AND at least one row/value '
        'passed the footprint rule and was compared.')
ASSUMPTIONS = [
    'numpy is trusted; scenes (image, error, mask, ramp, smoothed image, segmentation map) are built without photutils',
    'footprints of Kron / windowed-centroid measurements use the semimajor_sigma, kron_radius and half-light radius '
    'reported by the BASE run (documented radii 6*a, kron_params[0]*r_k*a, 4*sigma_win) plus one pixel of margin; all '
    'other footprints come from the inputs alone (segment boxes, aperture radii, kernel/box sizes)',
    'the deblend_sources input label map is produced by detect_sources on the base image (it is an input, any label map is valid)',
    'frames are at most 58x73 px, 3-5 extended sources + 6 odd segments: defects that need other geometry are outside '
    'the bound',
    'the relation compares two runs: a value that is NaN ("no result") in both runs agrees, so a defect that makes a '
    'measurement fail identically in the base and in the transformed frame is invisible here (such values are counted '
    'in values_nan_in_both_runs)',
    'the detection pixel of a DAOStarFinder row is the unique pixel within one kernel size of the centroid whose data '
    'value equals the documented "peak" column; of a StarFinder row the unique pixel within the kernel half size of the '
    'centroid whose kernel-sized box of non-negative pixels reproduces the documented flux (rtol 1e-9) and centroid '
    '(1e-7): a defect that corrupts these columns identically in both runs would only remove rows from the comparison '
    '(counted in rows_without_recovered_detection_pixel)',
    'IRAFStarFinder rows are selected by the loose isotropic rule (2*kernel radius + min_separation + 2 px around the '
    'centroid): its border exclusion width and near-edge rows are outside the bound',
    'centroid_sources under translation is read off the find_peaks clause of the property (find_peaks delegates its '
    'centroids to it); find_peaks and the star finders are not transposed (the property does not list them)',
]

OFFX = (0, 1, 2, 5)
OFFY = (0, 1, 3, 7)
PADS = {'quick': ((4, 6), (0, 0)), 'thorough': ((4, 6), (0, 0), (4, 0), (0, 6))}
# thorough embeds at {0,1,2,5,13} x {0,1,3,7,16} (all four pads)
OFFX_EXTRA = (0, 1, 2, 5, 13)
OFFY_EXTRA = (0, 1, 3, 7, 16)
NSCENES = {'quick': 4, 'thorough': 8}


def inside(shape, x, y, R):
    """True where the disc/box of half-size R around (x, y) lies inside the pixel area of ``shape``."""
    ny, nx = shape
    x, y, R = np.asarray(x, float), np.asarray(y, float), np.asarray(R, float)
    return (x - R >= -0.5) & (x + R <= nx - 0.5) & (y - R >= -0.5) & (y + R <= ny - 0.5)


def back(T, x, y):
    """Map positions reported in the transformed frame back to the base frame."""
    x, y = np.asarray(x, float), np.asarray(y, float)
    if T.kind == 'shift':
        return x - T.dx, y - T.dy
    if T.kind == 'T':
        return y, x
    return x, y


ODD_APER = ('neg9', 'masked9', 'pixel1')


def aper_positions(S):
    ny, nx = S['shape']
    # generic (irrational-looking) fractions: no sub-pixel centre may sit on an aperture boundary (rule 1)
    xs = [p[1] + 0.3137 for p in S['src']] + [3.3319, nx - 6.2191]
    ys = [p[2] - 0.2719 for p in S['src']] + [ny / 2 + 0.4177, 7.7443]
    # apertures on three of the odd segments: the negative block (negative sums / undefined moments), the completely
    # masked block (small apertures have no unmasked pixel at all) and the single hot pixel
    for o in S['odd']:
        if o['kind'] in ODD_APER:
            xs.append(o['xc'] + 0.3137)
            ys.append(o['yc'] - 0.2719)
    return np.array(xs), np.array(ys)


def table_to_res(api, tbl, detected):
    res = Res(api, detected=detected)
    if tbl is None:
        res.n = 0
        return res
    res.n = len(tbl)
    for name in tbl.colnames:
        res.add(name, tbl[name])
    return res


# ----------------------------------------------------------------------------
# aperture_photometry
# ----------------------------------------------------------------------------
APHOT_CFG = [('exact', 5), ('center', 5), ('subpixel', 5)]


def run_aperphot(S, T, ci):
    from photutils.aperture import (CircularAnnulus, CircularAperture, EllipticalAnnulus, EllipticalAperture,
                                    RectangularAnnulus, RectangularAperture, aperture_photometry)
    method, sub = APHOT_CFG[ci]
    bx, by = aper_positions(S)
    x, y = T.pos(bx, by)
    pos = np.transpose([x, y])
    apers = [CircularAperture(pos, 3.7), CircularAnnulus(pos, 4.2, 6.9),
             EllipticalAperture(pos, 5.3, 2.2, theta=T.theta(0.7)),
             EllipticalAnnulus(pos, 3.1, 6.4, 4.0, theta=T.theta(2.1)),
             RectangularAperture(pos, 6.3, 3.4, theta=T.theta(1.1)),
             RectangularAnnulus(pos, 3.0, 7.2, 5.1, theta=T.theta(-0.4))]
    radii = [3.7, 6.9, 5.3, 6.4, math.hypot(6.3, 3.4) / 2, math.hypot(7.2, 5.1) / 2]
    tbl = aperture_photometry(T.img(S['data']), apers, error=T.img(S['error'], fill=1.0), mask=T.img(S['mask']),
                              method=method, subpixels=sub)
    res = table_to_res('aperture_photometry', tbl, False)
    res.foot['all'] = np.ones(len(bx), bool)
    for k, r in enumerate(radii):
        res.foot[f'ap{k}'] = inside(S['shape'], bx, by, r + 1.0)
    return res


# ----------------------------------------------------------------------------
# ApertureStats
# ----------------------------------------------------------------------------
ASTAT_CFG = {
    'circle-exact': dict(aper='circle', method='exact'),
    'ellipse-center-sigclip-localbkg': dict(aper='ellipse', method='center', clip=True, lbkg=True),
    'rectannulus-subpixel': dict(aper='rectannulus', method='subpixel', err=False),
    'circannulus-exact-nomask': dict(aper='circannulus', method='exact', mask=False),
    'scalar-ellipse': dict(aper='ellipse2', method='exact', scalar=True),
    # apertures smaller than the odd segments: r=1.1 lies inside the 3x3 masked block (no unmasked pixel: every
    # statistic takes its "no data" branch); r=0.45 holds at most one pixel centre (empty 'center' masks)
    'small-circle-exact': dict(aper='smallcircle', method='exact'),
    'tiny-circle-center-sigclip': dict(aper='tinycircle', method='center', clip=True),
}
NASTAT_QUICK = len(ASTAT_CFG)
# thorough: full product aperture class x sum_method x sigma clipping
for _ap in ('circle', 'circannulus', 'ellipse', 'ellannulus', 'rect', 'rectannulus'):
    for _m in ('exact', 'center', 'subpixel'):
        for _c in (False, True):
            ASTAT_CFG[f'product:{_ap}/{_m}/{"sigclip" if _c else "noclip"}'] = dict(aper=_ap, method=_m, clip=_c,
                                                                                   lbkg=_c)
ASTAT_NAMES = list(ASTAT_CFG)


def set_round(res):
    """Rows with isotropic second moments (semimajor == semiminor, e.g. a single pixel): ``orientation`` is undefined."""
    if 'orientation' in res.cols:
        a = np.asarray(res.cols['semimajor_sigma']['v'], float)
        b = np.asarray(res.cols['semiminor_sigma']['v'], float)
        with np.errstate(invalid='ignore'):
            res.cols['orientation']['extra']['ambig'] = np.abs(a - b) <= 1e-9 * np.abs(a)


def set_mom_scales(res, m00, L):
    """Allowance for image moments: rtol * M00 * L**(i+j) (see module docstring)."""
    m00 = np.abs(np.asarray(m00, float))
    L = np.asarray(L, float)
    for name in ('moments', 'moments_central'):
        if name in res.cols:
            n = res.cols[name]['v'].shape[-1]
            ij = np.add.outer(np.arange(n), np.arange(n))
            res.cols[name]['extra']['scale'] = m00[:, None, None] * L[:, None, None] ** ij[None]
    if 'inertia_tensor' in res.cols:
        res.cols['inertia_tensor']['extra']['scale'] = (m00 * L ** 2)[:, None, None] * np.ones((1, 2, 2))


def run_aperstats(S, T, ci):
    from astropy.stats import SigmaClip
    from photutils.aperture import (ApertureStats, CircularAnnulus, CircularAperture, EllipticalAnnulus,
                                    EllipticalAperture, RectangularAnnulus, RectangularAperture)
    c = ASTAT_CFG[ASTAT_NAMES[ci]]
    bx, by = aper_positions(S)
    if c.get('scalar'):
        bx, by = bx[:1], by[:1]
    x, y = T.pos(bx, by)
    pos = np.transpose([x, y])
    kw = {'sum_method': c['method'], 'subpixels': 3}
    if c.get('err', True):
        kw['error'] = T.img(S['error'], fill=1.0)
    if c.get('mask', True):
        kw['mask'] = T.img(S['mask'])
    if c.get('clip'):
        kw['sigma_clip'] = SigmaClip(sigma=3.0, maxiters=5)
    if c.get('lbkg'):
        kw['local_bkg'] = 0.3 + 0.1 * np.arange(len(bx))
    ap, R = {
        'circle': lambda: (CircularAperture(pos, 4.6), 4.6),
        'smallcircle': lambda: (CircularAperture(pos, 1.1), 1.1),
        'tinycircle': lambda: (CircularAperture(pos, 0.45), 0.45),
        'circannulus': lambda: (CircularAnnulus(pos, 2.5, 6.5), 6.5),
        'ellipse': lambda: (EllipticalAperture(pos, 6.1, 3.2, theta=T.theta(0.9)), 6.1),
        'ellipse2': lambda: (EllipticalAperture(pos[0], 5.2, 2.7, theta=T.theta(2.4)), 5.2),
        'ellannulus': lambda: (EllipticalAnnulus(pos, 2.9, 6.3, 3.8, theta=T.theta(-0.6)), 6.3),
        'rect': lambda: (RectangularAperture(pos, 7.4, 4.3, theta=T.theta(1.3)), math.hypot(7.4, 4.3) / 2),
        'rectannulus': lambda: (RectangularAnnulus(pos, 3.0, 8.0, 5.5, theta=T.theta(0.5)), math.hypot(8.0, 5.5) / 2),
    }[c['aper']]()
    st = ApertureStats(T.img(S['data']), ap, **kw)
    res = Res('ApertureStats', n=len(bx))
    if c['aper'] == 'ellannulus' and c['method'] == 'exact':
        # own site: the exact EllipticalAnnulus mask carries +-1e-16 weights inside the inner ellipse (see report)
        res.tag = '[EllipticalAnnulus,exact]'
    scalar = bool(st.isscalar)
    for prop in list(st.properties) + ['isscalar', 'n_apertures', 'ids', 'properties']:
        v = getattr(st, prop)
        if scalar and prop not in ('isscalar', 'n_apertures', 'ids', 'properties'):
            kind = TABLES['ApertureStats'].get(prop, ('?',))[0]
            if kind in ('img', 'bbox', 'null'):
                v = [v]
            else:
                unit = getattr(v, 'unit', None)
                v = np.asarray(getattr(v, 'value', v))[None]
                if unit is not None:
                    v = v * unit
        res.add(prop, v)
    res.foot['ap'] = inside(S['shape'], bx, by, R + 1.0)
    m = res.cols['moments']['v']
    bb = res.cols['bbox.max']['v'] - res.cols['bbox.min']['v']
    set_mom_scales(res, m[:, 0, 0], bb.max(axis=1))
    set_round(res)
    return res


# ----------------------------------------------------------------------------
# find_peaks and the star finders (rows are discovered by the call)
# ----------------------------------------------------------------------------
def finish_detected(res, S, T, xname, yname, R):
    """LOOSE interior rule (IRAFStarFinder only: its kernel is always circular and its table has no column from which
    the detection pixel could be recovered): a row takes part when the box of half-size R (kernel / search box /
    border width, one pixel margin included by the caller) around its position lies inside the ORIGINAL frame."""
    if res.n == 0:
        res.foot['int'] = np.zeros(0, bool)
        res.rowxy = (np.zeros(0), np.zeros(0))
        return res
    x, y = res.cols[xname]['v'], res.cols[yname]['v']
    x0, y0 = back(T, x, y)
    res.rowxy = (x0, y0)
    res.foot['int'] = inside(S['shape'], x0, y0, R)
    return res


def finish_peaks(res, S, T, cands, Rx, Ry):
    """TIGHT, per-axis interior rule on the integer DETECTION PIXEL (transformed frame) of every row: the row takes
    part when the box [xp-Rx, xp+Rx] x [yp-Ry, yp+Ry] lies inside the ORIGINAL frame, where per axis R is the
    largest half size of anything the measurement reads or the documented border exclusion refers to (peak-search
    footprint / box, kernel cutout, border width, int(min_separation)).  No margin: the convolution of the finders
    treats the outside of the frame as zero, which is what the zero padded canvas holds, so inside the original frame
    the convolved image, every cutout that lies inside it and the local-maximum decision of a pixel whose search
    footprint lies inside it are the same in both runs.  ``cands``: per row the list of possible detection pixels
    (one, except for exact ties): the row takes part when ALL of them satisfy the rule, is left out when none does,
    and is left out and counted as lost when there is no candidate or they disagree."""
    ny, nx = S['shape']
    n = res.n
    x0, y0 = np.full(n, np.nan), np.full(n, np.nan)
    ok, band, lost = np.zeros(n, bool), 0, 0
    Rm = max(Rx, Ry)
    for i, cand in enumerate(cands):
        if not cand:
            lost += 1
            continue
        bx, by = back(T, [c[0] for c in cand], [c[1] for c in cand])
        x0[i], y0[i] = bx[0], by[0]
        ins = (bx - Rx >= 0) & (bx + Rx <= nx - 1) & (by - Ry >= 0) & (by + Ry <= ny - 1)
        if ins.all():
            ok[i] = True
            # rows that an isotropic rule with the larger of the two half sizes would leave out: the anisotropic band
            band += int(not ((bx - Rm >= 0) & (bx + Rm <= nx - 1) & (by - Rm >= 0) & (by + Rm <= ny - 1)).all())
        elif ins.any():
            lost += 1
    res.rowxy = (x0, y0)
    res.foot['int'] = ok
    res.band, res.lost = band, lost
    return res


FP_CFG = ['box3', 'box(5,3)-mask', 'footprint3x5-border(2,4)', 'box3-border(3,1)', 'box5-npeaks7', 'box(5,7)-centroid_com',
          'box5-centroid_quadratic-mask', 'thresholdmap-box3', 'thr6-box5-centroid_1dg-error-mask',
          'thr6-box(7,5)-centroid_2dg-error']


def run_find_peaks(S, T, ci):
    from photutils.centroids import centroid_1dg, centroid_2dg, centroid_com, centroid_quadratic
    from photutils.detection import find_peaks
    name = FP_CFG[ci]
    data = T.img(S['data'])
    thr, fit = 1.5, False
    # R = (Rx, Ry): per-axis half size of the search box / footprint (= centroid cutout), or the border width if larger
    if name == 'box3':
        kw, R = {'box_size': 3}, (1, 1)
    elif name == 'box(5,3)-mask':
        kw, R = {'box_size': (5, 3), 'mask': T.img(S['mask'])}, (1, 2)
    elif name == 'footprint3x5-border(2,4)':
        fp = np.array([[0, 1, 1, 1, 1], [1, 1, 1, 1, 1], [1, 1, 1, 0, 0]], bool)       # (ny=3, nx=5), asymmetric
        kw, R = {'footprint': fp, 'border_width': (2, 4)}, (4, 2)
    elif name == 'box3-border(3,1)':
        # the border is the wider one in y here (in x in the configuration above)
        kw, R = {'box_size': 3, 'border_width': (3, 1)}, (1, 3)
    elif name == 'box5-npeaks7':
        # npeaks keeps the 7 highest peaks of the whole frame.  The image is not convolved and the threshold is positive,
        # so the zero padding holds no peak and the two runs select from the same set of peaks
        kw, R = {'box_size': 5, 'npeaks': 7}, (2, 2)
    elif name == 'box(5,7)-centroid_com':
        kw, R = {'box_size': (5, 7), 'centroid_func': centroid_com}, (3, 2)
    elif name == 'thresholdmap-box3':
        # per-pixel threshold map (a ramp), translated with the scene; the padding gets a positive threshold
        thr = T.img(0.6 * S['bkg'], fill=1.0)
        kw, R = {'box_size': 3}, (1, 1)
    elif name == 'thr6-box5-centroid_1dg-error-mask':
        # error-aware centroid functions: the (non-constant) error map is translated with the scene; threshold 6
        # (7.5 noise sigma) keeps the number of Gaussian fits per call small
        thr, fit = 6.0, True
        kw, R = {'box_size': 5, 'centroid_func': centroid_1dg, 'error': T.img(S['error'], fill=1.0),
                 'mask': T.img(S['mask'])}, (2, 2)
    elif name == 'thr6-box(7,5)-centroid_2dg-error':
        thr, fit = 6.0, True
        kw, R = {'box_size': (7, 5), 'centroid_func': centroid_2dg, 'error': T.img(S['error'], fill=1.0)}, (2, 3)
    else:
        kw, R = {'box_size': 5, 'centroid_func': centroid_quadratic, 'mask': T.img(S['mask'])}, (2, 2)
    tbl = find_peaks(data, thr, **kw)
    res = table_to_res('find_peaks', tbl, True)
    if fit:
        # Gaussian fits: tolerance class 'fit' (the cutouts are identical, so the fits are; only a fit done in
        # image coordinates would differ, by its convergence tolerance)
        for c in ('x_centroid', 'y_centroid'):
            if c in res.cols:
                res.cols[c]['tol'] = 'fit'
    if res.n == 0:
        return finish_peaks(res, S, T, [], *R)
    return finish_peaks(res, S, T, [[(int(a), int(b))] for a, b in zip(res.cols['x_peak']['v'], res.cols['y_peak']['v'])],
                        *R)


# DAOStarFinder: kernel-aspect alphabet {square 5x5, wide 5x9 (theta=0), tall 9x5 (theta=90), tilted 5x7 (theta=30),
# tilted 7x5 (theta=60)} x exclude_border {False, True} is enumerated completely by the 'aspect:*' configurations; the
# image handed to DAOStarFinder / StarFinder is S['fdata'] = scene + the 24 edge stars (BORDER ALPHABET, c03_core)
DAO_ASPECTS = {'square5x5': dict(fwhm=3.0), 'wide5x9': dict(fwhm=6.5, ratio=0.4, theta=0.0),
               'tall9x5': dict(fwhm=6.5, ratio=0.4, theta=90.0), 'tilted5x7': dict(fwhm=6.5, ratio=0.4, theta=30.0),
               'tilted7x5': dict(fwhm=6.5, ratio=0.4, theta=60.0)}
DAO_CFG = ['default', 'elliptical-exclude_border-mask', 'xycoords', 'peakmax-minsep', 'thr3-open-filters-mask']
DAO_CFG += [f'aspect:{a}/exclude_border={b}' for a in DAO_ASPECTS for b in (False, True)]
DAO_CFG += ['aspect:wide5x9/exclude_border=True/minsep3-mask', 'aspect:tall9x5/exclude_border=True/minsep3-mask']


def run_dao(S, T, ci):
    from photutils.detection import DAOStarFinder
    name = DAO_CFG[ci]
    mask = None
    if name == 'default':
        f = DAOStarFinder(8.0, 3.0)
    elif name == 'elliptical-exclude_border-mask':
        f = DAOStarFinder(6.0, 3.5, ratio=0.6, theta=30.0, exclude_border=True, sharplo=0.1, roundlo=-2.0, roundhi=2.0)
        mask = T.img(S['mask'])
    elif name == 'xycoords':
        # given integer positions: the Gaussian sources, the odd segments and ALL edge stars (cutouts that reach over
        # the frame edge are measured too; the interior rule keeps those whose kernel box lies inside)
        xi, yi = T.ipos([int(p[1] + 0.5) for p in S['src']] + [int(o['xc']) for o in S['odd']]
                        + [e['ix'] for e in S['edge']],
                        [int(p[2] + 0.5) for p in S['src']] + [int(o['yc']) for o in S['odd']]
                        + [e['iy'] for e in S['edge']])
        f = DAOStarFinder(4.0, 3.0, xycoords=np.transpose([xi, yi]), sharplo=0.0, roundlo=-3.0, roundhi=3.0)
    elif name == 'thr3-open-filters-mask':
        # low threshold, sharpness / roundness cuts wide open: the odd segments (hot pixel, thin lines, blocks)
        # and noise peaks stay in the table instead of being filtered away
        f = DAOStarFinder(3.0, 2.5, sharplo=-10.0, sharphi=10.0, roundlo=-10.0, roundhi=10.0)
        mask = T.img(S['mask'])
    elif name.startswith('aspect:'):
        # cuts wide open: a round star seen through an elongated kernel must not be filtered away
        parts = name.split('/')
        kw = dict(DAO_ASPECTS[parts[0][7:]])
        if len(parts) == 3:
            kw['min_separation'] = 3.0
            mask = T.img(S['mask'])
        f = DAOStarFinder(5.0, exclude_border=(parts[1] == 'exclude_border=True'), sharplo=-10.0, sharphi=10.0,
                          roundlo=-10.0, roundhi=10.0, **kw)
    else:
        f = DAOStarFinder(6.0, 2.6, peakmax=88.0, min_separation=4.0)
    data = T.img(S['fdata'])
    tbl = f(data.copy(), mask=mask)
    res = table_to_res('DAOStarFinder', tbl, True)
    # per axis: kernel half size (cutouts, peak-search footprint = kernel mask, excluded border) or, if larger, the
    # radius int(min_separation) of the circular peak-search footprint used when min_separation > 0
    Rx, Ry = max(f.kernel.xradius, int(f.min_separation)), max(f.kernel.yradius, int(f.min_separation))
    if res.n == 0:
        return finish_peaks(res, S, T, [], Rx, Ry)
    cands = core.dao_peak_pixels(data, np.asarray(res.cols['xcentroid']['v'], float),
                                 np.asarray(res.cols['ycentroid']['v'], float),
                                 np.asarray(res.cols['peak']['v'], float), f.kernel.shape)
    return finish_peaks(res, S, T, cands, Rx, Ry)


IRAF_CFG = ['default', 'exclude_border-mask', 'thr4-open-filters', 'xycoords']


def run_iraf(S, T, ci):
    from photutils.detection import IRAFStarFinder
    mask = None
    if IRAF_CFG[ci] == 'default':
        f = IRAFStarFinder(8.0, 3.0, roundhi=1.0, sharplo=0.2, sharphi=3.0)
    elif IRAF_CFG[ci] == 'xycoords':
        # given integer positions (Gaussian sources and the odd segments), translated with the scene
        xi, yi = T.ipos([int(p[1] + 0.5) for p in S['src']] + [int(o['xc']) for o in S['odd']],
                        [int(p[2] + 0.5) for p in S['src']] + [int(o['yc']) for o in S['odd']])
        f = IRAFStarFinder(3.0, 2.8, xycoords=np.transpose([xi, yi]), sharplo=-10.0, sharphi=10.0, roundlo=-10.0,
                           roundhi=10.0)
    elif IRAF_CFG[ci] == 'thr4-open-filters':
        f = IRAFStarFinder(4.0, 2.8, minsep_fwhm=1.0, sharplo=-10.0, sharphi=10.0, roundlo=-10.0, roundhi=10.0)
    else:
        f = IRAFStarFinder(6.0, 2.5, exclude_border=True, minsep_fwhm=1.5, sharplo=0.2, sharphi=3.0, roundhi=1.0)
        mask = T.img(S['mask'])
    tbl = f(T.img(S['data']), mask=mask)
    res = table_to_res('IRAFStarFinder', tbl, True)
    hs = max(f.kernel.shape) // 2
    return finish_detected(res, S, T, 'xcentroid', 'ycentroid', 2 * hs + f.min_separation + 2)


# StarFinder: kernel shape {7x5, 5x7, 5x5} x exclude_border {False, True}
SF_CFG = ['kernel7x5', 'kernel7x5-exclude_border-mask', 'kernel5x7', 'kernel5x7-exclude_border-mask', 'kernel5x5',
          'kernel5x5-exclude_border-mask']


def run_starfinder(S, T, ci):
    from photutils.detection import StarFinder
    name = SF_CFG[ci]
    ry, rx = {'7x5': (3, 2), '5x7': (2, 3), '5x5': (2, 2)}[name[6:9]]        # kernel (ny, nx) = (2ry+1, 2rx+1)
    yy, xx = np.mgrid[-ry:ry + 1, -rx:rx + 1].astype(float)
    kernel = np.exp(-0.5 * ((xx / (0.65 * rx)) ** 2 + (yy / (0.6 * ry)) ** 2))
    mask = None
    if name.endswith('exclude_border-mask'):
        f, ms = StarFinder(4.0, kernel, min_separation=2.5, exclude_border=True), 2.5
        mask = T.img(S['mask'])
    else:
        f, ms = StarFinder(5.0, kernel, min_separation=4.0), 4.0
    data = T.img(S['fdata'])
    tbl = f(data.copy(), mask=mask)       # NB: always a fresh copy (StarFinder writes into its input, C10)
    res = table_to_res('StarFinder', tbl, True)
    # per axis: kernel half size (cutout, excluded border) or, if larger, the radius int(min_separation) of the
    # circular peak-search footprint
    Rx, Ry = max(rx, int(ms)), max(ry, int(ms))
    if res.n == 0:
        return finish_peaks(res, S, T, [], Rx, Ry)
    cands = core.starfinder_peak_pixels(data, np.asarray(res.cols['xcentroid']['v'], float),
                                        np.asarray(res.cols['ycentroid']['v'], float),
                                        np.asarray(res.cols['flux']['v'], float), kernel.shape)
    return finish_peaks(res, S, T, cands, Rx, Ry)


# ----------------------------------------------------------------------------
# detect_sources / deblend_sources : label maps equal after shifting
# ----------------------------------------------------------------------------
def segm_res(api, segm):
    res = Res(api)
    if segm is None:
        res.n = 0
        res.frames['data'] = ((None,), 'exact')
        return res
    res.n = segm.nlabels
    res.frames['data'] = ((np.asarray(segm.data),), 'exact')
    res.add('labels', np.asarray(segm.labels))
    res.add('areas', np.asarray(segm.areas))
    res.add('bbox', list(segm.bbox))
    res.add('slices', list(segm.slices))
    res.foot['all'] = np.ones(res.n, bool)
    return res


DET_CFG = ['thr3-npix5-conn8', 'thr0.8-npix2-conn4-mask', 'thrmap-npix4-conn8']


def run_detect(S, T, ci):
    from photutils.segmentation import detect_sources
    name = DET_CFG[ci]
    conv = T.img(S['conv'])
    if name == 'thr3-npix5-conn8':
        segm = detect_sources(conv, 3.0, 5, connectivity=8)
    elif name == 'thr0.8-npix2-conn4-mask':
        segm = detect_sources(conv, 0.8, 2, connectivity=4, mask=T.img(S['mask']))
    else:
        thr = T.img(1.2 + 0.5 * S['bkg'], fill=1.0)      # per-pixel threshold map, embedded with the scene
        segm = detect_sources(conv, thr, 4, connectivity=8)
    return segm_res('detect_sources', segm)


DEB_CFG = ['exp-n16-c0.001-conn8', 'linear-n8-c0.05-conn4', 'sinh-n32-c0.01-norelabel']


def run_deblend(S, T, ci):
    from photutils.segmentation import SegmentationImage, deblend_sources, detect_sources
    name = DEB_CFG[ci]
    if 'deb_in' not in S:
        segm = detect_sources(S['conv'].copy(), 3.0, 5)
        S['deb_in'] = np.asarray(segm.data).copy()
    seg = SegmentationImage(T.img(S['deb_in']))
    conv = T.img(S['conv'])
    if name == 'exp-n16-c0.001-conn8':
        out = deblend_sources(conv, seg, 5, nlevels=16, contrast=0.001, mode='exponential', progress_bar=False)
    elif name == 'linear-n8-c0.05-conn4':
        out = deblend_sources(conv, seg, 3, nlevels=8, contrast=0.05, mode='linear', connectivity=4,
                              progress_bar=False)
    else:
        out = deblend_sources(conv, seg, 4, nlevels=32, contrast=0.01, mode='sinh', relabel=False,
                              progress_bar=False)
    return segm_res('deblend_sources', out)


# ----------------------------------------------------------------------------
# make_model_image : the rendered image is equal after shifting
# ----------------------------------------------------------------------------
MODEL_CFG = ['model_shape(11,9)', 'bbox_factor3', 'variable-shape-localbkg', 'oversample3',
             'half-integer-positions(5,7)', 'half-integer-positions-even(4,6)']


def run_model_image(S, T, ci):
    from astropy.modeling.models import Gaussian2D
    from astropy.table import Table
    from photutils.datasets import make_model_image
    name = MODEL_CFG[ci]
    src = np.array(S['src'])
    half = {'model_shape(11,9)': 6.5, 'bbox_factor3': 3.0 * src[:, 3].max() + 1.5, 'variable-shape-localbkg': 8.5,
            'oversample3': 5.5, 'half-integer-positions(5,7)': 4.5, 'half-integer-positions-even(4,6)': 4.5}[name]
    if name.startswith('half-integer'):
        # positions snapped to the half-/quarter-pixel lattice (window rounding ties) with a stamp that
        # truncates the model visibly: a window that moves by one pixel under an odd offset is visible
        fx = np.array([0.5, 0.0, 0.5, 0.25, 0.5])[np.arange(len(src)) % 5]
        fy = np.array([0.0, 0.5, 0.5, 0.5, 0.75])[np.arange(len(src)) % 5]
        src = src.copy()
        src[:, 1] = np.floor(src[:, 1]) + fx
        src[:, 2] = np.floor(src[:, 2]) + fy
    # only sources whose whole stamp lies inside the original frame (footprint rule); decided in base coordinates
    keep = inside(S['shape'], src[:, 1], src[:, 2], half + 1.0)
    src = src[keep]
    x, y = T.pos(src[:, 1], src[:, 2])
    tbl = Table()
    tbl['x_mean'], tbl['y_mean'] = x, y
    tbl['amplitude'] = src[:, 0]
    tbl['x_stddev'], tbl['y_stddev'] = src[:, 3], src[:, 4]
    tbl['theta'] = src[:, 5]
    kw = {}
    if name == 'model_shape(11,9)':
        kw = {'model_shape': (11, 9)}
    elif name == 'bbox_factor3':
        kw = {'bbox_factor': 3.0}
    elif name == 'variable-shape-localbkg':
        tbl['model_shape'] = [(9 + 2 * (i % 3), 15 - 2 * (i % 3)) for i in range(len(tbl))]
        tbl['local_bkg'] = 0.5 + 0.25 * np.arange(len(tbl))
    elif name == 'half-integer-positions(5,7)':
        kw = {'model_shape': (5, 7)}
    elif name == 'half-integer-positions-even(4,6)':
        kw = {'model_shape': (4, 6)}
    else:
        kw = {'model_shape': (9, 9), 'discretize_method': 'oversample', 'discretize_oversample': 3}
    img = make_model_image(T.shape(S['shape']), Gaussian2D(), tbl, x_name='x_mean', y_name='y_mean', **kw)
    res = Res('make_model_image', n=len(tbl))
    res.frames['image'] = ((np.asarray(img),), 'rel')
    res.foot['all'] = np.ones(len(tbl), bool)
    return res


# ----------------------------------------------------------------------------
# SourceCatalog : ALL public properties + the public measurement methods
# ----------------------------------------------------------------------------
CAT_CFG = {
    'conv-err-mask-bkg/correct': dict(conv=True, error=True, mask=True, bkg=True, lw=0, am='correct',
                                      kp=(2.5, 1.4, 0.0)),
    'nonfinite-err-mask-bkg/mask/localbkg4/mincirc': dict(bad=True, error=True, mask=True, bkg=True, lw=4, am='mask',
                                                          kp=(2.5, 1.4, 3.0)),
    'plain/none/localbkg3/kron(2.0,2.0)': dict(lw=3, am='none', kp=(2.0, 2.0)),
    'detection_cat/correct/localbkg2': dict(detcat=True, error=True, mask=True, bkg=True, lw=2, am='correct',
                                            kp=(2.5, 1.4, 0.0)),
    # a SCALAR catalog (get_label) of the diagonal odd segment: the ``isscalar`` branches of the per-source code
    'scalar(diag5)/conv-err-mask-bkg/correct/localbkg3': dict(conv=True, error=True, mask=True, bkg=True, lw=3,
                                                              am='correct', kp=(2.5, 1.4, 0.0), scalar='diag5'),
}
NCAT_QUICK = len(CAT_CFG)
# thorough: the full product apermask_method x localbkg_width x kron_params x input set
for _am in ('correct', 'mask', 'none'):
    for _lw in (0, 3):
        for _kp in ((2.5, 1.4, 0.0), (1.5, 1.0, 5.0), (3.5, 2.5)):
            for _inp in ('full', 'nonfinite-noconv'):
                CAT_CFG[f'product:{_am}/localbkg{_lw}/kron{_kp}/{_inp}'] = dict(
                    conv=(_inp == 'full'), bad=(_inp != 'full'), error=True, mask=True, bkg=True, lw=_lw, am=_am,
                    kp=_kp)
CAT_NAMES = list(CAT_CFG)
CIRC_R = 4.3
KRON2 = (1.8, 1.2)
CUT_SHAPE = (9, 11)          # (ny, nx)


def run_catalog(S, T, ci):
    from photutils.segmentation import SegmentationImage, SourceCatalog
    v = CAT_CFG[CAT_NAMES[ci]]
    seg = SegmentationImage(T.img(S['seg']))
    kw = {}
    if v.get('error'):
        kw['error'] = T.img(S['error'], fill=1.0)
    if v.get('mask'):
        kw['mask'] = T.img(S['mask'])
    if v.get('bkg'):
        kw['background'] = T.ramp(S)
    kw.update(localbkg_width=v['lw'], apermask_method=v['am'], kron_params=v['kp'])
    if v.get('detcat'):
        det = SourceCatalog(T.img(S['data']), seg, convolved_data=T.img(S['conv']), mask=kw.get('mask'),
                            apermask_method=v['am'], kron_params=v['kp'])
        cat = SourceCatalog(T.img(S['data2']), seg, detection_cat=det, **kw)
    else:
        if v.get('conv'):
            kw['convolved_data'] = T.img(S['conv'])
        cat = SourceCatalog(T.img(S['data_bad'] if v.get('bad') else S['data']), seg, **kw)
    scalar = False
    if v.get('scalar'):
        cat = cat.get_label([o['label'] for o in S['odd'] if o['kind'] == v['scalar']][0])
        scalar = True
    res = Res('SourceCatalog', n=cat.nlabels)

    def rows(name, val):
        """A scalar catalog reports one source without the leading axis: put it back."""
        if not scalar or name in ('isscalar', 'nlabels', 'properties', 'extra_properties', 'labels'):
            return val
        kind = TABLES['SourceCatalog'].get(name, ('?',))[0]
        if kind in ('img', 'bbox', 'null', 'aper', 'cutoutimg', 'slices'):
            return [val]
        unit = getattr(val, 'unit', None)
        val = np.asarray(getattr(val, 'value', val))[None]
        return val if unit is None else val * unit

    for prop in list(cat.properties) + ['isscalar', 'nlabels', 'properties', 'extra_properties']:
        res.add(prop, rows(prop, getattr(cat, prop)))
    flux, fluxerr = cat.circular_photometry(CIRC_R)
    res.add('circular_photometry.flux', rows('circular_photometry.flux', flux))
    res.add('circular_photometry.fluxerr', rows('circular_photometry.fluxerr', fluxerr))
    flux, fluxerr = cat.kron_photometry(KRON2)
    res.add('kron_photometry.flux', rows('kron_photometry.flux', flux))
    res.add('kron_photometry.fluxerr', rows('kron_photometry.fluxerr', fluxerr))
    res.add('fluxfrac_radius(0.5)', rows('fluxfrac_radius(0.5)', cat.fluxfrac_radius(0.5)))
    res.add('fluxfrac_radius(0.8)', rows('fluxfrac_radius(0.8)', cat.fluxfrac_radius(0.8)))
    res.add('make_circular_apertures', rows('make_circular_apertures', cat.make_circular_apertures(3.3)))
    res.add('make_kron_apertures', rows('make_kron_apertures', cat.make_kron_apertures((3.0, 1.0))))
    res.add('make_cutouts', rows('make_cutouts', cat.make_cutouts(T.pair_yx(CUT_SHAPE), mode='partial',
                                                                  fill_value=np.nan)))

    # ---- footprints (base frame coordinates) --------------------------------
    n = res.n
    shape = S['shape']
    seg0 = S['seg']
    labels = np.asarray(res.cols['labels']['v'])
    box = []
    for lab in labels:                       # segment boxes from the INPUT label map (numpy only)
        ys, xs = np.nonzero(seg0 == lab)
        box.append((xs.min(), xs.max(), ys.min(), ys.max()))
    box = np.array(box, float)
    w, h = box[:, 1] - box[:, 0] + 1, box[:, 3] - box[:, 2] + 1
    res.foot['seg'] = np.ones(n, bool)
    if v['lw'] > 0:
        # documented local-background annulus: rectangle 1.5 x the segment box plus localbkg_width on each side
        cx, cy = (box[:, 0] + box[:, 1]) / 2, (box[:, 2] + box[:, 3]) / 2
        hx, hy = 0.75 * w + v['lw'] + 1.0, 0.75 * h + v['lw'] + 1.0
        ny, nx = shape
        res.foot['lb'] = (cx - hx >= -0.5) & (cx + hx <= nx - 0.5) & (cy - hy >= -0.5) & (cy + hy <= ny - 0.5)
    else:
        res.foot['lb'] = np.ones(n, bool)
    xc, yc = back(T, res.cols['xcentroid']['v'], res.cols['ycentroid']['v'])
    a = np.asarray(res.cols['semimajor_sigma']['v'], float)
    kr = np.asarray(res.cols['kron_radius']['v'], float)
    kp = v['kp']
    rk = np.maximum(6.0 * a, np.maximum(kp[0], 3.0) * np.maximum(kr, 1.0) * a)
    if len(kp) == 3:
        rk = np.maximum(rk, kp[2])
    with np.errstate(invalid='ignore'):
        res.foot['kron'] = inside(shape, xc, yc, rk + 1.0) & np.isfinite(rk)
        res.foot['kronlb'] = res.foot['kron'] & res.foot['lb']
        rhl = np.maximum(np.nan_to_num(np.asarray(res.cols['fluxfrac_radius(0.5)']['v'], float), nan=0.5), 0.5)
        xw, yw = back(T, res.cols['xcentroid_win']['v'], res.cols['ycentroid_win']['v'])
        rwin = 4.0 * 2.0 * rhl / 2.3548200450309493 + 2.0
        res.foot['win'] = res.foot['kronlb'] & inside(shape, xc, yc, rwin) & inside(shape, xw, yw, rwin)
        res.foot['circ'] = res.foot['lb'] & inside(shape, xc, yc, CIRC_R + 1.0)
        res.foot['cut'] = inside(shape, xc, yc, max(CUT_SHAPE) / 2.0 + 1.0)
    m = res.cols['moments']['v']
    set_mom_scales(res, m[:, 0, 0], np.maximum(w, h))
    set_round(res)
    return res


# ----------------------------------------------------------------------------
# RadialProfile / CurveOfGrowth
# ----------------------------------------------------------------------------
PROF_CFG = ['RadialProfile-exact-err-mask', 'RadialProfile-subpixel3', 'CurveOfGrowth-exact-err-mask']


def run_profiles(S, T, ci):
    from photutils.profiles import CurveOfGrowth, RadialProfile
    name = PROF_CFG[ci]
    # centres: the Gaussian sources plus the hot pixel and the negative block (a clear central extremum, so the
    # Gaussian fit of RadialProfile stays well-posed); the curve of growth, which fits nothing, is also centred on
    # the completely masked block (empty innermost apertures)
    oddk = ('pixel1', 'neg9', 'masked9') if name.startswith('CurveOfGrowth') else ('pixel1', 'neg9')
    bx = np.array([p[1] + 0.23 for p in S['src']] + [o['xc'] + 0.23 for o in S['odd'] if o['kind'] in oddk])
    by = np.array([p[2] - 0.41 for p in S['src']] + [o['yc'] - 0.41 for o in S['odd'] if o['kind'] in oddk])
    x, y = T.pos(bx, by)
    api = name.split('-')[0]
    res = Res(api, n=len(bx))
    out = {}

    def push(k, val):
        out.setdefault(k, []).append(val)

    for i in range(len(bx)):
        xycen = (float(x[i]), float(y[i]))
        data = T.img(S['data'])
        if name == 'RadialProfile-exact-err-mask':
            radii = np.array([0, 1.5, 3, 4.5, 6, 7.5, 9.0])
            p = RadialProfile(data, xycen, radii, error=T.img(S['error'], fill=1.0), mask=T.img(S['mask']))
        elif name == 'RadialProfile-subpixel3':
            radii = np.array([1.0, 2.25, 3.5, 4.75, 6.0, 7.25])
            p = RadialProfile(data, xycen, radii, method='subpixel', subpixels=3)
        else:
            radii = np.arange(1, 10, dtype=float)
            p = CurveOfGrowth(data, xycen, radii, error=T.img(S['error'], fill=1.0), mask=T.img(S['mask']))
        push('xycen', np.array(p.xycen, float))
        for k in ('radii', 'radius', 'profile', 'profile_error', 'area'):
            push(k, np.asarray(getattr(p, k), float))
        push('apertures', p.apertures)
        if api == 'RadialProfile':
            g = p.gaussian_fit
            push('gaussian_fit.amplitude', float(g.amplitude.value))
            push('gaussian_fit.mean', float(g.mean.value))
            push('gaussian_fit.stddev', float(g.stddev.value))
            push('gaussian_profile', np.asarray(p.gaussian_profile, float))
            push('gaussian_fwhm', float(p.gaussian_fwhm))
            push('data_radius', np.asarray(p.data_radius, float))
            push('data_profile', np.asarray(p.data_profile, float))
        else:
            p.normalize(method='max')
            push('normalized.profile', np.asarray(p.profile, float))
            push('calc_ee_at_radius', np.asarray(p.calc_ee_at_radius(np.array([2.2, 4.4])), float))
            try:
                push('calc_radius_at_ee', np.asarray(p.calc_radius_at_ee(np.array([0.3, 0.6])), float))
            except ValueError:
                # documented: raised when the curve of growth is not monotonic (the negative block); recorded
                # as NaN so that both runs must agree on it
                push('calc_radius_at_ee', np.full(2, np.nan))
    rmax = {'RadialProfile-exact-err-mask': 9.0, 'RadialProfile-subpixel3': 7.25}.get(name, 9.0)
    for k, vals in out.items():
        if k == 'apertures':
            # one list of annuli per source: flatten to per-ring sub-columns
            for j in range(len(vals[0])):
                res.add_apertures(f'apertures[{j}]', [r[j] for r in vals], 'rel', 'prof')
            continue
        if k in ('data_radius', 'data_profile'):
            res.add(k, vals)
        else:
            res.add(k, np.array(vals))
    res.foot['prof'] = inside(S['shape'], bx, by, rmax + 1.0)
    return res


# ----------------------------------------------------------------------------
# centroid functions: transposition (the property names them) and translation of centroid_sources
# (it is the centroid step of find_peaks, which hands it the peak positions, data, mask and error)
# ----------------------------------------------------------------------------
CEN_CFG = ['cutouts+centroid_sources']
CEN_FOOT = np.array([[0, 1, 1, 1, 1, 1, 0], [1, 1, 1, 1, 1, 1, 1], [1, 1, 1, 1, 1, 1, 1], [1, 1, 1, 1, 1, 1, 1],
                     [1, 1, 1, 1, 1, 0, 0]], bool)          # (ny=5, nx=7), asymmetric


def run_centroids(S, T, ci):
    from photutils.centroids import (centroid_1dg, centroid_2dg, centroid_com, centroid_quadratic,
                                     centroid_sources)
    res = Res('centroids', n=len(S['src']))
    data = T.img(S['data'])
    err = T.img(S['error'], fill=1.0)
    mask = T.img(S['mask'])
    out = {}
    h0, h1 = T.pair_yx((6, 7))                    # cutout half sizes (ny=13, nx=15) in the base frame
    xs, ys, pks = [], [], []
    for p in S['src']:
        ix, iy = int(p[1] + 0.5), int(p[2] + 0.5)
        if not inside(S['shape'], ix, iy, 8.0):
            continue
        xs.append(ix)
        ys.append(iy)
        tx, ty = (int(v) for v in T.ipos(ix, iy))
        sl = (slice(ty - h0, ty + h0 + 1), slice(tx - h1, tx + h1 + 1))
        cut, ce, cm = data[sl].copy(), err[sl].copy(), mask[sl].copy()
        out.setdefault('centroid_com', []).append(centroid_com(cut, mask=cm))
        out.setdefault('centroid_quadratic', []).append(centroid_quadratic(cut, mask=cm))
        pk = np.unravel_index(np.argmax(np.where(cm, -np.inf, cut)), cut.shape)
        pks.append((int(pk[1]) + sl[1].start, int(pk[0]) + sl[0].start))       # in the transformed frame
        out.setdefault('centroid_quadratic(peak,box)', []).append(
            centroid_quadratic(cut, xpeak=int(pk[1]), ypeak=int(pk[0]), fit_boxsize=T.pair_yx((5, 3)),
                               search_boxsize=T.pair_yx((3, 5)), mask=cm))
        out.setdefault('centroid_1dg', []).append(centroid_1dg(cut, error=ce, mask=cm))
        out.setdefault('centroid_2dg', []).append(centroid_2dg(cut, error=ce, mask=cm))
    res.n = len(xs)
    for k, vals in out.items():
        res.add(k, np.array(vals, float))
    px, py = T.pos(np.array(xs) + 0.3, np.array(ys) - 0.4)
    foot = np.ascontiguousarray(CEN_FOOT.T) if T.kind == 'T' else CEN_FOOT
    for tag, func, kw in (('com', centroid_com, {}), ('quadratic', centroid_quadratic, {'fit_boxsize': 3}),
                          ('2dg', centroid_2dg, {}),
                          # error-aware centroid functions with the non-constant error map of the scene
                          ('1dg,error', centroid_1dg, {'error': err}), ('2dg,error', centroid_2dg, {'error': err}),
                          ('com,footprint', centroid_com, {'footprint': foot})):
        kw = dict(kw)
        if 'footprint' not in kw:
            kw['box_size'] = T.pair_yx((9, 7))
        cx, cy = centroid_sources(data.copy(), px, py, mask=mask.copy(), centroid_func=func, **kw)
        res.add(f'centroid_sources({tag}).x', np.asarray(cx, float))
        res.add(f'centroid_sources({tag}).y', np.asarray(cy, float))
        if '2dg' in tag:
            for c in 'xy':
                res.cols[f'centroid_sources({tag}).{c}']['extra']['tol_shift'] = 'fit'
    # xpeak / ypeak are image coordinates that centroid_sources re-bases to the cutout: one call per source
    cxs, cys = [], []
    for i in range(res.n):
        cx, cy = centroid_sources(data.copy(), px[i], py[i], box_size=T.pair_yx((9, 7)), mask=mask.copy(),
                                  centroid_func=centroid_quadratic, xpeak=pks[i][0], ypeak=pks[i][1],
                                  fit_boxsize=T.pair_yx((5, 3)))
        cxs.append(float(cx[0]))
        cys.append(float(cy[0]))
    res.add('centroid_sources(quadratic,xypeak).x', np.array(cxs, float))
    res.add('centroid_sources(quadratic,xypeak).y', np.array(cys, float))
    res.foot['all'] = np.ones(res.n, bool)
    return res


# ----------------------------------------------------------------------------
# plan / run
# ----------------------------------------------------------------------------
#         name                  runner           configs           transposition
APIS = {
    'aperture_photometry': (run_aperphot, APHOT_CFG, True),
    'ApertureStats': (run_aperstats, ASTAT_NAMES, True),
    'find_peaks': (run_find_peaks, FP_CFG, False),
    'DAOStarFinder': (run_dao, DAO_CFG, False),
    'IRAFStarFinder': (run_iraf, IRAF_CFG, False),
    'StarFinder': (run_starfinder, SF_CFG, False),
    'detect_sources': (run_detect, DET_CFG, False),
    'deblend_sources': (run_deblend, DEB_CFG, False),
    'SourceCatalog': (run_catalog, CAT_NAMES, True),
    'profiles': (run_profiles, PROF_CFG, True),
    'make_model_image': (run_model_image, MODEL_CFG, False),
    'centroids': (run_centroids, CEN_CFG, True),
}


def ncfg(api, tier):
    if tier == 'quick' and api == 'SourceCatalog':
        return NCAT_QUICK
    if tier == 'quick' and api == 'ApertureStats':
        return NASTAT_QUICK
    return len(APIS[api][1])


def transforms(tier, transpose):
    out = []
    if transpose != 'only':
        for (px, py) in PADS[tier]:
            for dx in (OFFX if tier == 'quick' else OFFX_EXTRA):
                for dy in (OFFY if tier == 'quick' else OFFY_EXTRA):
                    out.append(Shift(dx, dy, px, py))
    if transpose:
        out.append(Transpose())
    return out


def plan(tier, seed):
    units = []
    for api, (_, cfgs, _) in APIS.items():
        for k in range(NSCENES[tier]):
            if api == 'SourceCatalog':
                for ci in range(ncfg(api, tier)):
                    units.append({'scene': k, 'api': api, 'cfgs': [ci]})
            elif tier == 'thorough':
                for ci in range(ncfg(api, tier)):
                    units.append({'scene': k, 'api': api, 'cfgs': [ci]})
            else:
                units.append({'scene': k, 'api': api, 'cfgs': list(range(ncfg(api, tier)))})
    # heavy units first so that the pool finishes evenly
    units.sort(key=lambda u: 0 if u['api'] == 'SourceCatalog' else 1)
    return units


def call(api, S, T, ci):
    """Run one API configuration; an exception of photutils becomes part of the result."""
    run = APIS[api][0]
    try:
        with warnings.catch_warnings():
            warnings.simplefilter('ignore')
            return run(S, T, ci)
    except Exception as e:      # noqa: BLE001  (decided by the caller)
        import traceback
        tb = traceback.extract_tb(e.__traceback__)
        inner = [f for f in tb if 'photutils' in f.filename]
        if not inner:
            raise               # a bug of the harness itself: HARNESS-ERROR, never a verdict
        res = Res(api)
        res.error = f'{type(e).__name__}: {str(e)[:120]} @ {os.path.basename(inner[-1].filename)}:{inner[-1].name}'
        return res


def check_case(acc, S, api, ci, T, base=None, sample=False):
    cfgname = APIS[api][1][ci]
    case = {'scene': S['k'], 'api': api, 'cfg': ci, 'cfg_name': str(cfgname), 'T': T.case()}
    if base is None:
        base = call(api, S, Identity(), ci)
    new = call(api, S, T, ci)
    import collections
    stats = collections.Counter()
    nviol = [0]

    def viol(clause, site, obs, exp, detail=''):
        nviol[0] += 1
        acc.violation(clause, site, case, obs, exp, detail)

    if base.error is not None:
        # valid documented inputs: the call must not raise (otherwise the relation would be vacuous)
        viol('raises', f'{base.api}:{base.error.split(":")[0]}', base.error, 'no exception', 'base inputs')
    for name in base.unknown:
        note = f'unclassified output {base.api}.{name}: not covered by the C03 tables (add it to mcphot/ref/c03_tables.py)'
        if note not in acc.notes:
            acc.notes.append(note)
    compare(acc, case, base, new, T, viol, stats)
    identity = (T.kind == 'shift' and (T.dx, T.dy, T.px, T.py) == (0, 0, 0, 0))
    compared = stats['values_compared'] + stats['frames_compared']
    acc.case(nontrivial=(not identity) and compared > 0, sample=case if sample else None)
    acc.counters.update(stats)
    acc.counters[f'cases:{api}'] += 1
    if not identity and getattr(base, 'band', None) is not None:
        # rows compared although they are closer to an edge than the LARGER kernel / border half size (possible only
        # with the per-axis rule), and rows whose detection pixel could not be recovered
        acc.counters[f'rows_compared_in_anisotropic_border_band:{api}'] += base.band
        acc.counters[f'rows_without_recovered_detection_pixel:{api}'] += base.lost + getattr(new, 'lost', 0)
    if compared == 0 and base.error is None:
        acc.counters['cases_with_nothing_compared'] += 1
    acc.outcome((api, ci, S['k'], base.n, tuple(sorted(base.cols))[:3], compared))
    return base


def run_unit(unit, tier, seed):
    acc = Acc()
    S = make_scene(unit['scene'], seed)
    api = unit['api']
    for ci in unit['cfgs']:
        base = None
        for i, T in enumerate(transforms(tier, APIS[api][2])):
            base = check_case(acc, S, api, ci, T, base=base, sample=(i == 6 and unit['scene'] == ci % 4))
    return acc


def replay(case, seed):
    acc = Acc()
    S = make_scene(case['scene'], seed)
    check_case(acc, S, case['api'], case['cfg'], transform_from_case(case['T']))
    return acc


def describe(tier, seed):
    return {'alphabet': {
        'scenes': [{'shape': list(s['shape']), 'sources': len(s['src']),
                    'odd_segments': [f'{o[0]}@({o[1]},{o[2]}){o[3]}' for o in s['odd']]}
                   for s in core.SCENE_SPECS[:NSCENES[tier]]],
        'odd_segment_patterns': {k: v.tolist() for k, v in core.ODD_PATTERNS.items()},
        'auxiliary_arrays': {'error': 'non-constant (source term + noise) x sensitivity 1+0.9x/nx+0.5(y/ny)^2, pad 1.0',
                             'mask': '3 bad pixels in sources + 1 background pixel + the 3x3 masked block, pad False',
                             'background': 'ramp a*x+b*y+c (a != b), continued into the padding',
                             'threshold map': 'multiple of the ramp, pad 1.0', 'convolved_data': '3x3 binomial, pad 0'},
        'edge_stars(finder image)': {'edges': list(core.EDGE_NAMES), 'distance_of_brightest_pixel_from_edge': list(core.EDGE_D),
                                     'per_scene': len(core.EDGE_NAMES) * len(core.EDGE_D),
                                     'profile': 'round Gaussian sigma 1.15, amplitude 45, sub-pixel fraction |f| <= 0.3'},
        'DAOStarFinder_kernel_aspects': {k: str(v) for k, v in DAO_ASPECTS.items()},
        'interior_rule': 'find_peaks/DAOStarFinder/StarFinder: per-axis box (Rx,Ry) around the integer detection pixel '
                         'inside the original frame, no margin; IRAFStarFinder: isotropic 2*r+min_separation+2 on the centroid',
        'dx': list(OFFX if tier == 'quick' else OFFX_EXTRA), 'dy': list(OFFY if tier == 'quick' else OFFY_EXTRA),
        'pads(px,py)': [list(p) for p in PADS[tier]],
        'transforms_per_configuration': len(transforms(tier, False)),
        'transposition': [a for a, v in APIS.items() if v[2]],
        'api_configurations': {a: [str(c) for c in v[1]][:ncfg(a, tier)] for a, v in APIS.items()},
        'classified_columns': {a: len(t) for a, t in TABLES.items()}},
        'bound': 'full product scene x (dx,dy) x pad x API configuration (+ transposition); nothing sampled'}
