"""C02 -- aperture sums are mask-weighted sums over unmasked in-image pixels.

Shape (C): full Cartesian product
    image shape x aperture (6 classes x sizes, some rotated; annuli both with a hole smaller than a pixel and with a hole
    that fully contains image pixels -- for EllipticalAnnulus + 'exact' those pixels carry rounding-residue weights of
    either sign, about -2e-16 ... +2e-16, instead of 0) x method x
    64 positions (inside / straddling every edge / outside) x
    mask (None, EVERY single-pixel mask, row, column, all-but-one, all; 3x3: ALL 512 masks) x
    data variant (finite, one NaN, +inf/-inf) x error (None, generic finite; on the call-form sub-product of masks also
    a map with NaN / +inf / -inf at three fixed pixels -- summed by some positions, masked / zero-weight for others --
    and, in the blindness relations, 1e30 resp. NaN / +inf / -inf (data and error, cycled) at EVERY masked resp.
    not-summed pixel -- not summed = masked, outside the aperture, weight 0 or weight < 0 (rounding residue))
and, as a separate axis on a stated sub-product (finite values), the STORAGE REPRESENTATION of image and error map:
    dtype / byte order (float32, float16, big-endian float64, int16, uint8, int64, bool; thorough: 9 more) and, for
    float64, memory layout / container (Fortran order, strided view of a larger buffer, nested Python list) x value
    variant (generic; +B/-B at two adjacent central pixels: cancels in exact arithmetic, not in a narrow accumulator;
    +P/+P with 2P beyond the range of the dtype) -- the oracle is the same direct loop in float64 arithmetic on the
    stored values: the storage dtype says which real numbers the pixels hold, not how they are to be added,
executed through ``PixelAperture.do_photometry`` / ``area_overlap`` and, on a
stated sub-product, through every other call form (scalar aperture one at a
time, ``aperture_photometry`` single / list of two apertures / NDData /
Quantity / Sky aperture + TAN WCS, ``ApertureMask.get_values`` / ``multiply``).

Oracle: a direct Python loop over the *image pixels*.  The weight of image
pixel (iy, ix) is the aperture's own ``to_mask()`` value at
(iy - bbox.iymin, ix - bbox.ixmin) -- registration is done here, by the
harness (C01 vouches for the weights themselves) -- and the expected values
are  sum(w*d), sqrt(sum(w*e^2)), sum(w)  over the pixels that are inside the
image, have w > 0 and are not masked; NaN iff the box contains no image pixel.
Metamorphic relations (bit-exact unless stated): many positions == one at a
time; list of apertures == separately; linear in data (rtol 1e-12); blind to
the values stored in masked / non-positive-weight pixels (do_photometry, get_values, aperture_photometry); sky == to_pixel(wcs);
NDData / Quantity == bare arrays (+ units carried); table centres == positions;
history: an aperture object that was used with other parameters / positions and
then had every public parameter assigned one at a time (both orders, used after
every assignment) == a fresh aperture with the same current parameters, after
every single assignment (the weights w are those of the aperture as it is now).
"""
import math

import numpy as np

from ..ref import aperture_ref as R
from ..runner import Acc

# storage representations of image / error map ('dtype' or 'dtype:layout'), see run_reprs
REPRS_QUICK = ['<f4', '<f2', '>f8', '<i2', 'u1', '<i8', 'bool', '<f8:F', '<f8:strided', '<f8:list']
REPRS_MORE = ['>f4', '>f2', 'i1', '>i2', '<u2', '<i4', '<u4', '>i8', '<u8', '<f4:strided', '<i2:F']

PROPERTY = 'C02'
LEVEL = 'exploration'
RULE = ('full Cartesian product of image shape x aperture spec x method x position list (8x8 axis alphabet) x mask '
        'alphabet x data variant x error form, every case executed on the real code; one evaluation = one '
        '(configuration, position) comparison with the direct pixel loop (metamorphic call-form relations are counted '
        'per position as well; on the call-form sub-product of masks the error axis has a third element, a map with '
        'NaN/+inf/-inf at three fixed pixels, judged by the same direct loop; the blindness relations overwrite every masked pixel '
        '(list call) resp. every pixel outside the summed set of one position (masked, outside the aperture, weight 0, or NEGATIVE '
        'rounding-residue weight as in the hole of an exact EllipticalAnnulus; scalar aperture) with 1e30 resp. with +inf/-inf/NaN '
        '(data) and NaN/+inf/-inf (error) cycled by pixel index, through do_photometry and ApertureMask.get_values on every '
        '(call-form mask, data variant) and through aperture_photometry on (finite data, no mask, non-finite fill) (thorough: on all); '
        'aperture_photometry == do_photometry also for data variant nan x non-finite error map without mask (thorough: every '
        'non-finite (data variant, error map) pair x every call-form mask); and on finite data x masks {None, centre pixel} '
        '(thorough: all three) the re-assignment history relation: same class 1.5x larger, rotated by 0.9 rad, at the reversed '
        'position list, used, then every parameter of the unit\'s aperture assigned one at a time in both orders '
        '(parameters then positions / positions then parameters), compared after every assignment with a fresh aperture); storage-representation axis (finite values; run_reprs / repr_product): image and error held as ' + ', '.join(REPRS_QUICK) + ' (thorough: + ' + ', '.join(REPRS_MORE) + ') x value variants {generic, cancel (+B/-B at the centre pixel and its raster successor; signed dtypes), pile (+P/+P there, 2P beyond the dtype range; not for float64 forms)} x every unit (shape x aperture x method) x 64 positions, do_photometry judged by the direct loop in float64 on the stored values (same RTOL), on the first bright variant also with the centre pixel masked and through ApertureMask.get_values / multiply (bit-exact w * float64(value), float64 result) and aperture_photometry == do_photometry (thorough: every variant x the three call-form masks x every form, plus (representation, float64 error) and (float64 image, error representation) pairs without mask); how many narrow-float cases would differ beyond tolerance under an accumulation in the image dtype is measured (coverage.counters repr_*); a case is non-trivial when at least one unmasked in-image pixel has positive aperture '
        'weight (measured from the registered weights); how many (unit, position) pairs have an in-image pixel with a negative / '
        'tiny positive rounding-residue weight is measured and reported in coverage.counters (residue weights are not assumed to '
        'occur: they are whatever to_mask() returns); cases are distinct by construction (distinct product indices)')
ASSUMPTIONS = ['the per-pixel weights returned by Aperture.to_mask() and its bbox are correct (decided by C01); this check '
               'owns where they land in the image and which pixels are summed',
               'images are at most 5x5 (6x6 thorough): registration errors that need a larger frame are out of the bound',
               'a pixel is summed iff its to_mask() weight is > 0 (the property\'s wording): a hole pixel whose computed weight is a '
               'POSITIVE rounding residue (+1e-16) is therefore part of the sum for the oracle and the implementation alike (whether that '
               'weight should be 0 is C01\'s question); one whose weight is a negative residue is not',
               'non-finite values in excluded pixels: NaN, +inf, -inf and the finite 1e30; other huge values are not exercised',
               'sky apertures are exercised with one distortion-free TAN WCS only',
               'storage representations: the listed dtypes / byte orders / layouts with finite values; error map in the same '
               'representation as the image (thorough: also against float64); NaN/inf in narrow float images, float128 / complex / '
               'object dtypes, MaskedArray images and narrow dtypes inside Quantity / NDData (C15 owns those forms) are not exercised; '
               'integer magnitudes are capped at 2^62 (signed) / 2^63 (unsigned) so that the stored value is exact in float64',
               'masks are boolean arrays (the quantifier of the property); list / integer masks are not exercised',
               'histories of an aperture object: one used state followed by single assignments of every public parameter '
               '(float values; theta as float radians); the representation of theta and longer histories belong to C01 / C09']

METHODS = [('exact', 5), ('center', 5), ('subpixel', 5), ('subpixel', 2), ('exact', 1)]  # subpixels must be honoured for 'subpixel' and ignored for 'exact'
VARIANTS = ['finite', 'nan', 'inf']

# Tolerances.  A sum of n <= 36 products accumulated in double precision in two
# different orders differs by at most ~ n*eps*sum|terms| = 36*1.1e-16 = 4e-15
# relative to sum|w*d|; RTOL is that with a x25 margin (the unchanged tree
# agrees to 0 or 1 ulp).  Weights of annuli (outer - inner) can be -1e-17:
# area_overlap sums them, the property's pixel set (w > 0) does not -> ATOL_AREA.
RTOL = 1e-13
ATOL_AREA = 1e-13
RESIDUE = 1e-12      # a positive weight below this is a rounding residue (a genuine sliver of overlap that small does not
                     # occur for the alphabet; only used to LABEL cases in counters / outcomes, never by the oracle)


def shapes(tier):
    s = [(1, 1), (1, 4), (3, 3), (4, 5), (5, 4)]
    if tier == 'thorough':
        s += [(4, 1), (2, 7), (6, 6)]
    return s


def aper_specs(tier):
    s = [['circle', 0.4], ['circle', 1.2], ['circle', 2.5],
         ['cann', 0.4, 1.2], ['cann', 1.2, 2.5],
         ['ellipse', 1.2, 0.4, 0.0], ['ellipse', 2.5, 1.2, 0.6],
         ['eann', 0.4, 1.2, 0.8, 0.0], ['eann', 1.2, 2.5, 1.2, 0.6],
         ['rect', 0.8, 0.4, 0.0], ['rect', 2.4, 1.2, 0.0], ['rect', 5.0, 2.4, 0.6],
         ['rann', 1.2, 2.4, 1.6, 0.0], ['rann', 2.4, 5.0, 3.0, 0.6],
         # annuli whose HOLE fully contains image pixels: with method 'exact' the weight of such a pixel is
         # outer overlap - inner overlap = (1 +- eps) - (1 +- eps), a rounding residue of either sign (about -2e-16 ... +2e-16)
         # instead of 0 for the elliptical annulus (measured: counters residue_*); the property sums w > 0 only
         ['eann', 1.6, 2.5, 1.8, 0.0], ['eann', 2.0, 3.0, 2.2, 0.6]]
    if tier == 'thorough':
        s += [['eann', 1.6, 2.4, 2.0, 1.1], ['eann', 2.5, 4.0, 3.2, 2.5], ['cann', 1.6, 2.5], ['rann', 3.0, 5.0, 4.0, 0.0],
              ['rann', 3.0, 5.0, 4.0, 0.6]]
        s += [['circle', 0.03], ['circle', 0.5], ['circle', 4.0], ['cann', 2.5, 4.0],
              ['ellipse', 0.4, 0.1, 1.0], ['ellipse', 4.0, 0.4, 2.5], ['ellipse', 2.5, 2.5, -0.3],
              ['eann', 2.0, 4.0, 1.0, 2.5], ['rect', 1.0, 1.0, 0.0], ['rect', 2.0, 3.0, math.pi / 2],
              ['rect', 8.0, 0.4, 0.785], ['rann', 0.4, 1.2, 0.8, 1.0], ['rann', 3.0, 8.0, 0.5, 2.5]]
    return s


def axis_alphabet(n, g):
    vals = [-3.0, -0.5, 0.0, 0.3, (n - 1) / 2.0 + g, float(n - 1), n - 0.5, n + 3.0]
    out = []
    for v in vals:
        if v not in out:
            out.append(v)
    return out


def positions(shape, seed):
    ny, nx = shape
    g = float(np.random.default_rng(1000 + seed).uniform(0.05, 0.45))
    xs, ys = axis_alphabet(nx, g), axis_alphabet(ny, g / 2 + 0.11)
    # simplest first: interior positions before straddling / outside ones
    order = lambda lst, n: sorted(lst, key=lambda v: (not (0 <= v <= n - 1), abs(v - (n - 1) / 2.0)))
    return [(x, y) for y in order(ys, ny) for x in order(xs, nx)]


def mask_alphabet(shape, tier, full):
    """Bitmasks (bit iy*nx+ix), simplest first.  ``full``: all 2^(ny*nx) masks (3x3)."""
    ny, nx = shape
    n = ny * nx
    if full and n <= 9:
        return [None] + sorted(range(1, 2 ** n), key=lambda b: (bin(b).count('1'), b))
    out = [None] + [1 << k for k in range(n)]
    row = sum(1 << ((ny // 2) * nx + ix) for ix in range(nx))
    col = sum(1 << (iy * nx + nx // 2) for iy in range(ny))
    allm = 2 ** n - 1
    keep = nx - 1          # all but pixel (0, nx-1)
    for b in (row, col, allm & ~(1 << keep), allm):
        if b and b not in out:
            out.append(b)
    return out


def images(shape, seed):
    """-> dict of nested-list/ndarray images: generic reals from the seed."""
    rng = np.random.default_rng(seed * 7919 + shape[0] * 31 + shape[1])
    ny, nx = shape
    d = rng.normal(3.0, 10.0, size=shape)
    d2 = rng.normal(-1.0, 5.0, size=shape)
    e = rng.uniform(0.5, 1.5, size=shape)
    dn = d.copy()
    dn[ny // 2, nx // 2] = np.nan
    di = d.copy()
    di[0, 0] = np.inf
    di[ny - 1, nx - 1] = -np.inf if (ny * nx > 1) else np.inf
    # error map with non-finite values at three fixed pixels (centre, first, last): whether such a pixel is summed
    # (-> sum_err NaN resp. inf, what the quadrature sum gives) or excluded (-> no influence) depends on position and mask
    enf = e.copy()
    enf[ny // 2, nx // 2] = np.nan
    if ny * nx > 1:
        enf[0, 0] = np.inf
        enf[ny - 1, nx - 1] = -np.inf
    return {'finite': d, 'nan': dn, 'inf': di, 'second': d2, 'err': e, 'errnf': enf}


_FILL_CACHE = {}


def error_fill(shape, fill):
    key = (tuple(shape), repr(fill))
    if key not in _FILL_CACHE:
        _FILL_CACHE[key] = _error_fill(shape, fill)
    return _FILL_CACHE[key]          # read-only use (indexed / copied by the callers)


def _error_fill(shape, fill, shift=0):
    """Error values written into excluded pixels by the blindness relations: the data fill value, except that for the
    NaN fill the error cycles through NaN, +inf, -inf by pixel index (0 * NaN and 0 * inf are both NaN)."""
    ny, nx = shape
    if fill == fill:
        return np.full(shape, fill)
    cyc = [np.nan, np.inf, -np.inf]
    return np.array([[cyc[(iy * nx + ix + shift) % 3] for ix in range(nx)] for iy in range(ny)])


def data_fill(shape, fill):
    """Data values written into excluded pixels by the blindness relations: the huge finite fill as it is; the
    non-finite fill cycles through +inf, -inf, NaN by pixel index (one step ahead of the error cycle, so that every
    (data, error) pairing of two different non-finite values occurs): w * NaN and w * (+-inf) are all non-finite for
    every w, including w == 0 and w == -2e-16, so any excluded pixel that reaches a sum shows."""
    key = (tuple(shape), repr(fill), 'data')
    if key not in _FILL_CACHE:
        _FILL_CACHE[key] = _error_fill(shape, fill, shift=1)
    return _FILL_CACHE[key]


# call form -> the block of the check that executes it (used by replay to re-run exactly that block)
GROUP = {'do_photometry': 'main', 'area_overlap': 'main', 'list-call': 'forms', 'scalar': 'scalar', 'scalar-area': 'scalar',
         'get_values': 'mask-methods', 'multiply': 'mask-methods', 'mask-methods': 'mask-methods', 'blind': 'blind',
         'linear': 'linear', 'table': 'table', 'aperture_photometry': 'table', 'aperture-list': 'table', 'nddata': 'table',
         'nddata-unit': 'table', 'quantity': 'table', 'sky': 'table', 'error-nonfinite': 'error-nonfinite',
         'reassign': 'reassign', 'repr': 'repr'}


class Ctx:
    """Everything that depends on (shape, aperture spec, method) only."""

    def __init__(self, shape, spec, method, seed):
        self.shape, self.spec, self.method, self.seed = tuple(shape), spec, method, seed
        self.ny, self.nx = self.shape
        self.pos = positions(self.shape, seed)
        self.aper = R.make_aperture(spec, self.pos)
        m, sub = method
        self.kw = {'method': m, 'subpixels': sub}
        self.masks = self.aper.to_mask(**self.kw)
        self.reg = [R.register(mk, self.shape) for mk in self.masks]
        self.cls = [R.posclass(box, self.shape) for box, _ in self.reg]
        # computed weights that are rounding residues (annulus hole: outer - inner overlap of a fully covered pixel):
        # 'neg' = some in-image pixel has w < 0, 'pos' = some has 0 < w < RESIDUE; such a pixel is OUTSIDE the summed
        # set when w < 0 (the property: positive weight) and inside it when w > 0 (C01 owns the value of w)
        self.residue = [None if wl is None else
                        ('neg' if any(w < 0 for _, _, w in wl) else 'pos' if any(0 < w < RESIDUE for _, _, w in wl) else None)
                        for _, wl in self.reg]
        self.img = images(self.shape, seed)
        self.lst = {k: v.tolist() for k, v in self.img.items()}

    def case(self, k, bits, variant, with_err, form):
        return {'shape': list(self.shape), 'aper': self.spec, 'method': list(self.method), 'pos_index': k,
                'position': list(self.pos[k]), 'mask_bits': bits, 'variant': variant, 'error': bool(with_err),
                'form': form, 'group': GROUP.get(form, form)}

    def site(self, form, k, bits, variant):
        c = self.cls[k]
        c = 'cut' if c.startswith('cut') else c
        return (f'{form}:{c}' + (':mask' if bits else '') + (':nonfinite' if variant != 'finite' else '')
                + (':negative-weight-pixel' if self.residue[k] == 'neg' else ''))

    def summed_values(self, k, bits, variant):
        """w * data over the summed pixels of position k (in-image, w > 0, not masked), image raster order"""
        wl = self.reg[k][1]
        return [] if wl is None else [w * self.lst[variant][iy][ix] for iy, ix, w in wl
                                      if w > 0 and not ((bits or 0) >> (iy * self.nx + ix)) & 1]


def expected(ctx, k, bits, variant, with_err, errkey='err'):
    return R.ref_sums(ctx.reg[k][1], ctx.lst[variant], ctx.lst[errkey] if with_err else None, bits or 0, ctx.nx)


def compare_sums(acc, ctx, bits, variant, with_err, form, sums, errs, only=None, errkey='err'):
    """Compare arrays of per-position results with the direct pixel loop."""
    npos = len(ctx.pos)
    if np.shape(sums) != (npos,) or (with_err and np.shape(errs) != (npos,)):
        acc.violation('result-shape', form, ctx.case(0, bits, variant, with_err, form),
                      [np.shape(sums), np.shape(errs)], (npos,))
        return
    for k in (range(npos) if only is None else only):
        s, e, a, sabs, n = expected(ctx, k, bits, variant, with_err, errkey)
        acc.evaluations += 1
        if n:
            acc.nontrivial += 1
        if not R.same(sums[k], s, RTOL * sabs + 1e-300):
            clause = 'nan-iff-box-misses-image' if (s != s) != (float(sums[k]) != float(sums[k])) and variant == 'finite' \
                else 'sum'
            acc.violation(clause, ctx.site(form, k, bits, variant), ctx.case(k, bits, variant, with_err, form),
                          float(sums[k]), s, f'direct sum over {n} pixels; class {ctx.cls[k]}')
        if with_err and not R.same(errs[k], e, RTOL * (e if e == e and e != math.inf else 0.0) + 1e-300):
            acc.violation('sum_err', ctx.site(form, k, bits, variant), ctx.case(k, bits, variant, with_err, form),
                          float(errs[k]), e, f'direct quadrature sum over {n} pixels; class {ctx.cls[k]}')


def compare_area(acc, ctx, bits, form, areas, only=None):
    npos = len(ctx.pos)
    if np.shape(areas) != (npos,):
        acc.violation('result-shape', form, ctx.case(0, bits, 'finite', False, form), np.shape(areas), (npos,))
        return
    for k in (range(npos) if only is None else only):
        s, e, a, sabs, n = expected(ctx, k, bits, 'finite', False)
        acc.evaluations += 1
        if n:
            acc.nontrivial += 1
        if not R.same(areas[k], a, RTOL * (a if a == a else 0) + ATOL_AREA):
            acc.violation('area_overlap', ctx.site(form, k, bits, 'finite'), ctx.case(k, bits, 'finite', True, form),
                          float(areas[k]), a, f'direct sum of weights over {n} pixels; class {ctx.cls[k]}')


def call(acc, ctx, bits, variant, with_err, form, fn):
    """Run fn(); a photutils exception is a violation (the property gives a value for every input)."""
    try:
        return fn()
    except Exception as exc:  # noqa: BLE001
        acc.violation('raises', f'{form}:{type(exc).__name__}', ctx.case(0, bits, variant, with_err, form), repr(exc),
                      'a result for every position')
        return None


def bitsame(a, b):
    a, b = np.asarray(a, dtype=float), np.asarray(b, dtype=float)
    return a.shape == b.shape and np.array_equal(a, b, equal_nan=True)


# ---------------------------------------------------------------------------
# the main product: do_photometry / area_overlap with the whole position list
# ---------------------------------------------------------------------------
def run_main(acc, ctx, tier, only_case=None):
    full = ctx.shape == (3, 3)
    for variant in VARIANTS:
        for with_err in (True, False):
            # 3x3: all 512 masks.  quick runs the complete 512 on (finite data, error given) and the
            # standard alphabet on the other five (variant, error) combinations; thorough runs 512 on all.
            use_full = full and (tier == 'thorough' or (variant == 'finite' and with_err))
            for bits in mask_alphabet(ctx.shape, tier, use_full):
                if only_case and (only_case['variant'], only_case['error'], only_case['mask_bits']) != (variant, with_err, bits):
                    continue
                data = ctx.img[variant]
                err = ctx.img['err'] if with_err else None
                mask = R.bits_to_mask(bits, ctx.shape)
                d0, m0 = data.copy(), (None if mask is None else mask.copy())
                res = call(acc, ctx, bits, variant, with_err, 'do_photometry',
                           lambda: ctx.aper.do_photometry(data, error=err, mask=mask, **ctx.kw))
                if res is None:
                    continue
                compare_sums(acc, ctx, bits, variant, with_err, 'do_photometry', res[0], res[1] if with_err else None,
                             only=[only_case['pos_index']] if only_case else None)
                if not np.array_equal(d0, data, equal_nan=True) or (mask is not None and not np.array_equal(m0, mask)):
                    acc.violation('input-modified', 'do_photometry', ctx.case(0, bits, variant, with_err, 'do_photometry'))
                if variant == 'finite' and with_err:
                    ar = call(acc, ctx, bits, variant, True, 'area_overlap',
                              lambda: ctx.aper.area_overlap(data, mask=mask, **ctx.kw))
                    if ar is not None:
                        compare_area(acc, ctx, bits, 'area_overlap', ar,
                                     only=[only_case['pos_index']] if only_case else None)
    for c, (box, wl), res in zip(ctx.cls, ctx.reg, ctx.residue):
        acc.outcome(f'{c}|{0 if wl is None else sum(1 for _, _, w in wl if w > 0)}')
        if only_case is None and wl is not None:
            hole = sum(1 for _, _, w in wl if w == 0.0)
            acc.counters['positions_with_negative_residue_weight_pixel'] += res == 'neg'
            acc.counters['positions_with_positive_residue_weight_pixel'] += any(0 < w < RESIDUE for _, _, w in wl)
            acc.counters['negative_residue_weight_pixels'] += sum(1 for _, _, w in wl if w < 0)
            acc.counters['exactly_zero_weight_pixels_in_box'] += hole
            if res:
                acc.outcome(f'residue-weight:{res}:{ctx.spec[0]}:{ctx.method[0]}')


# ---------------------------------------------------------------------------
# call forms and metamorphic relations (on a stated sub-product of masks)
# ---------------------------------------------------------------------------
def form_masks(ctx):
    n = ctx.ny * ctx.nx
    mid = (ctx.ny // 2) * ctx.nx + ctx.nx // 2
    out = [None, 1 << mid]
    if n > 1:
        out.append((2 ** n - 1) & ~(1 << mid))
    return out


def run_forms(acc, ctx, tier, only_case=None):
    import astropy.units as u
    from astropy.nddata import NDData, StdDevUncertainty
    from photutils.aperture import aperture_photometry
    npos = len(ctx.pos)
    want = (lambda g: only_case is None or only_case.get('group') == g)
    for bits in form_masks(ctx):
        mask = R.bits_to_mask(bits, ctx.shape)
        for variant in VARIANTS:
            if only_case and (only_case['variant'], only_case['mask_bits']) != (variant, bits):
                continue
            data, err = ctx.img[variant], ctx.img['err']
            multi = call(acc, ctx, bits, variant, True, 'list-call',
                         lambda: ctx.aper.do_photometry(data, error=err, mask=mask, **ctx.kw))
            marea = call(acc, ctx, bits, variant, True, 'list-call', lambda: ctx.aper.area_overlap(data, mask=mask, **ctx.kw))
            if multi is None or marea is None:
                continue

            # (b) one position at a time through a scalar aperture: direct oracle AND bit-identical to the list call
            if want('scalar'):
                ssum, serr, sarea = np.empty(npos), np.empty(npos), np.empty(npos)
                ok = True
                for k, p in enumerate(ctx.pos):
                    ap1 = R.make_aperture(ctx.spec, p)
                    r = call(acc, ctx, bits, variant, True, 'scalar', lambda: ap1.do_photometry(data, error=err, mask=mask, **ctx.kw))
                    if r is None or np.shape(r[0]) != (1,) or np.shape(r[1]) != (1,):
                        if r is not None:
                            acc.violation('result-shape', 'scalar', ctx.case(k, bits, variant, True, 'scalar'), np.shape(r[0]), (1,))
                        ok = False
                        break
                    ssum[k], serr[k] = r[0][0], r[1][0]
                    ar = call(acc, ctx, bits, variant, True, 'scalar-area', lambda: ap1.area_overlap(data, mask=mask, **ctx.kw))
                    if ar is None or np.ndim(ar) != 0:
                        if ar is not None:
                            acc.violation('result-shape', 'scalar-area', ctx.case(k, bits, variant, True, 'scalar-area'), np.shape(ar), ())
                        ok = False
                        break
                    sarea[k] = ar
                if ok:
                    compare_sums(acc, ctx, bits, variant, True, 'scalar', ssum, serr)
                    if variant == 'finite':
                        compare_area(acc, ctx, bits, 'scalar-area', sarea)
                    for name, a, b in (('sum', ssum, multi[0]), ('sum_err', serr, multi[1]), ('area', sarea, marea)):
                        if not bitsame(a, b):
                            k = int(np.flatnonzero(~((a == b) | (np.isnan(a) & np.isnan(np.asarray(b, float)))))[0])
                            acc.violation('one-at-a-time', ctx.site(f'scalar-vs-list:{name}', k, bits, variant),
                                          ctx.case(k, bits, variant, True, 'scalar'), float(np.asarray(b)[k]), float(a[k]))

            # (i) ApertureMask.get_values / multiply
            if want('mask-methods'):
                for k, mk in enumerate(ctx.masks):
                    box, wl = ctx.reg[k]
                    acc.evaluations += 1
                    exp_vals = ctx.summed_values(k, bits, variant)
                    acc.nontrivial += bool(exp_vals)
                    got = call(acc, ctx, bits, variant, False, 'get_values', lambda: mk.get_values(data, mask=mask))
                    if got is not None and not bitsame(got, exp_vals):
                        acc.violation('get_values', ctx.site('get_values', k, bits, variant),
                                      ctx.case(k, bits, variant, False, 'mask-methods'), np.asarray(got).tolist(), exp_vals)
                    if bits is None:
                        gm = call(acc, ctx, bits, variant, False, 'multiply', lambda: mk.multiply(data))
                        if wl is None:
                            if gm is not None:
                                acc.violation('multiply', ctx.site('multiply', k, bits, variant),
                                              ctx.case(k, bits, variant, False, 'mask-methods'), 'array', None)
                        elif gm is not None:
                            ixmin, ixmax, iymin, iymax = box
                            exp = np.zeros((iymax - iymin, ixmax - ixmin))
                            for iy, ix, w in wl:
                                exp[iy - iymin, ix - ixmin] = w * ctx.lst[variant][iy][ix] if w != 0 else 0.0
                            if not bitsame(gm, exp):
                                acc.violation('multiply', ctx.site('multiply', k, bits, variant),
                                              ctx.case(k, bits, variant, False, 'mask-methods'), np.asarray(gm).tolist(), exp.tolist())

            # blind to the values stored in masked pixels (list call) and in every pixel outside the summed set (per
            # position: masked, zero weight, NEGATIVE rounding-residue weight, outside the aperture) -- through
            # do_photometry, ApertureMask.get_values and (sub-product, see RULE) aperture_photometry
            if want('blind'):
                for fill in (1e30, np.nan):
                    dfill, efill = data_fill(ctx.shape, fill), error_fill(ctx.shape, fill)
                    what = f'{fill} (data and error)' if fill == fill else \
                        'non-finite values (data: +inf/-inf/NaN, error: NaN/+inf/-inf, cycled by pixel index)'
                    if mask is not None:
                        dd = data.copy()
                        dd[mask] = dfill[mask]
                        em = err.copy()
                        em[mask] = efill[mask]
                        r = call(acc, ctx, bits, variant, True, 'blind', lambda: ctx.aper.do_photometry(dd, error=em, mask=mask, **ctx.kw))
                        acc.evaluations += npos
                        acc.nontrivial += npos
                        if r is not None and not (bitsame(r[0], multi[0]) and bitsame(r[1], multi[1])):
                            k = int(np.flatnonzero(~((r[0] == multi[0]) | (np.isnan(r[0]) & np.isnan(multi[0]))))[0]) if not bitsame(r[0], multi[0]) else 0
                            acc.violation('masked-value-blind', ctx.site('do_photometry', k, bits, variant),
                                          ctx.case(k, bits, variant, True, 'blind'), float(r[0][k]), float(multi[0][k]),
                                          f'masked pixels overwritten with {what}')
                    table_too = tier == 'thorough' or (variant == 'finite' and bits is None and fill != fill)
                    for k, p in enumerate(ctx.pos):
                        box, wl = ctx.reg[k]
                        if wl is None:
                            continue
                        dd = dfill.copy()
                        ee = efill.copy()
                        for iy, ix, w in wl:
                            if w > 0 and not ((bits or 0) >> (iy * ctx.nx + ix)) & 1:
                                dd[iy, ix] = data[iy, ix]
                                ee[iy, ix] = err[iy, ix]
                        ap1 = R.make_aperture(ctx.spec, p)
                        r = call(acc, ctx, bits, variant, True, 'blind', lambda: ap1.do_photometry(dd, error=ee, mask=mask, **ctx.kw))
                        acc.evaluations += 1
                        acc.nontrivial += 1
                        if r is not None and not (bitsame(r[0], multi[0][k:k + 1]) and bitsame(r[1], multi[1][k:k + 1])):
                            acc.violation('zero-weight-value-blind', ctx.site('do_photometry', k, bits, variant),
                                          ctx.case(k, bits, variant, True, 'blind'), [float(r[0][0]), float(r[1][0])],
                                          [float(multi[0][k]), float(multi[1][k])],
                                          f'every pixel outside the summed set overwritten with {what}')
                        # the same image through ApertureMask.get_values: exactly the weighted values of the summed pixels
                        gv = call(acc, ctx, bits, variant, False, 'blind', lambda: ctx.masks[k].get_values(dd, mask=mask))
                        acc.evaluations += 1
                        acc.nontrivial += 1
                        if gv is not None:
                            exp_vals = ctx.summed_values(k, bits, variant)
                            if not bitsame(gv, exp_vals):
                                acc.violation('zero-weight-value-blind', ctx.site('get_values', k, bits, variant),
                                              ctx.case(k, bits, variant, False, 'blind'), np.asarray(gv).tolist(), exp_vals,
                                              f'every pixel outside the summed set overwritten with {what}')
                        # ... and through aperture_photometry (scalar aperture -> one-row table)
                        if table_too:
                            tb = call(acc, ctx, bits, variant, True, 'blind',
                                      lambda: aperture_photometry(dd, ap1, error=ee, mask=mask, **ctx.kw))
                            acc.evaluations += 1
                            acc.nontrivial += 1
                            if tb is not None:
                                try:
                                    got = [float(tb['aperture_sum'][0]), float(tb['aperture_sum_err'][0])]
                                except Exception as exc:  # noqa: BLE001  (missing column / empty table)
                                    got = repr(exc)
                                want_ = [float(multi[0][k]), float(multi[1][k])]
                                if isinstance(got, str) or not bitsame(got, want_):
                                    acc.violation('zero-weight-value-blind', ctx.site('aperture_photometry', k, bits, variant),
                                                  ctx.case(k, bits, variant, True, 'blind'), got, want_,
                                                  f'every pixel outside the summed set overwritten with {what}')

            # error map with NaN / +inf / -inf at three fixed pixels: sum_err is the quadrature sum over exactly the summed
            # pixels -- unchanged where those pixels are masked / zero-weight / outside the box, NaN resp. inf where summed
            if want('error-nonfinite'):
                enf = ctx.img['errnf']
                r = call(acc, ctx, bits, variant, True, 'error-nonfinite',
                         lambda: ctx.aper.do_photometry(data, error=enf, mask=mask, **ctx.kw))
                if r is not None:
                    compare_sums(acc, ctx, bits, variant, True, 'error-nonfinite', r[0], r[1], errkey='errnf',
                                 only=[only_case['pos_index']] if only_case else None)

            # aperture_photometry with non-finite values at fixed pixels: data variant nan / inf with the finite error map,
            # and every data variant with the non-finite error map == do_photometry (judged above by the direct loop)
            if want('table') and (tier == 'thorough' or bits is None):
                for errkey in ('err', 'errnf'):
                    if variant == 'finite' and errkey == 'err':
                        continue        # the plain case: block (c) below
                    if tier != 'thorough' and (variant, errkey) != ('nan', 'errnf'):
                        continue
                    e_ = ctx.img[errkey]
                    ref = multi if errkey == 'err' else call(acc, ctx, bits, variant, True, 'list-call',
                                                             lambda: ctx.aper.do_photometry(data, error=e_, mask=mask, **ctx.kw))
                    tbl = call(acc, ctx, bits, variant, True, 'aperture_photometry',
                               lambda: aperture_photometry(data, ctx.aper, error=e_, mask=mask, **ctx.kw))
                    if tbl is not None and ref is not None:
                        check_table(acc, ctx, bits, variant, True, f'aperture_photometry:{errkey}', tbl, '', ref, ctx.pos)

            if variant != 'finite':
                continue

            # the aperture "as it currently is": an object that was used with other parameters / positions and then re-assigned
            if want('reassign') and (tier == 'thorough' or bits is None or bits == form_masks(ctx)[1]):
                run_reassign(acc, ctx, bits, mask, multi, marea, aperture_photometry)

            # linear in data: P(a d1 + b d2) = a P(d1) + b P(d2), rtol 1e-12 on sum w (|a d1| + |b d2|)
            if want('linear'):
                a_, b_ = 2.5, -1.75
                d2 = ctx.img['second']
                r12 = call(acc, ctx, bits, variant, False, 'linear', lambda: ctx.aper.do_photometry(a_ * data + b_ * d2, mask=mask, **ctx.kw))
                r2 = call(acc, ctx, bits, variant, False, 'linear', lambda: ctx.aper.do_photometry(d2, mask=mask, **ctx.kw))
                if r12 is not None and r2 is not None:
                    absimg = (abs(a_) * np.abs(data) + abs(b_) * np.abs(d2)).tolist()
                    for k in range(npos):
                        scale = R.ref_sums(ctx.reg[k][1], absimg, None, bits or 0, ctx.nx)[0]
                        exp = a_ * multi[0][k] + b_ * r2[0][k]
                        acc.evaluations += 1
                        acc.nontrivial += bool(scale == scale and scale > 0)
                        if not R.same(r12[0][k], float(exp), 1e-12 * (scale if scale == scale else 0) + 1e-300):
                            acc.violation('linearity', ctx.site('do_photometry', k, bits, variant),
                                          ctx.case(k, bits, variant, False, 'linear'), float(r12[0][k]), float(exp))

            # (c)-(g) table forms
            if want('table'):
                for with_err in (True, False):
                    e_ = err if with_err else None
                    ref = multi if with_err else call(acc, ctx, bits, variant, False, 'list-call',
                                                      lambda: ctx.aper.do_photometry(data, mask=mask, **ctx.kw))
                    tbl = call(acc, ctx, bits, variant, with_err, 'aperture_photometry',
                               lambda: aperture_photometry(data, ctx.aper, error=e_, mask=mask, **ctx.kw))
                    if tbl is None or ref is None:
                        continue
                    check_table(acc, ctx, bits, variant, with_err, 'aperture_photometry', tbl, '', ref, ctx.pos)
                if tier == 'thorough' or bits is None or bits == form_masks(ctx)[1]:
                    run_table_forms(acc, ctx, bits, variant, multi, mask, u, NDData, StdDevUncertainty, aperture_photometry)


def run_reassign(acc, ctx, bits, mask, multi, marea, aperture_photometry):
    """History relation (bit-exact): an aperture object of the same class that has been USED (do_photometry and
    area_overlap, which fill whatever the object memoises) with other parameters (1.5x larger, rotated by 0.9 rad) at
    other positions (the list reversed) and whose public parameters are then assigned ONE AT A TIME (both orders:
    shape parameters then positions, positions then shape parameters; used again after every assignment) must, after
    every single assignment, give the sums of a fresh aperture with the same current parameters; at the end (== the
    aperture of this unit) also the same area_overlap and aperture_photometry table."""
    variant = 'finite'
    data, err = ctx.img[variant], ctx.img['err']
    kind = ctx.spec[0]
    npos = len(ctx.pos)
    target = R.param_items(ctx.spec)
    for positions_first in (False, True):
        cur = R.param_items(R.before_spec(ctx.spec))
        cur_pos = ctx.pos[::-1]
        steps = ([('positions', ctx.pos)] + target) if positions_first else (target + [('positions', ctx.pos)])
        case = dict(ctx.case(0, bits, variant, True, 'reassign'), positions_first=positions_first)
        stale = False
        try:
            ap = R.aperture_from_items(kind, cur, cur_pos)
            ap.do_photometry(data, error=err, mask=mask, **ctx.kw)
            ap.area_overlap(data, mask=mask, **ctx.kw)
            for name, value in steps:
                if stale:
                    break           # reported at the step where it arose
                setattr(ap, name, value)
                if name == 'positions':
                    cur_pos = value
                else:
                    cur = [(n, value if n == name else v) for n, v in cur]
                got = ap.do_photometry(data, error=err, mask=mask, **ctx.kw)
                try:
                    fresh = R.aperture_from_items(kind, cur, cur_pos)
                except ValueError:
                    continue        # the intermediate parameter set is not a valid aperture (not the case for the alphabet)
                want = fresh.do_photometry(data, error=err, mask=mask, **ctx.kw)
                acc.evaluations += npos
                acc.nontrivial += npos
                for nm, g, w in (('sum', got[0], want[0]), ('sum_err', got[1], want[1])):
                    if not bitsame(g, w):
                        k = int(np.flatnonzero(~((g == w) | (np.isnan(g) & np.isnan(w))))[0])
                        acc.violation('reassigned-aperture', f'do_photometry:{kind}:after-{name}', dict(case, pos_index=k, position=list(cur_pos[k])),
                                      float(g[k]), float(w[k]), f'{nm} of a fresh aperture with the same parameters {cur}; assigned so far: '
                                      f'{[n for n, _ in steps[:steps.index((name, value)) + 1]]}')
                        stale = True
                        break
            if stale:
                continue            # already reported at the step where it arose
            # final state == the aperture of this unit (the last step compared do_photometry with it)
            ga = ap.area_overlap(data, mask=mask, **ctx.kw)
            if not bitsame(ga, marea):
                acc.violation('reassigned-aperture', f'area_overlap:{kind}:final', case, np.asarray(ga).tolist()[:4], np.asarray(marea).tolist()[:4])
            tbl = aperture_photometry(data, ap, error=err, mask=mask, **ctx.kw)
            check_table(acc, ctx, bits, variant, True, 'aperture_photometry:reassigned', tbl, '', multi, ctx.pos, group='reassign')
        except Exception as exc:  # noqa: BLE001
            acc.violation('raises', f'reassign:{type(exc).__name__}', case, repr(exc), 'a result for every position')


def check_table(acc, ctx, bits, variant, with_err, form, tbl, suffix, ref, pos, unit=None, group='table'):
    npos = len(pos)
    acc.evaluations += npos
    acc.nontrivial += npos
    case = ctx.case(0, bits, variant, with_err, group)
    cols = tbl.colnames
    sk, ek = 'aperture_sum' + suffix, 'aperture_sum_err' + suffix
    if sk not in cols or (ek in cols) != bool(with_err):
        acc.violation('table-columns', form, case, cols, [sk] + ([ek] if with_err else []))
        return
    if len(tbl) != npos:
        acc.violation('table-columns', form + ':rows', case, len(tbl), npos)
        return
    for name, col, want in ((sk, tbl[sk], ref[0]),) + (((ek, tbl[ek], ref[1]),) if with_err else ()):
        gunit = getattr(col, 'unit', None)
        if (unit is None) != (gunit is None) or (unit is not None and gunit != unit):
            acc.violation('units-carried', f'{form}:{name.rstrip("_01")}', case, str(gunit), str(unit))
        vals = np.asarray(getattr(col, 'value', col), dtype=float)
        if not bitsame(vals, np.asarray(getattr(want, 'value', want))):
            bad = ~((vals == np.asarray(want)) | (np.isnan(vals) & np.isnan(np.asarray(want, float))))
            k = int(np.flatnonzero(bad)[0])
            acc.violation('call-form-equivalence', ctx.site(form, k, bits, variant), ctx.case(k, bits, variant, with_err, group),
                          float(vals[k]), float(np.asarray(want)[k]), f'column {name} vs do_photometry')
    xc = np.asarray(getattr(tbl['xcenter'], 'value', tbl['xcenter']), dtype=float)
    yc = np.asarray(getattr(tbl['ycenter'], 'value', tbl['ycenter']), dtype=float)
    px, py = np.array([p[0] for p in pos], float), np.array([p[1] for p in pos], float)
    if not (np.array_equal(xc, px) and np.array_equal(yc, py)):
        acc.violation('table-centers', form, case, [xc.tolist()[:4], yc.tolist()[:4]], [px.tolist()[:4], py.tolist()[:4]])
    if list(tbl['id']) != list(range(1, npos + 1)):
        acc.violation('table-columns', form + ':id', case, list(tbl['id'])[:5], [1, 2, 3, 4, 5])


def second_spec(spec):
    """Same class, same positions, 1.5x larger (for the list-of-apertures form)."""
    return [spec[0]] + [v * 1.5 if i < len(spec) - 1 - (spec[0] in ('ellipse', 'eann', 'rect', 'rann')) else v
                        for i, v in enumerate(spec[1:])]


def run_table_forms(acc, ctx, bits, variant, multi, mask, u, NDData, StdDevUncertainty, aperture_photometry):
    data, err = ctx.img[variant], ctx.img['err']
    kw = ctx.kw
    # (d) list of two apertures == separately
    ap2 = R.make_aperture(second_spec(ctx.spec), ctx.pos)
    ref2 = call(acc, ctx, bits, variant, True, 'aperture-list', lambda: ap2.do_photometry(data, error=err, mask=mask, **kw))
    tbl = call(acc, ctx, bits, variant, True, 'aperture-list', lambda: aperture_photometry(data, [ctx.aper, ap2], error=err, mask=mask, **kw))
    if tbl is not None and ref2 is not None:
        check_table(acc, ctx, bits, variant, True, 'aperture-list', tbl, '_0', multi, ctx.pos)
        check_table(acc, ctx, bits, variant, True, 'aperture-list', tbl, '_1', ref2, ctx.pos)
    # (e) NDData, without and with unit
    nd = NDData(data, uncertainty=StdDevUncertainty(err), mask=mask)
    tbl = call(acc, ctx, bits, variant, True, 'nddata', lambda: aperture_photometry(nd, ctx.aper, **kw))
    if tbl is not None:
        check_table(acc, ctx, bits, variant, True, 'nddata', tbl, '', multi, ctx.pos)
    nd = NDData(data, uncertainty=StdDevUncertainty(err, unit=u.adu), mask=mask, unit=u.adu)
    tbl = call(acc, ctx, bits, variant, True, 'nddata-unit', lambda: aperture_photometry(nd, ctx.aper, **kw))
    if tbl is not None:
        check_table(acc, ctx, bits, variant, True, 'nddata-unit', tbl, '', multi, ctx.pos, unit=u.adu)
    # (f) Quantity
    tbl = call(acc, ctx, bits, variant, True, 'quantity', lambda: aperture_photometry(data * u.Jy, ctx.aper, error=err * u.Jy, mask=mask, **kw))
    if tbl is not None:
        check_table(acc, ctx, bits, variant, True, 'quantity', tbl, '', multi, ctx.pos, unit=u.Jy)
    r = call(acc, ctx, bits, variant, True, 'quantity', lambda: ctx.aper.do_photometry(data * u.Jy, error=err * u.Jy, mask=mask, **kw))
    if r is not None:
        acc.evaluations += len(ctx.pos)
        acc.nontrivial += len(ctx.pos)
        for name, q, w in (('sum', r[0], multi[0]), ('sum_err', r[1], multi[1])):
            if getattr(q, 'unit', None) != u.Jy:
                acc.violation('units-carried', f'do_photometry:{name}', ctx.case(0, bits, variant, True, 'table'), str(getattr(q, 'unit', None)), 'Jy')
            elif not bitsame(q.value, w):
                acc.violation('call-form-equivalence', f'do_photometry-quantity:{name}', ctx.case(0, bits, variant, True, 'table'),
                              q.value.tolist()[:4], np.asarray(w).tolist()[:4])
    # (g) sky aperture + TAN WCS == its own to_pixel(wcs) image
    wcs = R.tan_wcs()
    sky = call(acc, ctx, bits, variant, True, 'sky', lambda: ctx.aper.to_sky(wcs))
    if sky is None:
        return
    pix = call(acc, ctx, bits, variant, True, 'sky', lambda: sky.to_pixel(wcs))
    if pix is None:
        return
    refp = call(acc, ctx, bits, variant, True, 'sky', lambda: pix.do_photometry(data, error=err, mask=mask, **kw))
    tbl = call(acc, ctx, bits, variant, True, 'sky', lambda: aperture_photometry(data, sky, error=err, mask=mask, wcs=wcs, **kw))
    if tbl is not None and refp is not None:
        check_table(acc, ctx, bits, variant, True, 'sky', tbl, '', refp, [tuple(p) for p in np.atleast_2d(pix.positions)])
        if 'sky_center' not in tbl.colnames:
            acc.violation('table-columns', 'sky:sky_center', ctx.case(0, bits, variant, True, 'table'), tbl.colnames, 'sky_center')
        # the converted aperture must be the original one up to the round trip through the WCS
        # (1e-6 px: pixel -> world -> pixel of a TAN projection is good to ~1e-9 px)
        if not np.allclose(np.atleast_2d(pix.positions), np.asarray(ctx.pos), rtol=0, atol=1e-6):
            acc.violation('sky-roundtrip', 'positions', ctx.case(0, bits, variant, True, 'table'),
                          np.atleast_2d(pix.positions)[:3].tolist(), ctx.pos[:3])


# ---------------------------------------------------------------------------
# storage-representation axis: the SAME kind of image held in another dtype / byte order / memory layout / container
# ---------------------------------------------------------------------------
# A representation is 'dtype' or 'dtype:layout'.  The property quantifies over all 2-D images: the storage dtype only
# says which real numbers the pixels hold, the sums are sums of real numbers (float64 arithmetic on the stored values).
# (REPRS_QUICK / REPRS_MORE are defined at the top of the module: RULE quotes them)


def reprs(tier):
    return REPRS_QUICK + (REPRS_MORE if tier == 'thorough' else [])


def repr_dtype(rep):
    return np.dtype(rep.partition(':')[0])


def repr_class(rep):
    """the part of a violation site that names the representation: classes, not single dtypes (one defect, one key)"""
    dt, _, layout = rep.partition(':')
    d = np.dtype(dt)
    c = {'f': 'float-narrow' if d.itemsize < 8 else ('float64' if d.isnative else 'float64-byteswapped'),
         'i': 'signed-int', 'u': 'unsigned-int', 'b': 'bool'}[d.kind]
    return c + ('-' + layout if layout else '')


def dvariants(rep):
    """pixel-value variants of a representation, simplest first.
    generic: seed-generic reals converted to the dtype (integers: rounded; unsigned: of the absolute value; bool: > 3);
    cancel : the same with +B / -B at the centre pixel and its raster successor (signed dtypes only) -- the true sum of
             an aperture that holds both is the faint rest, an accumulation in a narrow dtype loses it;
    pile   : +P / +P at the same two pixels with 2P beyond the range of the dtype (float16 4e4, float32 3e38, integers:
             the dtype maximum, capped at 2^62 signed / 2^63 unsigned so that the value is exact in float64
             ) -- the true sum is finite, an accumulation in the dtype overflows / wraps.
    float64 representations (byte-swapped, Fortran order, strided view, nested list) have the generic variant only."""
    d = repr_dtype(rep)
    if d.kind == 'f' and d.itemsize == 8:
        return ['generic']          # float64 in another byte order / layout / container: no narrower accumulator to expose
    return ['generic', 'pile'] if d.kind in 'ub' else ['generic', 'cancel', 'pile']


def bright(dt, variant):
    """-> the magnitude stored at the two special pixels"""
    if dt.kind == 'b':
        return True
    if dt.kind in 'iu':
        return min(int(np.iinfo(dt).max), 2 ** 62 if dt.kind == 'i' else 2 ** 63)
    if dt.itemsize == 2:
        return 3.0e4 if variant == 'cancel' else 4.0e4
    if dt.itemsize == 4:
        return 3.0e8 if variant == 'cancel' else 3.0e38
    return 3.0e8


def stored_images(shape, seed, rep, variant):
    """-> (data object, error object) exactly as handed to photutils, (data, error) as nested lists of Python floats =
    the stored values converted to float64 (exact for every dtype of the alphabet)."""
    dt, _, layout = rep.partition(':')
    dt = np.dtype(dt)
    ny, nx = shape
    base = images(shape, seed)
    g, h = base['finite'], 4.0 * base['err']          # errors 2 .. 6: distinct values also after rounding to integers
    if dt.kind == 'f':
        d, e = g.astype(dt), h.astype(dt)
    elif dt.kind == 'i':
        lim = min(int(np.iinfo(dt).max), 2 ** 62)
        d, e = np.clip(np.rint(g), -lim, lim).astype(dt), np.rint(h).astype(dt)
    elif dt.kind == 'u':
        d, e = np.rint(np.abs(g)).astype(dt), np.rint(h).astype(dt)
    else:
        d, e = g > 3.0, h > 4.0
    if variant != 'generic':
        b = bright(dt, variant)
        p1 = (ny // 2) * nx + nx // 2
        p2 = (p1 + 1) % (ny * nx)
        d[p1 // nx, p1 % nx] = b
        e[p1 // nx, p1 % nx] = b
        if p2 != p1:
            d[p2 // nx, p2 % nx] = -b if variant == 'cancel' else b
            e[p2 // nx, p2 % nx] = b
    dl, el = d.astype(np.float64).tolist(), e.astype(np.float64).tolist()
    out = []
    for a in (d, e):
        if layout == 'F':
            a = np.asfortranarray(a)
        elif layout == 'strided':
            # every second element of a larger buffer whose other elements hold a different value (1 / True)
            big = np.ones((2 * ny + 1, 2 * nx + 1), dtype=a.dtype)
            big[1::2, 1::2] = a
            a = big[1::2, 1::2]
        elif layout == 'list':
            a = a.tolist()
        elif layout:
            raise ValueError(rep)
        out.append(a)
    return out[0], out[1], dl, el


def repr_product(ctx, tier):
    """-> [(image repr, error repr, value variant, mask bits, forms)] -- the stated (sub-)product of the storage axis.
    forms: 'do' = do_photometry on the whole position list (direct oracle), 'mask' = ApertureMask.get_values (+ multiply
    when there is no mask) at every position, 'table' = aperture_photometry.
    quick   : every representation x every value variant, error in the same representation, no mask: 'do'; on the
              brightest-first variant of the representation (the second of dvariants(), the only one for float64
              forms) also 'mask' and 'table', and 'do' once more with the centre-pixel mask (it hides the +B / +P pixel).
    thorough: every representation x every value variant x the three call-form masks, error in the same
              representation, every form; on no mask additionally (representation, float64 error) and
              (float64 image, error in the representation): 'do'."""
    fm = form_masks(ctx)
    out = []
    for rep in reprs(tier):
        dvs = dvariants(rep)
        first_bright = dvs[min(1, len(dvs) - 1)]
        for dv in dvs:
            if tier == 'thorough':
                for bits in fm:
                    out.append((rep, rep, dv, bits, ('do', 'mask', 'table')))
                out.append((rep, '<f8', dv, None, ('do',)))
                out.append(('<f8', rep, dv, None, ('do',)))
            else:
                out.append((rep, rep, dv, None, ('do', 'mask', 'table') if dv == first_bright else ('do',)))
                if dv == first_bright:
                    out.append((rep, rep, dv, fm[1], ('do',)))
    return out


def run_reprs(acc, ctx, tier, only_case=None):
    """The storage-representation axis (finite values): do_photometry (whole position list) judged by the direct pixel
    loop on the stored values converted to float64 -- tolerance as everywhere in this module: RTOL * sum w|d|, the
    accumulation-order bound of a float64 sum --; ApertureMask.get_values / multiply bit-exact (w * float64(d), one
    product per pixel); aperture_photometry == do_photometry (bit-exact)."""
    from photutils.aperture import aperture_photometry
    npos = len(ctx.pos)
    dense = {}
    for rep, erep, dv, bits, forms in repr_product(ctx, tier):
        if only_case and (only_case['repr'], only_case['err_repr'], only_case['dvariant'], only_case['mask_bits']) != (rep, erep, dv, bits):
            continue
        data, _, dl, _ = stored_images(ctx.shape, ctx.seed, rep, dv)
        _, err, _, el = stored_images(ctx.shape, ctx.seed, erep, dv)
        mask = R.bits_to_mask(bits, ctx.shape)
        icls, ecls = repr_class(rep), repr_class(erep)
        is_list = isinstance(data, list)
        snap = [(a, a.copy()) for a in (data, err) if not isinstance(a, list)]

        def case(k, form):
            return dict(ctx.case(k, bits, 'finite', True, form), group='repr', repr=rep, err_repr=erep, dvariant=dv)

        def rcall(form, fn):
            try:
                return fn()
            except Exception as exc:  # noqa: BLE001
                acc.violation('raises', f'{form}:image-{icls}:error-{ecls}:{type(exc).__name__}', case(0, form), repr(exc),
                              'a result for every position')
                return None

        res = rcall('do_photometry', lambda: ctx.aper.do_photometry(data, error=err, mask=mask, **ctx.kw))
        if res is None:
            continue
        if np.shape(res[0]) != (npos,) or np.shape(res[1]) != (npos,):
            acc.violation('result-shape', f'do_photometry:image-{icls}', case(0, 'do_photometry'),
                          [np.shape(res[0]), np.shape(res[1])], (npos,))
            continue
        if not all(np.array_equal(a, a0) and a.dtype == a0.dtype for a, a0 in snap):
            acc.violation('input-modified', f'do_photometry:image-{icls}', case(0, 'do_photometry'))
        # how many cases can tell a float64 accumulation from one in the narrow float dtype of the image (measured:
        # non-vacuity of the axis; never used by the oracle)
        d_ = repr_dtype(rep)
        if d_.kind == 'f' and d_.itemsize < 8 and not is_list and only_case is None:
            if bits not in dense:
                W = np.zeros((npos, ctx.ny, ctx.nx))
                for k, (_, wl) in enumerate(ctx.reg):
                    for iy, ix, w in (wl or ()):
                        if w > 0 and not ((bits or 0) >> (iy * ctx.nx + ix)) & 1:
                            W[k, iy, ix] = w
                dense[bits] = W
            W = dense[bits]
            with np.errstate(all='ignore'):
                wide = (W * np.asarray(data, dtype=np.float64)[None]).reshape(npos, -1).sum(axis=1)
                nat = d_.newbyteorder('=')
                narrow = (W.astype(nat) * np.asarray(data).astype(nat)[None]).reshape(npos, -1).sum(axis=1, dtype=nat).astype(np.float64)
                scale = (W * np.abs(np.asarray(data, dtype=np.float64))[None]).reshape(npos, -1).sum(axis=1)
            acc.counters['repr_cases_narrow_float_image'] += npos
            acc.counters['repr_cases_where_narrow_accumulation_differs_beyond_tolerance'] += int(
                np.sum(~(np.abs(narrow - wide) <= RTOL * scale)))
        only = [only_case['pos_index']] if only_case else range(npos)
        if only_case is None or only_case['form'] == 'do_photometry':
            for k in only:
                s, e, a, sabs, n = R.ref_sums(ctx.reg[k][1], dl, el, bits or 0, ctx.nx)
                acc.evaluations += 1
                if n:
                    acc.nontrivial += 1
                c = ctx.cls[k]
                c = 'cut' if c.startswith('cut') else c
                sfx = f':{c}' + (':mask' if bits else '')
                if not R.same(res[0][k], s, RTOL * sabs + 1e-300):
                    acc.violation('sum', f'do_photometry:image-{icls}{sfx}', case(k, 'do_photometry'), float(res[0][k]), s,
                                  f'direct float64 sum over {n} pixels of the values stored as {rep} ({dv}); class {ctx.cls[k]}')
                if not R.same(res[1][k], e, RTOL * (e if e == e and e != math.inf else 0.0) + 1e-300):
                    acc.violation('sum_err', f'do_photometry:error-{ecls}{sfx}', case(k, 'do_photometry'), float(res[1][k]), e,
                                  f'direct float64 quadrature sum over {n} pixels of the values stored as {erep} ({dv}); class {ctx.cls[k]}')
            acc.outcome(f'repr:{icls}:{dv}')

        if 'mask' in forms and not is_list and (only_case is None or only_case['form'] in ('get_values', 'multiply')):
            key = f'repr|{rep}|{dv}'
            ctx.lst[key] = dl
            for k in only:
                mk = ctx.masks[k]
                box, wl = ctx.reg[k]
                exp_vals = ctx.summed_values(k, bits, key)
                acc.evaluations += 1
                acc.nontrivial += bool(exp_vals)
                got = rcall('get_values', lambda: mk.get_values(data, mask=mask))
                if got is not None and not (np.asarray(got).dtype == np.float64 and bitsame(got, exp_vals)):
                    acc.violation('get_values', f'get_values:image-{icls}' + (':mask' if bits else ''), case(k, 'get_values'),
                                  [str(np.asarray(got).dtype), np.asarray(got, dtype=float).tolist()], ['float64', exp_vals],
                                  f'w * float64(stored value) of every summed pixel, image stored as {rep} ({dv})')
                if bits is None and wl is not None:
                    gm = rcall('multiply', lambda: mk.multiply(data))
                    if gm is not None:
                        ixmin, ixmax, iymin, iymax = box
                        exp = np.zeros((iymax - iymin, ixmax - ixmin))
                        for iy, ix, w in wl:
                            exp[iy - iymin, ix - ixmin] = w * dl[iy][ix]
                        if not bitsame(gm, exp):
                            acc.violation('multiply', f'multiply:image-{icls}', case(k, 'multiply'),
                                          np.asarray(gm, dtype=float).tolist(), exp.tolist(),
                                          f'w * float64(stored value) in the box, 0 outside the image; image stored as {rep} ({dv})')
            del ctx.lst[key]

        if 'table' in forms and (only_case is None or only_case['form'] == 'aperture_photometry'):
            tbl = rcall('aperture_photometry', lambda: aperture_photometry(data, ctx.aper, error=err, mask=mask, **ctx.kw))
            if tbl is not None:
                n0 = len(acc.violations)
                check_table(acc, ctx, bits, 'finite', True, f'aperture_photometry:image-{icls}', tbl, '', res, ctx.pos, group='repr')
                for v in acc.violations[n0:]:
                    v['case'].update(repr=rep, err_repr=erep, dvariant=dv, form='aperture_photometry')


# ---------------------------------------------------------------------------
def plan(tier, seed):
    units = []
    for si, shape in enumerate(shapes(tier)):
        for ai, _ in enumerate(aper_specs(tier)):
            for mi, _ in enumerate(METHODS):
                units.append({'shape': si, 'aper': ai, 'method': mi})
    return units


def run_unit(unit, tier, seed):
    acc = Acc()
    ctx = Ctx(shapes(tier)[unit['shape']], aper_specs(tier)[unit['aper']], METHODS[unit['method']], seed)
    run_main(acc, ctx, tier)
    run_forms(acc, ctx, tier)
    run_reprs(acc, ctx, tier)
    if (unit['shape'] * 7 + unit['aper'] * 3 + unit['method']) % 41 == 5:
        k = (unit['aper'] * 11) % len(ctx.pos)
        acc.samples.append(ctx.case(k, 1, VARIANTS[unit['aper'] % 3], True, 'do_photometry'))
    return acc


def replay(case, seed):
    acc = Acc()
    ctx = Ctx(tuple(case['shape']), case['aper'], tuple(case['method']), seed)
    if case.get('group', 'main') == 'main':
        run_main(acc, ctx, 'thorough', only_case=case)
    elif case.get('group') == 'repr':
        run_reprs(acc, ctx, 'thorough', only_case=case)
    else:
        run_forms(acc, ctx, 'thorough', only_case=case)
    k = case['pos_index']
    pos_specific = [v for v in acc.violations if v['case'].get('pos_index') == k]
    if pos_specific:
        acc.violations = pos_specific
    return acc


def describe(tier, seed):
    return {'alphabet': {'image_shapes': [list(s) for s in shapes(tier)],
                         'apertures': aper_specs(tier), 'methods': [list(m) for m in METHODS],
                         'annulus_holes': 'smaller than a pixel (no pixel fully inside) AND fully containing image pixels, for every annulus '
                                          'class (cann 1.2/2.5, rann 3.0/5.0 [thorough], eann 1.6/2.5/1.8 theta 0 and 2.0/3.0/2.2 theta 0.6 '
                                          '[+ 1.6/2.4/2.0 theta 1.1 and 2.5/4.0/3.2 theta 2.5 thorough]); exact EllipticalAnnulus hole pixels '
                                          'carry weights -2e-16..+2e-16: counted in coverage.counters',
                         'positions': 'x, y in {-3, -0.5, 0, 0.3, mid+generic, n-1, n-0.5, n+3} (full 8x8 grid, duplicates removed)',
                         'masks': 'None, every single-pixel mask, middle row, middle column, all-but-one, all; 3x3: all 512 '
                                  '(quick: on finite data with error; thorough: every variant)',
                         'data_variants': VARIANTS,
                         'error': ['generic finite', None, 'call-form sub-product: NaN/+inf/-inf at (centre, first, last) pixel '
                                   '(form error-nonfinite, direct oracle); blindness relations: NaN/+inf/-inf cycled over every '
                                   'masked pixel (list call) resp. every not-summed pixel (scalar apertures); the data there is 1e30 '
                                   'resp. +inf/-inf/NaN cycled one step ahead of the error'],
                         'storage_representations': {
                             'image_and_error': reprs(tier),
                             'value_variants': {r: dvariants(r) for r in reprs(tier)},
                             'bright_values': 'cancel: float16 3e4, float32/64 3e8, integers +-min(max, 2^62); pile: float16 4e4, '
                                              'float32 3e38, integers min(max, 2^62 signed / 2^63 unsigned), bool True; at the centre '
                                              'pixel and its raster successor',
                             'combinations_per_unit_3x3': len(repr_product(Ctx((3, 3), ['circle', 1.2], METHODS[0], seed), tier)),
                             'product': repr_product.__doc__.split('forms:')[1].strip()},
                         'call_forms': 'do_photometry/area_overlap (full product); scalar one-at-a-time, get_values/multiply, '
                                       'blindness (do_photometry list + scalar, get_values scalar), non-finite error map, linearity, aperture_photometry single on masks {None, centre pixel, all-but-centre}; '
                                       'blindness through scalar aperture_photometry on finite data x mask None x non-finite fill (thorough: every variant x mask x fill); '
                                       'aperture_photometry == do_photometry on data nan x non-finite error map x mask None (thorough: all non-finite '
                                       '(data, error map) pairs x all three masks); '
                                       're-assignment history (used aperture with other parameters -> every parameter and the positions assigned one '
                                       'at a time, 2 orders, judged after every step against a fresh aperture; finally area_overlap and the '
                                       'aperture_photometry table) on finite data x masks {None, centre pixel} (thorough: all three); '
                                       'list of 2 apertures, NDData (+unit), Quantity, Sky+TAN WCS on masks {None, centre pixel} (thorough: all three)'},
            'bound': {'units': len(plan(tier, seed)), 'positions_per_unit': 64}}
