"""C18 -- rendered model images are the exact superposition of their sources.

Shape (C): ALL parameter tables of <= 3 rows over a row alphabet of positions
(interior, on the edge, corner, half pixel, just outside, window touching the
image from outside, far outside ...) x model x model_shape mode x local_bkg x
discretisation, rendered by the real ``make_model_image`` and compared with an
independent additive, order-free reference renderer.  Because every ordered
table is enumerated and the reference does not depend on the row order, row
order invariance and additivity over concatenation are decided by the same
comparison.  Plus: PSFPhotometry / IterativePSFPhotometry model and residual
images against the reference rendering of their result tables (full product of
mode x local-background source x grouper x first-iteration source x scene, with
several fitting iterations and a different local background per source), and
``make_psf_model_image`` against ``make_model_image`` on its returned table.

Second table family (VALUE alphabet): row type = position {interior, edge, remote, far outside} x value of the
flux/amplitude column {positive, exactly 0, negative, NaN}, every row with its own non-zero local_bkg; all ordered
tables of 1..2 (core: 1..3; thorough: 1..3 everywhere) rows x model x model_shape mode x local_bkg column x
discretisation.  It contains the rows whose model stamp is identically zero (zero flux, or an image PSF evaluated
beyond its support) as the only row, before and after other rows, with and without local_bkg and units.
PSFPhotometry additionally runs with a fixed flux parameter and init fluxes {+, 0, -, +} (flux_fit == 0 exactly).
"""
import itertools
import math
import warnings

import numpy as np

from ..runner import Acc
from ..snapshot import digest

PROPERTY = 'C18'
LEVEL = 'exploration'
RULE = ('full product: every ordered table of 1..3 rows (quick: 3-row tables for the core configurations, 1..2 rows '
        'for every configuration; thorough: 1..3 rows everywhere) over the row alphabet x model {Gaussian2D with '
        'x_mean/y_mean names, GaussianPRF, unit-ful CircularGaussianPSF (QTable), ImagePSF, compound of two PSFs with a '
        'params_map sending two parameters to one column, Gaussian2D through a params_map} x model_shape mode '
        '{(5,5), (4,6), scalar 5, per-row 2-D column, per-row 1-D column, bounding box} x local_bkg column {absent, '
        'present} x discretize_method {center, interp, oversample(3)} on a 9x11 and a 1x5 image. A table is '
        'non-trivial when at least one row overlaps the image and at least one row is clipped by the image edge or '
        'does not overlap at all. Distinct by construction (product indices). VALUE alphabet (image 9x11): 16 row '
        'types = position {interior, on the edge, "remote" (-4.6, 4.0): reached only by windows >= 11 px wide and '
        'then beyond the 7x7 support of the image PSF, far outside} x flux/amplitude value {positive, exactly 0, '
        'negative, NaN}, every row type with its own non-zero local_bkg (one negative); every ordered table of 1..2 '
        'rows (272; the 6 core configurations model x (5,11) x local_bkg column x center and the whole thorough tier: '
        '1..3 rows, 4368) x model (the same 6) x model_shape mode {(5,5), (5,11), per-row 2-D column, bounding box} x '
        'local_bkg column {present, absent} x discretize_method {center, interp, oversample(3)} = 138 configurations. '
        'Such a table is non-trivial when a row that reaches the image is degenerate: value 0 / negative / NaN, or '
        'its reference model stamp is identically zero (measured; counters say how many tables have such a row and '
        'in how many EVERY overlapping row has a zero stamp - the unit must still be attached). NaN rows: the NaN '
        'pixels of the image must be exactly the union of the NaN rows\' windows. PSF-photometry images: PSFPhotometry '
        'over {PRF, ImagePSF, unit-ful data} x local background from {per-row init column, LocalBackground estimator '
        'on a sloping background} x {no grouper, grouper whose group order differs from the table order} x flux '
        '{fitted (4 positive stars), flux parameter fixed with init fluxes {+, exactly 0, -, +} on a scene whose '
        'third star is negative: flux_fit == 0 exactly with a non-zero local_bkg, counted from the results table}; '
        'IterativePSFPhotometry over scene {A: 1 bright+faint pair + 1 star, B: 2 pairs + 2 stars} x background '
        '{flat, sloping} x local background {none, LocalBackground estimator} x mode {new, all} x grouper {none, '
        'SourceGrouper} (mode all needs a grouper) x first iteration from {finder, init table with a local_bkg '
        'column}; each x output shape {data shape, 5 px smaller} x psf_shape {bounding box, 5, (5,7), (4,6)} x '
        'include_localbkg {False, True}, expected image rebuilt from the PUBLIC results table (row by row: fitted '
        'parameters + that row\'s local_bkg) and residual == data - model image bit-exactly. An iterative case is '
        'non-trivial when >= 2 iterations fitted sources (counters in the evidence say how many configurations '
        'have different source counts per iteration and a different local_bkg for every source).')
ASSUMPTIONS = ['astropy/photutils model evaluation (model(x, y)), Table/QTable, units are trusted; the discretisation '
               'modes interp/oversample are re-derived from their documented definitions',
               'the window of a row is the astropy overlap_slices convention [ceil(p - n/2), ceil(p - n/2) + n) '
               'clipped to the image (documented definition of "centred" for even sizes / half-pixel positions)',
               'a unit-ful model with NO row overlapping the image: whether the all-zero image carries the unit is '
               'left open (nothing is rendered); required as soon as one row overlaps',
               'a NaN or zero or negative flux/amplitude is an admissible table value (no documented validation rejects '
               'it); IEEE arithmetic: a pixel sum with a NaN term is NaN, x + 0 == x',
               'PSF photometry images: the public results table (x_fit, y_fit, flux_fit, local_bkg, in table order) is '
               'the statement of which sources with which local backgrounds were fitted; DAOStarFinder, SourceGrouper '
               'and LocalBackground only shape the scenes (their outputs are read from the results table, never '
               'recomputed)']

EPS = np.finfo(float).eps

# ---------------------------------------------------------------------------- alphabets
# A ROW ALPHABET is a list of row types; a row type fixes the position, the value of the model's flux/amplitude
# column, the row's local_bkg and its per-row model shapes.  Tables are all ordered tuples of row-type indices.
SHAPES = {'9x11': (9, 11), '1x5': (1, 5), 'val9x11': (9, 11)}
ROWS = {
    '9x11': [(5.2, 4.1), (0.0, 4.0), (10.0, 8.0), (4.5, 3.5), (-0.6, 4.0), (-2.4, 3.0), (11.4, 8.6), (-40.0, 3.0),
             (-2.5, 4.0)],
    '1x5': [(2.0, 0.0), (0.0, 0.0), (4.4, 0.3), (-0.6, 0.0), (7.0, 0.0), (2.5, -0.5)],
}
_FLUX = [10.0, 13.0, 16.0, 19.0, 22.0, 25.0, 28.0, 31.0, 34.0]
_LBKG = [0.0, 0.5, 0.0, 0.25, 1.5, 0.5, 0.75, 2.0, 0.125]
_ROWSHAPE2D = [(5, 5), (3, 7), (4, 6), (1, 1), (5, 4), (7, 3), (6, 6), (5, 5), (5, 5)]
_ROWSHAPE1D = [5, 3, 4, 7, 5, 6, 2, 5, 5]
FLUX = {'9x11': _FLUX, '1x5': _FLUX}
LBKG = {'9x11': _LBKG, '1x5': _LBKG}
ROWSHAPE2D = {'9x11': _ROWSHAPE2D, '1x5': _ROWSHAPE2D}
ROWSHAPE1D = {'9x11': _ROWSHAPE1D, '1x5': _ROWSHAPE1D}

# the VALUE alphabet ('val9x11'): row type = position x value kind (full product, position-major).  Positions:
# interior; on the edge (clipped window); "remote": 4.6 px outside column 0, so that only windows >= 11 px wide reach
# the image, and what reaches it lies beyond the 7x7 support of the image PSF (stamp identically zero WHATEVER the
# flux; for the analytic models merely small); far outside.  Value kinds of the flux / amplitude column: a generic
# positive number, exactly zero, a negative number, NaN.  Every row type has a non-zero local_bkg of its own (one
# negative), so that in local_bkg mode 'col' a row whose model stamp vanishes still has something to contribute.
VPOS = [(5.2, 4.1), (0.0, 4.0), (-4.6, 4.0), (-40.0, 3.0)]
VPOS_NAMES = ('interior', 'edge', 'remote', 'far-outside')
VKINDS = ('pos', 'zero', 'neg', 'nan')
_VVAL = {'pos': [10.0, 13.0, 16.0, 19.0], 'zero': [0.0] * 4, 'neg': [-7.5, -9.0, -11.5, -6.25], 'nan': [float('nan')] * 4}
_VLB = [1.5, -0.5, 0.75, 2.0]
_VSHAPE2D = [(5, 5), (3, 7), (5, 11), (1, 1)]
_VSHAPE1D = [5, 4, 11, 7]
ROWS['val9x11'] = [VPOS[p] for p in range(4) for _ in VKINDS]
FLUX['val9x11'] = [_VVAL[k][p] for p in range(4) for k in VKINDS]
LBKG['val9x11'] = [_VLB[p] + 0.125 * j for p in range(4) for j in range(len(VKINDS))]
ROWSHAPE2D['val9x11'] = [_VSHAPE2D[p] for p in range(4) for _ in VKINDS]
ROWSHAPE1D['val9x11'] = [_VSHAPE1D[p] for p in range(4) for _ in VKINDS]
VALKIND = {'val9x11': [k for p in range(4) for k in VKINDS]}       # main alphabets: every row is 'pos'

MODELS = ('gauss2d', 'prf', 'psf_unit', 'imagepsf', 'compound', 'mapped')
MSHAPES = ('kw55', 'kw46', 'kwint5', 'col2d', 'col1d', 'bbox')
VMSHAPES = ('kw55', 'kw511', 'col2d', 'bbox')       # value alphabet: fixed 5x5, fixed 5x11 (reaches 'remote'), per row
LBMODES = ('col', 'nocol')
DISC = ('center', 'interp', 'oversample')
CORE = [(m, ms, 'col', 'center') for m in MODELS for ms in ('kw55', 'col2d')]
VCORE = [(m, 'kw511', 'col', 'center') for m in MODELS]


def valkind(imkey, i):
    return VALKIND[imkey][i] if imkey in VALKIND else 'pos'


def make_model(name):
    import astropy.units as u
    from astropy.modeling.models import Gaussian2D
    from photutils.psf import CircularGaussianPSF, GaussianPRF, ImagePSF
    if name == 'gauss2d':
        return Gaussian2D(amplitude=1, x_mean=0, y_mean=0, x_stddev=1.1, y_stddev=1.7, theta=0.4)
    if name == 'prf':
        return GaussianPRF(x_fwhm=2.1, y_fwhm=3.0, theta=30.0)
    if name == 'psf_unit':
        return CircularGaussianPSF(fwhm=2.5, flux=1.0 * u.Jy)
    if name == 'imagepsf':
        yy, xx = np.mgrid[-3:4, -3:4]
        ker = np.exp(-(xx ** 2 + 1.3 * yy ** 2 + 0.4 * xx * yy) / 3.0) * (1 + 0.05 * np.sin(1.7 * xx + 0.3 * yy))
        return ImagePSF(ker / ker.sum())
    if name == 'compound':
        return CircularGaussianPSF(fwhm=2.0) + CircularGaussianPSF(fwhm=4.0)
    if name == 'mapped':
        return Gaussian2D(amplitude=1, x_mean=0, y_mean=0, x_stddev=1.3, y_stddev=0.9, theta=-0.3)
    raise AssertionError(name)


def has_bbox(name):
    return name in ('prf', 'psf_unit', 'imagepsf', 'gauss2d', 'mapped')


def table_for(name, rows, imkey, msmode, lbmode):
    """-> (table, call kwargs, per-row parameter setter for the reference)."""
    import astropy.units as u
    from astropy.table import QTable, Table
    pos = ROWS[imkey]
    x = [pos[i][0] for i in rows]
    y = [pos[i][1] for i in rows]
    FL = FLUX[imkey]
    f = [FL[i] for i in rows]
    lb = [LBKG[imkey][i] for i in rows]
    kw = {}
    if name == 'gauss2d':
        t = Table({'x_mean': x, 'y_mean': y, 'amplitude': f, 'unused': [1.0] * len(rows)})
        kw.update(x_name='x_mean', y_name='y_mean')
        setter = lambda m, i: _set(m, x_mean=pos[i][0], y_mean=pos[i][1], amplitude=FL[i])  # noqa: E731
    elif name in ('prf', 'imagepsf'):
        t = Table({'flux': f, 'y_0': y, 'x_0': x})
        setter = lambda m, i: _set(m, x_0=pos[i][0], y_0=pos[i][1], flux=FL[i])  # noqa: E731
    elif name == 'psf_unit':
        t = QTable({'x_0': x, 'y_0': y, 'flux': f * u.Jy})
        setter = lambda m, i: _set(m, x_0=pos[i][0], y_0=pos[i][1], flux=FL[i] * u.Jy)  # noqa: E731
    elif name == 'compound':
        t = Table({'x': x, 'y': y, 'f0': f, 'f1': [0.5 * v for v in f]})
        kw.update(x_name='x_0_0', y_name='y_0_0',
                  params_map={'x_0_0': 'x', 'y_0_0': 'y', 'x_0_1': 'x', 'y_0_1': 'y', 'flux_0': 'f0', 'flux_1': 'f1'})
        setter = lambda m, i: _set(m, x_0_0=pos[i][0], y_0_0=pos[i][1], x_0_1=pos[i][0], y_0_1=pos[i][1],  # noqa: E731
                                   flux_0=FL[i], flux_1=0.5 * FL[i])
    else:
        # 'amplitude' column is present AND remapped: params_map takes precedence (documented)
        t = Table({'xcol': x, 'ycol': y, 'amp': f, 'amplitude': [999.0] * len(rows), 'sx': [1.0 + 0.1 * i for i in rows]})
        kw.update(x_name='x_mean', y_name='y_mean',
                  params_map={'x_mean': 'xcol', 'y_mean': 'ycol', 'amplitude': 'amp', 'x_stddev': 'sx'})
        setter = lambda m, i: _set(m, x_mean=pos[i][0], y_mean=pos[i][1], amplitude=FL[i], x_stddev=1.0 + 0.1 * i)  # noqa: E731
    if lbmode == 'col':
        t['local_bkg'] = lb * u.Jy if name == 'psf_unit' else lb
    if msmode == 'kw55':
        kw['model_shape'] = (5, 5)
    elif msmode == 'kw46':
        kw['model_shape'] = (4, 6)
    elif msmode == 'kw511':
        kw['model_shape'] = (5, 11)
    elif msmode == 'kwint5':
        kw['model_shape'] = 5
    elif msmode == 'col2d':
        t['model_shape'] = np.array([ROWSHAPE2D[imkey][i] for i in rows])
        kw['model_shape'] = (9, 9)          # documented: ignored when the column is present
    elif msmode == 'col1d':
        t['model_shape'] = [ROWSHAPE1D[imkey][i] for i in rows]
    return t, kw, setter


def _set(m, **kw):
    for k, v in kw.items():
        setattr(m, k, v)
    return m


def row_shape(imkey, msmode, i, model_i):
    if msmode in ('kw55', 'kwint5'):
        return (5, 5)
    if msmode == 'kw46':
        return (4, 6)
    if msmode == 'kw511':
        return (5, 11)
    if msmode == 'col2d':
        return ROWSHAPE2D[imkey][i]
    if msmode == 'col1d':
        return (ROWSHAPE1D[imkey][i], ROWSHAPE1D[imkey][i])
    bb = model_i.bounding_box.bounding_box()       # ((ymin, ymax), (xmin, xmax))
    return (int(math.ceil(bb[0][1] - bb[0][0])), int(math.ceil(bb[1][1] - bb[1][0])))


def window(c, n, N):
    lo = int(math.ceil(c - n / 2.0))
    return max(lo, 0), min(lo + n, N)


def evaluate(model_i, y0, y1, x0, x1, disc):
    """Reference discretisation of ``model_i`` on pixels [y0,y1) x [x0,x1)."""
    ys = np.arange(y0, y1, dtype=float)
    xs = np.arange(x0, x1, dtype=float)
    if disc == 'center':
        xx, yy = np.meshgrid(xs, ys)
        return model_i(xx, yy)
    if disc == 'interp':
        # documented: bilinear interpolation between the values at the corners of the pixel bins,
        # i.e. the mean of the four corner values
        xc = np.arange(x0 - 0.5, x1 + 0.5)
        yc = np.arange(y0 - 0.5, y1 + 0.5)
        xx, yy = np.meshgrid(xc, yc)
        v = model_i(xx, yy)
        return 0.25 * (v[:-1, :-1] + v[1:, :-1] + v[:-1, 1:] + v[1:, 1:])
    # oversample: mean of the model on a factor x factor grid of sub-pixel centres inside each pixel
    fct = 3
    sub = (np.arange(fct) + 0.5) / fct - 0.5
    xf = (xs[:, None] + sub[None, :]).ravel()
    yf = (ys[:, None] + sub[None, :]).ravel()
    xx, yy = np.meshgrid(xf, yf)
    v = model_i(xx, yy)
    unit = getattr(v, 'unit', None)
    v = np.asarray(getattr(v, 'value', v))
    v = v.reshape(len(ys), fct, len(xs), fct).mean(axis=(1, 3))
    return v * unit if unit is not None else v


class Config:
    """Per (image, model, model_shape mode, local_bkg mode, discretisation): reference image of every row type."""

    def __init__(self, imkey, name, msmode, lbmode, disc):
        self.imkey, self.name, self.msmode, self.lbmode, self.disc = imkey, name, msmode, lbmode, disc
        self.shape = SHAPES[imkey]
        self.model = make_model(name)
        self.unitful = name == 'psf_unit'
        self.rowimg, self.overlap, self.clipped, self.abuts = {}, {}, {}, {}
        # value alphabet: kind of the row's flux value and whether the reference MODEL stamp (without local_bkg) is
        # identically zero on the row's non-empty window (measured, not assumed)
        self.kind, self.zerostamp = {}, {}
        ny, nx = self.shape
        for i, (x, y) in enumerate(ROWS[imkey]):
            _, _, setter = table_for(name, [i], imkey, msmode, lbmode)
            m = setter(self.model.copy(), i)
            sh = row_shape(imkey, msmode, i, m)
            y0, y1 = window(y, sh[0], ny)
            x0, x1 = window(x, sh[1], nx)
            img = np.zeros(self.shape)
            ov = y1 > y0 and x1 > x0
            self.kind[i] = valkind(imkey, i)
            self.zerostamp[i] = False
            if ov:
                v = evaluate(m, y0, y1, x0, x1, disc)
                v = np.asarray(getattr(v, 'value', v), dtype=float)
                self.zerostamp[i] = bool(np.all(v == 0))
                img[y0:y1, x0:x1] = v + (LBKG[imkey][i] if lbmode == 'col' else 0.0)
            self.rowimg[i] = img
            self.overlap[i] = ov
            self.clipped[i] = ov and ((y1 - y0) * (x1 - x0) < sh[0] * sh[1])
            # the (unclipped) window ends exactly at the image border: zero-width overlap
            ylo, xlo = int(math.ceil(y - sh[0] / 2.0)), int(math.ceil(x - sh[1] / 2.0))
            self.abuts[i] = (not ov) and (ylo + sh[0] == 0 or ylo == ny or xlo + sh[1] == 0 or xlo == nx)

    def call_kwargs(self):
        kw = {}
        if self.disc != 'center':
            kw['discretize_method'] = self.disc
            if self.disc == 'oversample':
                kw['discretize_oversample'] = 3
        return kw


def check_table(acc, cfg, rows, mmi):
    import astropy.units as u
    case = {'kind': 'table', 'image': cfg.imkey, 'model': cfg.name, 'model_shape': cfg.msmode, 'local_bkg': cfg.lbmode,
            'discretize': cfg.disc, 'rows': list(rows)}
    t, kw, _ = table_for(cfg.name, rows, cfg.imkey, cfg.msmode, cfg.lbmode)
    kw.update(cfg.call_kwargs())
    any_ov = any(cfg.overlap[i] for i in rows)
    ovrows = [i for i in rows if cfg.overlap[i]]
    zero_rows = [i for i in ovrows if cfg.zerostamp[i]]
    all_zero = any_ov and len(zero_rows) == len(ovrows)
    if cfg.imkey in VALKIND:
        # value alphabet: some row that reaches the image is degenerate (zero / negative / NaN value or zero stamp)
        nontrivial = any(cfg.kind[i] != 'pos' or cfg.zerostamp[i] for i in ovrows)
        acc.counters['value_tables_with_an_overlapping_zero-stamp_row'] += int(bool(zero_rows))
        acc.counters['value_tables_where_every_overlapping_row_has_a_zero_stamp'] += int(all_zero)
        acc.counters['value_tables_with_an_overlapping_NaN_row'] += int(any(cfg.kind[i] == 'nan' and not cfg.zerostamp[i]
                                                                            for i in ovrows))
    else:
        nontrivial = any_ov and any(cfg.clipped[i] or not cfg.overlap[i] for i in rows)
    acc.case(nontrivial=nontrivial, sample=case if acc.evaluations % 2003 == 17 else None)
    model = cfg.model
    before = (digest(model), digest(t))
    first_ov = cfg.overlap[rows[0]]
    pred = ('unitful' if cfg.unitful else 'unitless') + (
        ':every-overlapping-row-has-a-zero-stamp' if all_zero else
        (':first-row-overlaps' if first_ov else ':first-row-off-image'))
    try:
        with warnings.catch_warnings():
            warnings.simplefilter('ignore')
            got = mmi(cfg.shape, model, t, **kw)
    except Exception as e:
        # which defect: a units exception is named by the unit predicate, anything else by the geometry predicate
        site = pred if 'Unit' in type(e).__name__ else (
            'row-window-abuts-image-border' if any(cfg.abuts[i] for i in rows) else pred)
        acc.violation('render-raises', f'{site}:{type(e).__name__}', case, f'{type(e).__name__}: {e}', 'an image',
                      'valid table: rows that do not overlap the image must be skipped without error')
        return
    if (digest(model), digest(t)) != before:
        acc.violation('input-modified', 'model' if digest(model) != before[0] else 'table', case, None, None,
                      'make_model_image changed its input model / table')
    isq = isinstance(got, u.Quantity)
    if cfg.unitful:
        if any_ov and not (isq and got.unit == u.Jy):
            acc.violation('units', pred, case, f'{type(got).__name__} unit={getattr(got, "unit", None)}', 'Quantity in Jy',
                          'unit-ful model: the image must carry the unit regardless of which rows overlap')
    elif isq:
        acc.violation('units', 'unitless-model-got-quantity', case, str(got.unit), 'plain ndarray')
    val = np.asarray(got.value if isq else got)
    if val.shape != tuple(cfg.shape):
        acc.violation('shape', cfg.imkey, case, val.shape, cfg.shape)
        return
    ref = np.zeros(cfg.shape)
    mag = np.zeros(cfg.shape)
    for i in sorted(rows):
        ref += cfg.rowimg[i]
        mag += np.abs(cfg.rowimg[i])
    # <= 3 additions per pixel in any order plus the model/local_bkg addition: error <= 4 eps * sum|terms| (x2);
    # interp averages 4 corner values (coordinates are multiples of 0.5: exact) in another association: 32 eps;
    # oversample: the sub-pixel centres k/3 are not representable, equivalent formulas for them differ by
    # 1 ulp(11) = 1.8e-15 and the models of this alphabet have |grad ln f| <= 30 per pixel inside their
    # windows -> relative 5e-14 (measured on the unchanged tree: 9e-15) -> 512 eps = 1.1e-13
    tol = {'center': 8, 'interp': 32, 'oversample': 512}[cfg.disc] * EPS * mag + 1e-300
    acc.outcome(val.tobytes())
    # NaN rows (value alphabet): a sum with a NaN term is NaN -- the NaN pixels must be exactly those of the reference
    # (the union of the NaN rows' windows), all other pixels compare as usual
    nanref = np.isnan(ref)
    with np.errstate(invalid='ignore'):
        bad = (np.isnan(val) != nanref) | (~nanref & (np.abs(val - ref) > tol))
    if bad.any():
        j = tuple(int(v) for v in np.argwhere(bad)[0])
        # name the defect: which kind of row / window is involved (degenerate value kinds first: they exist only in
        # the value alphabet, so the keys of the main alphabets are unchanged)
        kinds = {cfg.kind[i] for i in ovrows}
        what = ('zero-stamp-row' if zero_rows else
                'nan-row' if 'nan' in kinds else
                'negative-row' if 'neg' in kinds else
                'offimage-row' if not all(cfg.overlap[i] for i in rows) else
                'clipped-row' if any(cfg.clipped[i] for i in rows) else 'interior')
        dev = np.abs(np.where(nanref | np.isnan(val), 0.0, val - ref)).max()
        acc.violation('superposition', f'{cfg.disc}:{what}', case, val[j], ref[j],
                      f'pixel {j}: image != sum of per-row model windows (+ local_bkg); {int(bad.sum())} pixels differ, '
                      f'max |dev| {dev:.3g}')


def table_sizes(tier, core):
    return (1, 2, 3) if (tier == 'thorough' or core) else (1, 2)


def configs(tier):
    out = []
    for imkey in ('9x11', '1x5'):
        for name in MODELS:
            for ms in MSHAPES:
                if ms == 'bbox' and not has_bbox(name):
                    continue
                for lb in LBMODES:
                    for disc in DISC:
                        if imkey == '1x5' and tier != 'thorough' and (disc != 'center' or lb == 'nocol'):
                            continue
                        out.append((imkey, name, ms, lb, disc))
    return out


def value_configs(tier):
    """Value alphabet: model x model_shape mode x local_bkg column x discretisation, full product in both tiers."""
    out = []
    for name in MODELS:
        for ms in VMSHAPES:
            if ms == 'bbox' and not has_bbox(name):
                continue
            for lb in LBMODES:
                for disc in DISC:
                    out.append(('val9x11', name, ms, lb, disc))
    return out


def plan(tier, seed):
    units = []
    cfgs = configs(tier)
    for j in range(0, len(cfgs), 6):
        units.append({'kind': 'tables', 'cfgs': [list(c) for c in cfgs[j:j + 6]]})
    units.append({'kind': 'psfphot', 'which': 'prf'})
    units.append({'kind': 'psfphot', 'which': 'imagepsf'})
    units.append({'kind': 'psfphot', 'which': 'units'})
    for j in range(4):
        units.append({'kind': 'iterative', 'part': [j, 4]})
    units.append({'kind': 'psfmodelimage'})
    # value alphabet (appended: the unit indices of the older families stay what they were); a core configuration
    # with its 3-row tables is a unit of its own
    vcfgs = value_configs(tier)
    step = 3 if tier == 'thorough' else 6
    rest = [c for c in vcfgs if tuple(c[1:]) not in VCORE] if tier != 'thorough' else vcfgs
    if tier != 'thorough':
        for c in vcfgs:
            if tuple(c[1:]) in VCORE:
                units.append({'kind': 'tables', 'cfgs': [list(c)]})
    for j in range(0, len(rest), step):
        units.append({'kind': 'tables', 'cfgs': [list(c) for c in rest[j:j + step]]})
    return units


def run_unit(unit, tier, seed):
    acc = Acc()
    from photutils.datasets import make_model_image
    if unit['kind'] == 'tables':
        for (imkey, name, ms, lb, disc) in unit['cfgs']:
            cfg = Config(imkey, name, ms, lb, disc)
            core = ((name, ms, lb, disc) in CORE and imkey == '9x11') or ((name, ms, lb, disc) in VCORE and imkey == 'val9x11')
            n = len(ROWS[imkey])
            for k in table_sizes(tier, core):
                for rows in itertools.product(range(n), repeat=k):
                    check_table(acc, cfg, rows, make_model_image)
    elif unit['kind'] == 'psfphot':
        run_psfphot(acc, unit['which'], seed)
    elif unit['kind'] == 'iterative':
        run_iterative(acc, seed, unit.get('part'))
    else:
        run_psfmodelimage(acc, seed)
    return acc


# ---------------------------------------------------------------------------- PSF photometry images
def ref_render(shape, model, xs, ys, fs, lbs, mshape, names=('x_0', 'y_0', 'flux')):
    """Order-free reference: sum of per-row windows.  ``mshape`` None -> bounding box of the row's model."""
    img = np.zeros(shape)
    mag = np.zeros(shape)
    for x, y, f, lb in zip(xs, ys, fs, lbs):
        m = model.copy()
        setattr(m, names[0], x)
        setattr(m, names[1], y)
        setattr(m, names[2], f)
        if mshape is None:
            bb = m.bounding_box.bounding_box()
            sh = (int(math.ceil(bb[0][1] - bb[0][0])), int(math.ceil(bb[1][1] - bb[1][0])))
        else:
            sh = (mshape, mshape) if np.isscalar(mshape) else tuple(mshape)
        y0, y1 = window(y, sh[0], shape[0])
        x0, x1 = window(x, sh[1], shape[1])
        if y1 <= y0 or x1 <= x0:
            continue
        v = evaluate(m, y0, y1, x0, x1, 'center')
        v = np.asarray(getattr(v, 'value', v), dtype=float) + lb
        img[y0:y1, x0:x1] += v
        mag[y0:y1, x0:x1] += np.abs(v)
    return img, mag


PSF_SHAPES = (None, 5, (5, 7), (4, 6))


PP_WHICH = ('prf', 'imagepsf', 'units')
PP_LBSRC = ('init-column', 'estimator')
PP_GROUPER = ('none', 'grouper')
# 'fit': all four fluxes are fitted (positive stars); 'fixed-degenerate': the model's flux parameter is fixed
# (forced-flux photometry, only the positions are fitted), the init fluxes are {positive, exactly 0, negative, positive}
# and the third star of the scene is a negative one: the results table then has a row with flux_fit == 0 exactly
# (identically zero model stamp, non-zero local_bkg) and a row with a negative flux
PP_FLUX = ('fit', 'fixed-degenerate')


def psfphot_configs():
    for which in PP_WHICH:
        for lbsrc in PP_LBSRC:
            for grp in PP_GROUPER:
                for fl in PP_FLUX:
                    yield {'which': which, 'lbsrc': lbsrc, 'grouper': grp, 'flux': fl}


def _scene(which, lbsrc, seed, flux='fit'):
    """Four stars on 15x17; rows 0 and 2 of the init table are 3.6 px apart (one group with SourceGrouper(4)) while
    row 1 lies between them in table order: group order != table order.  lbsrc 'init-column': per-row local_bkg
    given by the user; 'estimator': no column, a LocalBackground estimator on a sloping background (a different
    value for every source)."""
    from astropy.table import Table
    from photutils.psf import CircularGaussianPRF
    rng = np.random.default_rng(seed + 18)
    if which == 'imagepsf':
        psf = make_model('imagepsf')
    else:
        psf = CircularGaussianPRF(fwhm=2.5)
    xs, ys, fs = [8.2, 1.3, 10.6, 13.6], [7.4, 7.8, 9.0, 1.2], [100.0, 80.0, 70.0, 60.0]
    if flux != 'fit':
        fs[2] = -70.0
    img, _ = ref_render((15, 17), psf, xs, ys, fs, [0.7] * 4, (9, 9))
    img = img + 0.01 * rng.random(img.shape)
    init = Table({'x': [8.0, 1.0, 11.0, 14.0], 'y': [7.0, 8.0, 9.0, 1.0],
                  'flux': [90.0, 70.0, 60.0, 50.0] if flux == 'fit' else [90.0, 0.0, -60.0, 50.0]})
    if lbsrc == 'init-column':
        init['local_bkg'] = [0.7, 0.3, 0.6, 0.5]
    else:
        yy, xx = np.mgrid[0:15, 0:17]
        img = img + 0.08 * xx + 0.05 * yy
    return psf, img, init


def _check_images(acc, obj, results, psf, data_forms, tag, localbkg_col='local_bkg', base_case=None, shape=(15, 17),
                  nontrivial=True):
    """obj: PSFPhotometry / IterativePSFPhotometry after a call.  The expected image is rebuilt from the PUBLIC
    results table only: rows in table order, model evaluated with that row's fitted parameters on the psf_shape
    window, plus that row's ``local_bkg``."""
    import astropy.units as u
    from astropy.nddata import NDData
    xs = np.asarray(results['x_fit'], float)
    ys = np.asarray(results['y_fit'], float)
    fs = results['flux_fit']
    fs = np.asarray(getattr(fs, 'value', fs), float)
    lbs = results[localbkg_col]
    lbs = np.asarray(getattr(lbs, 'value', lbs), float)
    shape = tuple(shape)
    for out_shape in (shape, (shape[0] - 5, shape[1] - 5)):
        for ps in PSF_SHAPES:
            for inc in (False, True):
                case = dict(base_case or {'kind': tag}, out_shape=list(out_shape), psf_shape=ps, include_localbkg=inc)
                acc.case(nontrivial=nontrivial, sample=case if acc.evaluations % 7 == 0 else None)
                user_model = getattr(obj, 'psf_model', None) or obj._psfphot.psf_model
                snap_model = digest(user_model)
                try:
                    with warnings.catch_warnings():
                        warnings.simplefilter('ignore')
                        got = obj.make_model_image(out_shape, psf_shape=ps, include_localbkg=inc)
                except Exception as e:
                    acc.violation('psfphot-model-image-raises', f'{tag}:{type(e).__name__}', case, repr(e), 'an image')
                    continue
                if digest(user_model) != snap_model:
                    acc.violation('input-modified', 'psf_model', case, None, None,
                                  'make_model_image changed the PSF model of the photometry object')
                ref, mag = ref_render(out_shape, psf, xs, ys, fs, lbs if inc else np.zeros(len(xs)), ps)
                val = np.asarray(getattr(got, 'value', got))
                acc.outcome(val.tobytes())
                tol = 8 * EPS * mag + 1e-300       # as in check_table
                if val.shape != ref.shape or (np.abs(val - ref) > tol).any():
                    acc.violation('psfphot-model-image', f'{tag}:psf_shape={"bbox" if ps is None else "given"}:localbkg={inc}',
                                  case, float(np.abs(val - ref).max()) if val.shape == ref.shape else val.shape, 0.0,
                                  'model image != superposition of the fit models (+ local_bkg) on their psf_shape windows')
                if out_shape != shape:
                    continue
                for fname, data in data_forms.items():
                    case2 = dict(case, data_form=fname)
                    acc.case(nontrivial=nontrivial)
                    snap = digest(data)
                    try:
                        with warnings.catch_warnings():
                            warnings.simplefilter('ignore')
                            res = obj.make_residual_image(data, psf_shape=ps, include_localbkg=inc)
                    except Exception as e:
                        acc.violation('residual-raises', f'{tag}:{fname}:{type(e).__name__}', case2, repr(e), 'data - model')
                        continue
                    if digest(data) != snap:
                        acc.violation('residual-input-modified', f'{tag}:{fname}', case2, None, None)
                    if isinstance(data, NDData):
                        if not isinstance(res, NDData):
                            acc.violation('residual-type', f'{tag}:{fname}', case2, type(res).__name__, 'NDData')
                            continue
                        rv, dv = np.asarray(res.data), np.asarray(data.data)
                        if res.unit != data.unit:
                            acc.violation('residual-unit', f'{tag}:{fname}', case2, res.unit, data.unit)
                    else:
                        if isinstance(data, u.Quantity) != isinstance(res, u.Quantity) or \
                                (isinstance(data, u.Quantity) and res.unit != data.unit):
                            acc.violation('residual-unit', f'{tag}:{fname}', case2, getattr(res, 'unit', None),
                                          getattr(data, 'unit', None))
                            continue
                        rv = np.asarray(getattr(res, 'value', res))
                        dv = np.asarray(getattr(data, 'value', data))
                    # exactly data minus the model image returned for the same arguments (one subtraction: bit-exact)
                    if rv.shape != dv.shape or not np.array_equal(rv, dv - val):
                        acc.violation('residual', f'{tag}:{fname}', case2,
                                      float(np.abs(rv - (dv - val)).max()) if rv.shape == dv.shape else rv.shape, 0.0,
                                      'residual image != data - model image')


def run_psfphot_config(acc, cfg, seed):
    import astropy.units as u
    from astropy.nddata import NDData, StdDevUncertainty
    from astropy.table import QTable
    from photutils.background import LocalBackground, MedianBackground
    from photutils.psf import PSFPhotometry, SourceGrouper
    which = cfg['which']
    flux = cfg.get('flux', 'fit')
    psf, img, init = _scene(which, cfg['lbsrc'], seed, flux)
    # the reference keeps its own pristine model
    fitmodel = psf.copy()
    if flux != 'fit':
        fitmodel.flux.fixed = True
    ph = PSFPhotometry(fitmodel, (5, 5), aperture_radius=3,
                       grouper=SourceGrouper(4.0) if cfg['grouper'] == 'grouper' else None,
                       localbkg_estimator=(LocalBackground(3.5, 6.5, MedianBackground())
                                           if cfg['lbsrc'] == 'estimator' else None))
    base = dict(cfg, kind='psfphot')
    try:
        if which == 'units':
            initq = QTable({'x': init['x'], 'y': init['y'], 'flux': np.array(init['flux']) * u.Jy})
            if 'local_bkg' in init.colnames:
                initq['local_bkg'] = np.array(init['local_bkg']) * u.Jy
            with warnings.catch_warnings():
                warnings.simplefilter('ignore')
                res = ph(img * u.Jy, init_params=initq)
            forms = {'quantity': img * u.Jy, 'nddata_unit': NDData(img.copy(), unit=u.Jy)}
        else:
            with warnings.catch_warnings():
                warnings.simplefilter('ignore')
                res = ph(img, init_params=init)
            forms = {'ndarray': img.copy(),
                     'nddata': NDData(img.copy()),
                     'nddata_mask_unc': NDData(img.copy(), mask=img > 20, uncertainty=StdDevUncertainty(np.ones(img.shape)))}
    except Exception as e:
        acc.case(nontrivial=False)
        acc.violation('psfphot-call-raises', f'{which}:{type(e).__name__}', base, repr(e), 'a results table')
        return
    if cfg['grouper'] == 'grouper':
        gid = [int(g) for g in res['group_id']]
        if not (gid[0] == gid[2] and gid[1] != gid[0]):
            raise RuntimeError(f'psfphot scene: rows 0 and 2 are expected to form a group around row 1, got {gid}')
    lb = np.asarray(getattr(res['local_bkg'], 'value', res['local_bkg']), float)
    ff = np.asarray(getattr(res['flux_fit'], 'value', res['flux_fit']), float)
    zero_row = bool(np.any((ff == 0) & (lb != 0)))      # measured on the PUBLIC results table
    acc.counters['psfphot_configs'] += 1
    acc.counters['psfphot_configs_with_distinct_local_bkg_per_source'] += int(len(set(lb.tolist())) == len(lb))
    acc.counters['psfphot_configs_with_a_row_flux_fit==0_and_local_bkg!=0'] += int(zero_row)
    acc.counters['psfphot_configs_with_a_negative_flux_fit'] += int(bool(np.any(ff < 0)))
    # a fixed-degenerate configuration counts as non-trivial only if the zero-flux row really is in the table
    _check_images(acc, ph, res, psf, forms, f'psfphot-{which}' + (':zero-flux-row' if zero_row else ''), base_case=base,
                  nontrivial=(flux == 'fit' or zero_row))


def run_psfphot(acc, which, seed):
    for cfg in psfphot_configs():
        if cfg['which'] == which:
            run_psfphot_config(acc, cfg, seed)


# IterativePSFPhotometry: full product of the configuration axes that decide WHICH rows and WHICH local backgrounds the
# model image is assembled from (per-iteration tables in mode 'new', the last iteration in mode 'all')
IT_SCENES = ('A', 'B')
IT_BKG = ('flat', 'slope')
IT_LOCALBKG = ('none', 'estimator')
IT_MODES = ('new', 'all')
IT_GROUPER = ('none', 'grouper')
IT_INIT = ('finder', 'init+finder')


def iterative_configs():
    for sc in IT_SCENES:
        for bk in IT_BKG:
            for lb in IT_LOCALBKG:
                for mode in IT_MODES:
                    for grp in IT_GROUPER:
                        if mode == 'all' and grp == 'none':
                            continue        # documented ValueError: mode 'all' requires a grouper
                        for init in IT_INIT:
                            yield {'scene': sc, 'bkg': bk, 'localbkg': lb, 'mode': mode, 'grouper': grp, 'init': init}


def _iter_scene(sc, bk, seed):
    """A: 15x17, bright star + faint close companion + isolated star; B: 19x23, two such pairs + two isolated stars.
    The companions are found only after their bright neighbour has been subtracted (second iteration).
    'slope': a linear background so that a local-background estimator returns a different value for every source."""
    from photutils.psf import CircularGaussianPRF
    psf = CircularGaussianPRF(fwhm=2.5)
    if sc == 'A':
        shape = (15, 17)
        xs, ys, fs = [8.2, 10.9, 3.1], [7.4, 8.6, 2.9], [400.0, 40.0, 150.0]
        init = ([8.0, 3.0], [7.0, 3.0], [350.0, 120.0], [0.7, 0.3])
    else:
        shape = (19, 23)
        xs, ys = [6.2, 8.9, 16.3, 18.6, 4.1, 12.4], [5.4, 6.7, 12.8, 14.3, 14.6, 3.2]
        fs = [400.0, 45.0, 300.0, 40.0, 200.0, 250.0]
        init = ([6.0, 16.0, 12.0], [5.0, 13.0, 3.0], [350.0, 280.0, 200.0], [0.7, 0.3, 0.5])
    img, _ = ref_render(shape, psf, xs, ys, fs, [0.0] * len(xs), (11, 11))
    rng = np.random.default_rng(seed + 181)
    img = img + 0.01 * rng.random(shape)
    if bk == 'slope':
        yy, xx = np.mgrid[0:shape[0], 0:shape[1]]
        img = img + 4.0 + 0.12 * xx + 0.05 * yy
    return psf, img, init


def run_iterative_config(acc, cfg, seed):
    from astropy.table import Table
    from photutils.background import LocalBackground, MedianBackground
    from photutils.detection import DAOStarFinder
    from photutils.psf import IterativePSFPhotometry, SourceGrouper
    psf, img, init = _iter_scene(cfg['scene'], cfg['bkg'], seed)
    finder = DAOStarFinder(2.0, 2.5, exclude_border=True)
    it = IterativePSFPhotometry(psf.copy(), (5, 5), finder=finder,
                                grouper=SourceGrouper(4.0) if cfg['grouper'] == 'grouper' else None,
                                localbkg_estimator=(LocalBackground(3.5, 6.5, MedianBackground())
                                                    if cfg['localbkg'] == 'estimator' else None),
                                aperture_radius=3, maxiters=3, mode=cfg['mode'])
    kw = {}
    if cfg['init'] != 'finder':
        # first iteration from a user table WITH a local_bkg column (documented: used instead of the estimator)
        kw['init_params'] = Table({'x': init[0], 'y': init[1], 'flux': init[2], 'local_bkg': init[3]})
    base = dict(cfg, kind='iterative')
    try:
        with warnings.catch_warnings():
            warnings.simplefilter('ignore')
            res = it(img, **kw)
    except Exception as e:
        acc.case(nontrivial=False)
        acc.violation('iterative-call-raises', type(e).__name__, base, repr(e), 'a results table')
        return
    if res is None or len(res) < 2:
        raise RuntimeError(f'iterative scene found fewer than two sources: {cfg}')
    counts = [len(r._fit_model_params) for r in it.fit_results]     # evidence only (never used by the oracle)
    lb = np.asarray(getattr(res['local_bkg'], 'value', res['local_bkg']), float)
    acc.counters[f'iterative_{cfg["mode"]}_configs'] += 1
    acc.counters[f'iterative_{cfg["mode"]}_configs_with>=2_fitting_iterations'] += int(len(counts) >= 2)
    acc.counters[f'iterative_{cfg["mode"]}_configs_with_different_counts_per_iteration'] += int(len(set(counts)) >= 2)
    acc.counters[f'iterative_{cfg["mode"]}_configs_with_distinct_local_bkg_per_source'] += int(len(set(lb.tolist())) == len(lb))
    tag = f'iterative-{cfg["mode"]}:localbkg={"distinct" if len(set(lb.tolist())) > 1 else "uniform"}'
    _check_images(acc, it, res, psf, {'ndarray': img.copy()}, tag, base_case=base, shape=img.shape,
                  nontrivial=len(counts) >= 2)


def run_iterative(acc, seed, part=None):
    for j, cfg in enumerate(iterative_configs()):
        if part is None or j % part[1] == part[0]:
            run_iterative_config(acc, cfg, seed)


def run_psfmodelimage(acc, seed):
    from photutils.datasets import make_model_image
    from photutils.psf import CircularGaussianPRF, GaussianPRF, make_psf_model_image
    for mi, model in enumerate((CircularGaussianPRF(fwhm=2.5), GaussianPRF(x_fwhm=2.0, y_fwhm=3.0, theta=20.0), make_model('imagepsf'))):
        for shape in ((21, 25), (12, 12)):
            for ms in ((7, 7), (5, 9), None):
                for n in (1, 4):
                    for s in (0, 5):
                        case = {'kind': 'psfmodelimage', 'model': mi, 'shape': list(shape), 'model_shape': ms,
                                'n_sources': n, 'seed_arg': s}
                        acc.case(nontrivial=True, sample=case if acc.evaluations % 11 == 0 else None)
                        try:
                            with warnings.catch_warnings():
                                warnings.simplefilter('ignore')
                                data, params = make_psf_model_image(shape, model, n, model_shape=ms, flux=(50, 100),
                                                                    min_separation=2, seed=s)
                        except Exception as e:
                            if isinstance(e, ValueError) and 'border_size is too large' in str(e):
                                acc.skip('make_psf_model_image: border_size too large for the shape (documented ValueError)')
                                continue
                            acc.violation('psfmodelimage-raises', type(e).__name__, case, repr(e), None)
                            continue
                        acc.outcome(np.asarray(data).tobytes())
                        again = make_model_image(shape, model, params, model_shape=ms)
                        lb = np.zeros(len(params))
                        ref, mag = ref_render(shape, model, params['x_0'], params['y_0'], params['flux'], lb, ms)
                        if not np.array_equal(data, again):
                            acc.violation('psfmodelimage-vs-make_model_image', f'model{mi}', case,
                                          float(np.abs(data - again).max()), 0.0)
                        if (np.abs(data - ref) > 8 * EPS * mag + 1e-300).any():
                            acc.violation('psfmodelimage-superposition', f'model{mi}', case,
                                          float(np.abs(data - ref).max()), 0.0)


# ---------------------------------------------------------------------------- replay / describe
def replay(case, seed):
    acc = Acc()
    kind = case['kind']
    if kind == 'table':
        from photutils.datasets import make_model_image
        cfg = Config(case['image'], case['model'], case['model_shape'], case['local_bkg'], case['discretize'])
        check_table(acc, cfg, tuple(case['rows']), make_model_image)
    elif kind == 'psfphot':
        run_psfphot_config(acc, {k: case[k] for k in ('which', 'lbsrc', 'grouper', 'flux') if k in case}, seed)
    elif kind == 'iterative':
        run_iterative_config(acc, {k: case[k] for k in ('scene', 'bkg', 'localbkg', 'mode', 'grouper', 'init')}, seed)
    else:
        run_psfmodelimage(acc, seed)
    return acc


def describe(tier, seed):
    cf = configs(tier)
    return {'alphabet': {'images': {k: list(v) for k, v in SHAPES.items()},
                         'row positions (x, y)': {k: [list(p) for p in v] for k, v in ROWS.items()},
                         'models': list(MODELS), 'model_shape modes': list(MSHAPES), 'local_bkg': list(LBMODES),
                         'discretize': list(DISC), 'configurations': len(cf),
                         'core configurations (3-row tables in quick)': len(CORE),
                         'tables per configuration': {'1..2 rows': '9+81 (9x11) / 6+36 (1x5)',
                                                      '1..3 rows': '819 (9x11) / 258 (1x5)'},
                         'value alphabet (second table family, image 9x11)': {
                             'positions (x, y)': dict(zip(VPOS_NAMES, [list(p) for p in VPOS])),
                             'flux/amplitude value kinds': {k: [None if v != v else v for v in _VVAL[k]] for k in VKINDS},
                             'local_bkg of the 16 row types (column present)': LBKG['val9x11'],
                             'per-row model_shape column by position': [list(v) for v in _VSHAPE2D],
                             'model_shape modes': list(VMSHAPES), 'models': list(MODELS), 'local_bkg': list(LBMODES),
                             'discretize': list(DISC), 'configurations': len(value_configs(tier)),
                             'core configurations (3-row tables in quick)': len(VCORE),
                             'tables per configuration': {'1..2 rows': 16 + 256, '1..3 rows': 16 + 256 + 4096}},
                         'psf photometry': {'psf_shape': [None, 5, [5, 7], [4, 6]], 'include_localbkg': [False, True],
                                            'output shapes': 'data shape (15x17; iterative scene B: 19x23) and 5 px smaller',
                                            'PSFPhotometry configurations': list(psfphot_configs()),
                                            'IterativePSFPhotometry configurations': {
                                                'scene': list(IT_SCENES), 'background': list(IT_BKG),
                                                'localbkg_estimator': list(IT_LOCALBKG), 'mode': list(IT_MODES),
                                                'grouper': list(IT_GROUPER), 'first iteration': list(IT_INIT),
                                                'count': len(list(iterative_configs()))},
                                            'data forms': ['ndarray', 'NDData', 'NDData+mask+uncertainty', 'Quantity', 'NDData with unit']}}}
