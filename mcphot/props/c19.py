"""C19 -- radial profiles and curves of growth are consistent with aperture photometry.

Two parts.

(C) full product image x centre x radii x (user mask x non-finite input x
    cover) x error x method (x units) for ``CurveOfGrowth`` and
    ``RadialProfile``; the centre x radii alphabet has a general part (five
    centres x radii lists, including circles larger than the image) and an
    image-edge part built from the geometry of the (non-square) pixel grid:
    centres 4.5 / 4.2 px from each of the four true edges (-0.5, n - 0.5) and
    the four corners, with radii that end the circle 1, 0.75, ... px before,
    exactly on, and ... 0.75, 1 px beyond that edge (so also on the naive
    edges 0 / n / n - 1 and in the quarter-pixel windows between them); non-finite pixels (NaN, +inf, -inf in the data; NaN,
    +inf in the error map at pixels with finite data; both) occur without a
    user mask, with a user mask that does not cover them and with one that
    does -- they are documented to be masked automatically, so the reference
    masks them in every combination.  Against an independent reference:
    pixel weights of every circle (polygon-disk line integral for 'exact',
    counted (sub)pixel centres for 'center'/'subpixel', ties judged with their
    ambiguity), flux = sum w*d over unmasked finite pixels, area = sum w,
    error^2 = sum w*sigma^2; RadialProfile = differences of consecutive
    circles; constant image -> the constant; non-negative data -> monotone
    curve of growth; encircled-energy interpolators invert each other on the
    maximal strictly increasing prefix.  The whole product runs in BOTH image
    orientations: the wide scene (21 rows x 23 columns) and the same scene
    transposed (23 x 21, centre (yc, xc)); each is compared with reference
    numbers computed for its own shape, so the two orientations also agree with
    each other (transposition relation) within twice the stated tolerances.
    For RadialProfile the raw data profile (data_radius, data_profile) of the
    fresh object is compared, as a multiset of (radius, value) pairs, with the
    image pixels within the largest radius (documented definition).

(P) single-bad-pixel alphabet: exactly ONE pixel of the scene is bad -- True in
    the user's mask, or a non-finite value of the data, or a non-finite value
    of the error map -- and it is placed at EVERY position of the bounding
    region of the largest circle (all covered pixels including the outermost
    partially covered column / row on each of the four sides, plus one ring of
    pixels outside the circle), for integer / half-integer / generic centres
    (and two whose region is clipped by an image corner) x integer / fractional
    / half-integer largest radius x method x class.  Same oracle as (C): the
    independent masked aperture-photometry reference; a bad pixel outside the
    largest circle must change nothing, one on the rim must be left out with
    its partial weight.  A shortcut that decides from a neighbourhood of the
    source whether the mask matters is judged at every boundary of that
    neighbourhood.

(A) explicit-state BFS (mcphot.explorer) over histories of
    normalize('max') / normalize('sum') / unnormalize() / first reads of
    profile, profile_error, data_profile and (CurveOfGrowth) array-valued
    calls of calc_ee_at_radius(sampled radii) / calc_radius_at_ee(curve values
    on the increasing prefix) on the real object: each interpolator call must
    return what a fresh object in the same normalisation state has (the curve
    of that state / the sampled radii), in every CurveOfGrowth state the
    round-trip clause is judged again, and in every state
    profile and profile_error equal raw / (product of the normalisations) and
    whenever the object is un-normalised ALL arrays (profile, profile_error,
    data_profile, area, radius) equal those of a fresh object (normalize
    followed by unnormalize restores every array whenever each array was first
    read).  Roots: class x error map x units x sign structure of the image
    (positive / all negative / max > 0 but sum < 0 / all zero / NaN bin), so
    that the normalisation constants take both signs, zero, and skip NaNs,
    x geometry (largest circle inside a wide image / leaving the right and
    upper edge of a wide image / of a tall image): normalize and unnormalize
    evaluate data_profile themselves when it was not read before, on a footprint
    clipped by the image in either orientation.  data_radius is compared with
    the fresh object in every state.
"""
import itertools
import math
import warnings

import numpy as np

from ..explorer import _mk_report, build, explore
from ..ref.c19_apweights import data_points, match_points, weights
from ..runner import Acc
from ..snapshot import key as state_key

PROPERTY = 'C19'
LEVEL = 'exploration'
RULE = ('(C) full product: orientation {wide: 21 rows x 23 columns, tall: the transposed scene, 23 x 21, data.T / '
        'error.T / mask.T with the centre (yc, xc); the side named by a centre refers to the wide scene, on the tall one '
        'left<->bottom and right<->top} x image {non-negative, signed, constant, ring} x [centre {middle, half-pixel, generic, 2 px '
        'from the edge, 1 px outside} x radii {integers from 0, integers from 1, non-uniform from 0, 20 fine steps, '
        'beyond the image: a circle leaving on all four sides and circles containing the whole image} + image-edge '
        'geometry on the 21 x 23 (not square) image: centre {4.5 px (a pixel centre), 4.2 px (generic)} from the true '
        'pixel-grid edge x edge {left, right, bottom, top}, and the 4 corners at (4.5, 3.5) px, each with the radii '
        '0, 2 and (edge distance + o), o in {-1, -0.75, ..., +0.75, +1}: the circle ends before / on / beyond the '
        'true edge (-0.5, n-0.5), on the naive edges half a pixel inside and outside it (0 or n-1, n or -1) and in '
        'the open quarter-pixel windows between them; thorough: those 12 centres also x all general radii lists] x '
        'error {none, map} x [user mask {none, wedge} x non-finite input {none, data (NaN, +inf, -inf pixels), error map '
        '(NaN, +inf at pixels with finite data), both} x cover {non-finite pixels outside the user mask, also True in '
        'the user mask}] (16 existing combinations: non-finite error needs an error map, cover needs a user mask and '
        'non-finite pixels; the reference masks user mask | non-finite data | non-finite error) x method {exact, '
        'center, subpixel 5, subpixel 2} '
        'x class {CurveOfGrowth, RadialProfile} (+ units on the exact method); in every RadialProfile case data_radius / '
        'data_profile of the fresh object are compared as a multiset of (radius, value) pairs with ALL image pixels '
        'within the largest radius (found by a loop over the whole image; required: unmasked finite pixels certainly '
        'inside; either decision accepted: pixels within 1e-12 (1 + rmax) of the circle, masked or non-finite pixels); '
        'a case is non-trivial when the '
        'largest circle is cut by the image edge (true extent [-0.5, n-0.5]) or by masked pixels, or the radii are '
        'not uniform. '
        '(P) single bad pixel, full product: centre {pix-int (11, 9), pix-half (11.5, 9.5), pix-generic (10.3, 11.8), '
        'pix-lowcorner (2.3, 1.8), pix-highcorner (19.7, 18.2): the last two have the bounding region of the largest '
        'circle clipped by the image} x radii list with largest radius {3 (integer), 3.4 (fractional), 3.5 '
        '(half-integer: with an integer centre the circle touches a pixel edge); thorough: also 3.7 and 4.25 with '
        'other inner radii} x position of the ONE bad pixel {every pixel of columns floor(xc - rmax) - 1 .. '
        'ceil(xc + rmax) + 1 x rows floor(yc - rmax) - 1 .. ceil(yc + rmax) + 1 inside the image: every pixel the '
        'largest circle meets, including the outermost partially covered column / row on all four sides, and a ring '
        'of pixels outside it; the unit asserts that enclosure} x kind {that pixel True in an otherwise False user mask, '
        'data NaN, data +inf, error-map NaN (no user mask in the last three); thorough: also data -inf, error +inf} x '
        'method {exact, center, subpixel 5, subpixel 2} x class {CurveOfGrowth, RadialProfile} (image nonneg, error map '
        'always given; quick: wide orientation, thorough: both orientations); every other pixel is unmasked and finite; '
        'oracle as in (C) with the reference masking exactly that pixel; a (P) case is non-trivial when the bad pixel '
        'has weight in the largest circle; the site of a violation names user-masked / non-finite and the position '
        'class of the pixel relative to the largest circle (outside / rim / inside). '
        '(A) BFS over histories of normalize(max|sum)/unnormalize/first reads/(CurveOfGrowth) calc_ee_at_radius(all '
        'sampled radii)/calc_radius_at_ee(curve values on the strictly increasing prefix) from the full product of roots class '
        '{RadialProfile, CurveOfGrowth} x error map {yes, no} x units {no, yes} x image {positive (max>0, sum>0), '
        'all-negative (max<0, sum<0), positive core on a negative pedestal (max>0, sum<0), all-zero (cannot be '
        'normalised: no-op), positive with a fully masked annulus (NaN bin)} x geometry {inside: largest circle inside '
        'an 11 x 13 (rows x columns) image, corner-wide: it leaves the right and the upper edge of that image, '
        'corner-tall: the transposed corner scene, 13 x 11} = 120 roots (thorough); quick: geometry inside x all other '
        'axes (40 roots) + the two corner geometries x all other axes with units off (40 roots); an array of the fresh '
        'object that cannot be read is a violation of its own; in every state profile, '
        'profile_error, (data_profile when un-normalised), area, radius and (RadialProfile) data_radius are compared with the fresh object '
        'scaled by the product of the (signed) normalisation constants; an interpolator call must return the curve of '
        'the current normalisation state / the sampled radii, and in every CurveOfGrowth state '
        'calc_radius_at_ee(calc_ee_at_radius(r_i)) = r_i on the strictly increasing prefix of the curve shown in that '
        'state; a history is non-trivial when it contains a '
        'normalize (and the root can be normalised); states are digests of the complete instance __dict__ (helper '
        'objects of scipy kept on the instance, e.g. a cached interpolator, enter with their knots and coefficients).')
ASSUMPTIONS = ['numpy, scipy PchipInterpolator are trusted; photutils.geometry kernels are NOT used by the reference',
               'exact-method weights of photutils are accurate to 1e-8 per pixel (C01 decides that)',
               'a state of a profile object is its __dict__ (a scipy helper object stored there counts with its own '
               '__dict__ and public knots/coefficients x, c, extrapolate, axis); equal digests have equal futures',
               'non-finite pixels of the data or of the error map are documented to be masked automatically, with or '
               'without a user mask: the reference treats them exactly like user-masked pixels',
               '(P): a single non-finite pixel of the data or of the error map anywhere in the image is masked automatically '
               '(same documented rule), also when it lies outside every circle; the reference gives it weight 0',
               'the raw data profile (data_radius, data_profile) is, as documented, the set of image pixels whose centre lies '
               'within the largest radius, in unspecified order; whether masked / non-finite pixels appear in it is not '
               'specified (accepted either way)',
               'while a profile is normalised by a NEGATIVE constant the sign of profile_error is not specified by the '
               'property: only its magnitude is compared in normalised states; after unnormalize every array must '
               'equal the fresh one, sign included']

EPS = np.finfo(float).eps
SHAPE = (21, 23)          # (ny, nx): not square, so that a test mixing up nx and ny shows
# orientation axis: 'wide' is the scene as built below (21 rows x 23 columns, nx > ny); 'tall' is the TRANSPOSED scene
# (23 rows x 21 columns, ny > nx): data.T, error.T, mask.T and the centre (yc, xc).  A mix-up of the two axes that is
# harmless in one orientation (clipping with the larger extent) is an out-of-range index or a lost strip in the other.
ORIENTS = ('wide', 'tall')


def shape_of(orient):
    return SHAPE if orient == 'wide' else SHAPE[::-1]


def centre_of(cname, orient='wide'):
    xc, yc = ALL_CENTRES[cname]
    return (xc, yc) if orient == 'wide' else (yc, xc)


def orient_of(case):
    o = case.get('orient', 'wide')
    if o not in ORIENTS:
        raise ValueError(o)
    return o
CENTRES = {'middle': (11.0, 10.0), 'half': (11.5, 9.5), 'generic': (10.3, 11.7), 'edge2': (2.0, 10.0), 'outside': (-1.0, 10.0)}
RADII = {'int0': [0, 1, 2, 3, 4, 5, 6, 7], 'int1': [1, 2, 3, 4, 5, 6, 7], 'nonuniform': [0, 0.7, 1.5, 3.1, 4.0, 7.3],
         'fine': [round(0.1 + 0.1 * k, 10) for k in range(20)]}
# 'beyond': circles that leave the image on all four sides (r = 13 from the middle) and circles that contain the whole
# image (r = 18, 40: the far corner is <= 15.6 px from the four inner centres, 29 px from 'outside')
RADII['beyond'] = [0, 6, 13, 18, 40]
RADII_THOROUGH = dict(RADII, wide=[0, 2, 5, 9, 12.5], fine2=[round(0.25 * k, 10) for k in range(1, 25)])

# ---- image-edge geometry: centres near each of the four edges / corners with radii built from the edge distance.
# The pixel grid of an (ny, nx) image spans [-0.5, nx - 0.5] x [-0.5, ny - 0.5] (the TRUE edges); the naive extents
# [0, n] and [0, n - 1] (pixel-centre range) lie half a pixel beyond / inside them.  For a centre at distance D from a
# true edge the radii D + o, o in EDGE_OFFSETS, put the extreme point of the circle at outward distance o from that
# true edge: o = -0.5 / +0.5 are the two naive edges, 0 the true one, +-0.25 / +-0.75 the open windows between and
# around them, +-1 the next pixel centres / edges.
EDGE_OFFSETS = (-1.0, -0.75, -0.5, -0.25, 0.0, 0.25, 0.5, 0.75, 1.0)
EDGE_DIST = {'px': 4.5, 'gen': 4.2}         # distance of the centre from the true edge: a pixel centre / a generic point
EDGE_OTHER = {'px': (11.0, 10.0), 'gen': (11.3, 10.4)}   # (x, y) used for the coordinate along the edge (mid image)
CORNER_DIST = (4.5, 3.5)                   # corners: (distance in x, distance in y), both pixel centres


def _edge_centres():
    ny, nx = SHAPE
    cen, rad = {}, {}
    for kind, D in EDGE_DIST.items():
        ox, oy = EDGE_OTHER[kind]
        for sd, xy in (('left', (-0.5 + D, oy)), ('right', (nx - 0.5 - D, oy)),
                       ('bottom', (ox, -0.5 + D)), ('top', (ox, ny - 0.5 - D))):
            name = f'{sd}-{kind}'
            cen[name] = (round(xy[0], 10), round(xy[1], 10))
            rad[name] = [0, 2] + [round(D + o, 10) for o in EDGE_OFFSETS]
    dx, dy = CORNER_DIST
    for sy, yc in (('bottom', -0.5 + dy), ('top', ny - 0.5 - dy)):
        for sx, xc in (('left', -0.5 + dx), ('right', nx - 0.5 - dx)):
            name = f'{sy}-{sx}-corner'
            cen[name] = (xc, yc)
            rad[name] = [0, 2] + sorted({round(d + o, 10) for d in CORNER_DIST for o in EDGE_OFFSETS})
    return cen, rad


EDGE_CENTRES, EDGE_RADII = _edge_centres()

# ---- (P) single-bad-pixel alphabet: ONE masked / non-finite pixel, at every position of the bounding region of the
# largest circle.  Centres: integer / half-integer / generic in both coordinates (xc != yc, so x and y cannot be mixed
# up unnoticed) and two generic centres whose bounding region is clipped by the low-left / high-right image corner.
# Largest radius: integer / fractional / half-integer (with an integer centre the circle then touches a pixel edge);
# thorough adds two more fractional ones.  With these centres frac(c +- rmax) takes the values 0, .5 and both open
# halves (0, .5), (.5, 1) on the low AND on the high side in x and in y (listed by describe()).
PIX_CENTRES = {'pix-int': (11.0, 9.0), 'pix-half': (11.5, 9.5), 'pix-generic': (10.3, 11.8),
               'pix-lowcorner': (2.3, 1.8), 'pix-highcorner': (19.7, 18.2)}
PIX_RADII = {'pix:int': [0, 1, 2, 3], 'pix:frac': [0, 1, 2, 3.4], 'pix:halfint': [0, 1, 2, 3.5]}
PIX_RADII_THOROUGH = dict(PIX_RADII, **{'pix:frac2': [0, 1.3, 2.6, 3.7], 'pix:big': [0, 2, 4.25]})
# what the single bad pixel is: True in the user's mask (all else False) / a non-finite value of the data (no user
# mask) / a non-finite value of the error map at a pixel with finite data (no user mask)
PIX_KINDS = {'mask': None, 'data-nan': float('nan'), 'data-inf': float('inf'), 'error-nan': float('nan')}
PIX_KINDS_THOROUGH = dict(PIX_KINDS, **{'data-ninf': float('-inf'), 'error-inf': float('inf')})

ALL_CENTRES = dict(CENTRES, **EDGE_CENTRES, **PIX_CENTRES)
PRODUCT_CENTRES = list(CENTRES) + list(EDGE_CENTRES)          # centres of part (C)
RADII_ALL = dict(RADII_THOROUGH, **{f'edge:{c}': r for c, r in EDGE_RADII.items()}, **PIX_RADII_THOROUGH)


def pixel_region(cname, rname):
    """Pixel positions (iy, ix) (wide scene) of the single bad pixel: the bounding region of the largest circle,
    columns floor(xc - rmax) - 1 .. ceil(xc + rmax) + 1 and the same in y, clipped to the image.  It holds every
    pixel the circle meets (the outermost partially covered column / row on all four sides: index round(c +- rmax),
    which lies within floor(c - rmax) .. ceil(c + rmax)) and one more ring of pixels certainly outside it."""
    ny, nx = SHAPE
    xc, yc = ALL_CENTRES[cname]
    rmax = float(RADII_ALL[rname][-1])
    xs = range(max(int(math.floor(xc - rmax)) - 1, 0), min(int(math.ceil(xc + rmax)) + 1, nx - 1) + 1)
    ys = range(max(int(math.floor(yc - rmax)) - 1, 0), min(int(math.ceil(yc + rmax)) + 1, ny - 1) + 1)
    return [(iy, ix) for iy in ys for ix in xs]
IMAGES = ('nonneg', 'signed', 'const', 'ring')
MASKS = ('none', 'wedge')                          # the user's mask argument
NONFINITE = ('none', 'data', 'error', 'both')      # which input carries non-finite pixels (documented: masked automatically)
COVER = ('uncovered', 'covered')                   # are the non-finite pixels also True in the user's mask ('-' when not applicable)
ERRORS = ('none', 'map')
# (dy, dx) from the pixel nearest the centre, value.  Every offset has dy <= -1: the pixel lies below the centre, so it
# is never inside the wedge mask (polar angle 0.3 .. 1.4 rad) nor the extra wedge pixel (dy = 0); the pixels are distinct
# for every centre of the alphabet (asserted), so a non-finite ERROR pixel always has finite data.
BAD_DATA = (((-1, 2), float('nan')), ((-2, -1), float('inf')), ((-3, -2), float('-inf')))
BAD_ERROR = (((-1, -1), float('nan')), ((-4, 1), float('inf')))
METHODS = {'exact': ('exact', 5), 'center': ('center', 5), 'subpixel5': ('subpixel', 5), 'subpixel2': ('subpixel', 2)}
CONST = 3.25


def rng_for(seed, *tag):
    return np.random.default_rng([int(seed) + 1900] + [int(t) for t in tag])


def make_image(kind, cname, seed):
    ny, nx = SHAPE
    yy, xx = np.mgrid[0:ny, 0:nx]
    xc, yc = ALL_CENTRES[cname]
    r = np.hypot(xx - xc, yy - yc)
    if kind == 'const':
        return np.full(SHAPE, CONST)
    rng = rng_for(seed, 1, IMAGES.index(kind))
    if kind == 'nonneg':
        return 5.0 * np.exp(-r ** 2 / 8.0) + rng.random(SHAPE)
    if kind == 'signed':
        return 5.0 * np.exp(-r ** 2 / 8.0) + rng.normal(0, 1.0, SHAPE)
    # ring: positive core, negative beyond r = 3.6 -> the curve of growth rises, then falls
    return np.where(r <= 3.6, 4.0 * np.exp(-r ** 2 / 6.0) + 0.2 + 0.1 * rng.random(SHAPE), -0.3 - 0.1 * rng.random(SHAPE))


def make_error(seed):
    return 1.0 + rng_for(seed, 2).random(SHAPE)


def bad_pixels(cname, offsets):
    ny, nx = SHAPE
    xc, yc = ALL_CENTRES[cname]
    return [((min(max(int(round(yc)) + dy, 0), ny - 1), min(max(int(round(xc)) + dx, 0), nx - 1)), v)
            for (dy, dx), v in offsets]


def mask_configs(evar):
    """Full product user mask x non-finite input x cover, restricted to the combinations that exist: non-finite
    error needs an error map; 'cover' needs a user mask and non-finite pixels."""
    for mvar in MASKS:
        for nf in NONFINITE:
            if nf in ('error', 'both') and evar == 'none':
                continue
            for cv in (COVER if (mvar != 'none' and nf != 'none') else ('-',)):
                yield mvar, nf, cv


def make_mask(case, data, error):
    """-> (mask argument or None, data, error, effective reference mask = user mask | non-finite data | non-finite error)."""
    ny, nx = SHAPE
    cname = case['centre']
    yy, xx = np.mgrid[0:ny, 0:nx]
    xc, yc = ALL_CENTRES[cname]
    user = None
    if case['mask'] == 'pixel':
        # (P): exactly one bad pixel; everything else unmasked and finite
        iy, ix = (int(v) for v in case['pixel'])
        kind = case['badkind']
        bad = np.zeros(SHAPE, bool)
        bad[iy, ix] = True
        if kind == 'mask':
            return bad.copy(), data, error, bad
        if kind.startswith('data-'):
            data = data.copy()
            data[iy, ix] = PIX_KINDS_THOROUGH[kind]
        elif kind.startswith('error-') and error is not None:
            error = error.copy()
            error[iy, ix] = PIX_KINDS_THOROUGH[kind]
        else:
            raise ValueError(kind)
        return None, data, error, bad
    if case['mask'] == 'wedge':
        ang = np.arctan2(yy - yc, xx - xc)
        user = (ang > 0.3) & (ang < 1.4) & (np.hypot(xx - xc, yy - yc) > 1.2)
        user[min(max(int(round(yc)), 0), ny - 1), min(max(int(round(xc)) + 1, 0), nx - 1)] = True
    elif case['mask'] != 'none':
        raise ValueError(case['mask'])
    nf = case.get('nonfinite', 'none')
    bad = np.zeros(SHAPE, bool)
    pd = bad_pixels(cname, BAD_DATA) if nf in ('data', 'both') else []
    pe = bad_pixels(cname, BAD_ERROR) if nf in ('error', 'both') else []
    if pe and error is None:
        raise ValueError('non-finite error pixels need an error map')
    if pd:
        data = data.copy()
    if pe:
        error = error.copy()
    for (y, x), v in pd:
        data[y, x] = v
        bad[y, x] = True
    for (y, x), v in pe:
        error[y, x] = v
        bad[y, x] = True
    if int(bad.sum()) != len(pd) + len(pe) or (user is not None and (user & bad).any()):
        raise RuntimeError(f'{cname}: non-finite pixels collide with each other or with the wedge')
    if user is None:
        return None, data, error, bad
    if case.get('cover') == 'covered':
        user = user | bad
    return user.copy(), data, error, user | bad


class Ref:
    """Reference aperture sums for one (centre, method): weight maps cached per radius."""

    def __init__(self, cname, mname, orient='wide'):
        self.shape = shape_of(orient)
        self.xc, self.yc = centre_of(cname, orient)
        self.method, self.sub = METHODS[mname]
        self.cache = {}
        self.pcache = {}

    def w(self, r):
        if r not in self.cache:
            self.cache[r] = weights(self.shape, self.xc, self.yc, float(r), self.method, self.sub)
        return self.cache[r]

    def points(self, rmax):
        """Pixels of the raw data profile (documented: the data points within the largest radius)."""
        if rmax not in self.pcache:
            self.pcache[rmax] = data_points(self.shape, self.xc, self.yc, float(rmax))
        return self.pcache[rmax]

    def box_clipped(self, rmax):
        """Does the bounding square of the largest circle leave the pixel-index range of the image?"""
        return (self.xc - rmax < 0 or self.yc - rmax < 0 or self.xc + rmax > self.shape[1] - 1
                or self.yc + rmax > self.shape[0] - 1)

    def overlaps(self, r):
        """Does the open disk meet the image area?  If not, aperture photometry documents NaN for the aperture
        (an all-zero sum is accepted as well: the property does not speak about circles off the image)."""
        return (r > 0 and self.xc + r > -0.5 and self.xc - r < self.shape[1] - 0.5
                and self.yc + r > -0.5 and self.yc - r < self.shape[0] - 0.5) or r <= 0

    def sums(self, r, values, good):
        """-> (sum of w*values over good pixels, tolerance).  tolerance = kernel accuracy (exact: 1e-8 per pixel
        of the footprint, see ASSUMPTIONS) + rounding of a <= 300-term sum + tie ambiguity."""
        if not self.overlaps(r):
            return float('nan'), 0.0
        w, amb = self.w(r)
        v = np.where(good, values, 0.0)
        s = float(np.sum(w * v))
        foot = (w > 0) | (amb > 0)
        tol = 512 * EPS * float(np.sum(w * np.abs(v))) + float(np.sum(amb * np.abs(v))) + 1e-300
        if self.method == 'exact':
            tol += 1e-8 * float(np.sum(np.abs(v)[foot]))
        return s, tol


def largest_inside(ref, radii):
    """Does the largest circle lie inside the true extent [-0.5, nx - 0.5] x [-0.5, ny - 0.5] of the pixel grid?"""
    r = float(radii[-1])
    return (ref.xc - r >= -0.5 and ref.yc - r >= -0.5 and ref.xc + r <= ref.shape[1] - 0.5
            and ref.yc + r <= ref.shape[0] - 0.5)


def cut_or_masked(ref, radii, good):
    w, amb = ref.w(radii[-1])
    return (not largest_inside(ref, radii)) or bool(((w > 0) & ~good).any())


def radii_of(case):
    """CurveOfGrowth documents radii > 0: the leading 0 of an alphabet entry is dropped for it."""
    r = RADII_ALL[case['radii']]
    return r[1:] if (case['cls'] == 'cog' and r[0] == 0) else r


def build_obj(cls, case, seed):
    """-> (object, data used, error used, good-pixel mask)"""
    import astropy.units as u
    data = make_image(case['image'], case['centre'], seed)
    error = make_error(seed) if case['error'] == 'map' else None
    mask, data, error, bad = make_mask(case, data, error)
    orient = orient_of(case)
    if orient == 'tall':
        # the transposed scene (fresh C-contiguous arrays: the memory layout is not an axis of this check)
        data = np.ascontiguousarray(data.T)
        error = None if error is None else np.ascontiguousarray(error.T)
        mask = None if mask is None else np.ascontiguousarray(mask.T)
        bad = np.ascontiguousarray(bad.T)
    d_in, e_in = data, error
    if case.get('unit'):
        d_in = data * u.Jy
        e_in = None if error is None else error * u.Jy
    method, sub = METHODS[case['method']]
    with warnings.catch_warnings():
        warnings.simplefilter('ignore')
        obj = cls(d_in, centre_of(case['centre'], orient), np.array(radii_of(case), dtype=float), error=e_in,
                  mask=None if mask is None else mask.copy(), method=method, subpixels=sub)
    return obj, data, error, ~bad


def _val(x):
    return np.asarray(getattr(x, 'value', x), dtype=float)


def check_profile(acc, case, seed, refs):
    from photutils.profiles import CurveOfGrowth, RadialProfile
    import astropy.units as u
    cls = CurveOfGrowth if case['cls'] == 'cog' else RadialProfile
    ref = refs[(case['centre'], case['method'], orient_of(case))]
    radii = radii_of(case)
    try:
        obj, data, error, good = build_obj(cls, case, seed)
        with warnings.catch_warnings():
            warnings.simplefilter('ignore')
            prof, perr, area, radius = obj.profile, obj.profile_error, obj.area, obj.radius
    except Exception as e:
        acc.case(nontrivial=True)
        acc.violation('profile-raises', f'{case["cls"]}:{type(e).__name__}', case, repr(e), 'a profile')
        return
    nontrivial = cut_or_masked(ref, radii, good) or case['radii'] in ('nonuniform', 'fine', 'wide', 'fine2')
    if case['centre'] in EDGE_CENTRES:
        acc.counters['edge_geometry_cases'] += 1
    acc.case(nontrivial=nontrivial, sample=case if acc.evaluations % 401 == 7 else None)
    unit = bool(case.get('unit'))
    for nm, arr in (('profile', prof), ('profile_error', perr)):
        if isinstance(arr, u.Quantity) != unit and not (nm == 'profile_error' and error is None):
            acc.violation('units', f'{case["cls"]}:{nm}', case, type(arr).__name__, 'Quantity' if unit else 'ndarray')
    prof, perr, area = _val(prof), _val(perr), _val(area)
    acc.outcome(prof.tobytes())
    # reference circles
    F, tF, A, tA, V, tV = [], [], [], [], [], []
    dfin = np.where(good, data, 0.0)
    for r in radii:
        s, t = ref.sums(r, dfin, good)
        F.append(s)
        tF.append(t)
        s, t = ref.sums(r, np.ones(ref.shape), good)
        A.append(s)
        tA.append(t)
        if error is not None:
            s, t = ref.sums(r, np.where(good, error, 0.0) ** 2, good)
            V.append(s)
            tV.append(t)
    F, tF, A, tA = map(np.array, (F, tF, A, tA))
    V, tV = np.array(V), np.array(tV)
    site0 = f'{case["cls"]}:{METHODS[case["method"]][0]}'
    nf = case.get('nonfinite', 'none')
    if case['mask'] == 'pixel':
        # (P) the single bad pixel: how it is bad (user mask / automatically masked non-finite value) and where it lies
        # relative to the LARGEST circle (reference weights): outside, fully inside, or on the partially covered rim
        iy, ix = case['pixel'] if orient_of(case) == 'wide' else case['pixel'][::-1]
        w, amb = ref.w(radii[-1])
        where = ('outside' if (w[iy, ix] == 0 and amb[iy, ix] == 0) else
                 ('inside' if w[iy, ix] >= 1 - 1e-12 else 'rim'))
        acc.counters['single_pixel_cases'] += 1
        acc.counters[f'single_pixel_cases_pixel_{where}_largest_circle'] += 1
        cov = np.nonzero((w > 0) | (amb > 0))
        if cov[0].size and (iy in (cov[0].min(), cov[0].max()) or ix in (cov[1].min(), cov[1].max())) and where != 'outside':
            acc.counters['single_pixel_cases_pixel_in_an_extreme_covered_row_or_column'] += 1
        pred = f'single-{"masked" if case["badkind"] == "mask" else "non-finite"}-pixel:{where}'
    elif nf != 'none':
        # which input is non-finite and whether a user mask is present as well (the automatic masking takes a
        # different path through the mask combination then)
        pred = f'nonfinite-{nf}' + ('' if case['mask'] == 'none' else f'+usermask-{case.get("cover")}')
    else:
        # 'near-edge' = a centre of the edge-geometry alphabet (circles end within +-1 px of an image edge; the first
        # = smallest reported case names the side); otherwise by the largest circle: inside the true pixel-grid
        # extent or cut by it
        pred = ('masked' if case['mask'] != 'none' else
                ('near-edge' if case['centre'] in EDGE_CENTRES else
                 ('interior' if largest_inside(ref, radii) else 'cut-by-edge')))

    def cmp(name, got, want, tol, sel=None):
        if got.shape != want.shape:
            acc.violation(f'{name}-shape', site0, case, got.shape, want.shape)
            return
        with np.errstate(all='ignore'):
            ok = np.abs(got - want) <= tol
        # reference NaN = circle off the image (or a bin between two such circles): NaN or 0 accepted
        ok |= np.isnan(want) & (np.isnan(got) | (got == 0))
        if sel is not None:
            ok |= ~sel
        if not ok.all():
            j = int(np.argmin(ok))
            acc.violation(name, f'{site0}:{pred}', case, got.tolist(), want.tolist(),
                          f'index {j}: got {got[j]!r}, reference {want[j]!r}, tolerance {tol[j]:.3g}')

    if case['cls'] == 'cog':
        if not np.array_equal(_val(radius), np.array(radii, float)):
            acc.violation('radius', site0, case, radius, radii)
        cmp('cog-profile', prof, F, tF)
        cmp('cog-area', area, A, tA)
        if error is not None:
            E = np.sqrt(V)
            tE = np.where(V > 0, tV / (2 * np.sqrt(np.where(V > 0, V, 1))) + 8 * EPS * E, np.sqrt(tV))
            cmp('cog-error', perr, E, tE)
        if case['image'] in ('nonneg', 'const'):
            # non-negative data => non-decreasing curve of growth
            d = np.diff(prof)
            bad = d < -(tF[1:] + tF[:-1])
            if bad.any():
                acc.violation('cog-monotone', site0, case, prof.tolist(), 'non-decreasing')
        check_ee(acc, case, obj, prof, np.array(radii, float))
        return
    # ---- RadialProfile
    check_data_profile(acc, case, obj, data, good, ref, radii, pred)
    rc = (np.array(radii[:-1], float) + np.array(radii[1:], float)) / 2
    if not np.allclose(_val(radius), rc, rtol=4 * EPS, atol=0):
        acc.violation('radius', site0, case, radius, rc)
    dA = np.diff(A)
    tdA = tA[1:] + tA[:-1]
    cmp('rp-area', area, dA, tdA)
    # rule (on the reference): bins with at least 0.05 px^2 of unmasked area; below that the quotient is ill-conditioned
    sel = dA >= 0.05
    dF = np.diff(F)
    tdF = tF[1:] + tF[:-1]
    with np.errstate(all='ignore'):
        P = dF / dA
        tP = (tdF + np.abs(P) * tdA) / np.where(sel, dA, 1) * 1.01 + 16 * EPS * np.abs(P)
    cmp('rp-profile', prof, P, tP, sel)
    if error is not None:
        dV = np.diff(V)
        tdV = tV[1:] + tV[:-1]
        with np.errstate(all='ignore'):
            E = np.sqrt(np.where(dV > 0, dV, 0)) / dA
            tE = (tdV / (2 * np.sqrt(np.where(dV > 0, dV, 1))) / np.where(sel, dA, 1) + np.abs(E) * tdA / np.where(sel, dA, 1)) * 1.01 + 16 * EPS * np.abs(E)
        # sigma >= 1 on every pixel, so dV >= dA >= 0.05 on the selected bins (sqrt well conditioned)
        cmp('rp-error', perr, E, tE, sel)
    if case['image'] == 'const':
        # a constant image yields that constant in every bin (with unmasked area)
        tc = (2 * tdA * CONST / np.where(sel, dA, 1)) * 1.01 + 64 * EPS * CONST + \
             (1e-8 * 60 * CONST / np.where(sel, dA, 1) if METHODS[case['method']][0] == 'exact' else 0)
        bad = sel & ~(np.abs(prof - CONST) <= tc)
        if bad.any():
            acc.violation('rp-constant', f'{site0}:{pred}', case, prof.tolist(), CONST,
                          f'bin {int(np.argmax(bad))}: {prof[int(np.argmax(bad))]!r} != {CONST}')


def check_data_profile(acc, case, obj, data, good, ref, radii, pred):
    """RadialProfile.data_radius / data_profile of the fresh object = the documented raw data profile: the (radius,
    value) pairs of the image pixels whose centre lies within the largest radius.  Compared as a multiset (the order
    is not specified); values are copies of the input pixels (bit-exact), radii one hypot (4 eps relative; clusters of
    1e-12 (1 + rmax) absorb that).  Required: every unmasked finite pixel certainly inside; optional (either
    decision accepted): pixels within 1e-12 (1 + rmax) of the circle, and masked / non-finite pixels (the property
    does not say whether the raw data profile shows them)."""
    rmax = float(radii[-1])
    try:
        with warnings.catch_warnings():
            warnings.simplefilter('ignore')
            got_r, got_v = _val(obj.data_radius), _val(obj.data_profile)
    except Exception as e:
        acc.violation('data-profile-raises', f'rp:{type(e).__name__}', case, repr(e),
                      'data_radius / data_profile of the pixels within the largest radius')
        return
    iy, ix, rr, cert = ref.points(rmax)
    acc.counters['data_profile_cases'] += 1
    acc.counters['data_profile_pixels'] += int(rr.size)
    if ref.box_clipped(rmax):
        acc.counters['data_profile_cases_box_clipped_by_image'] += 1
    # the raw data profile does not depend on the mask / error configuration: the site names the geometry only
    pred = 'near-edge' if case['centre'] in EDGE_CENTRES else ('box-clipped-by-image' if ref.box_clipped(rmax) else 'box-inside-image')
    if got_r.ndim != 1 or got_r.shape != got_v.shape:
        acc.violation('rp-data-profile', f'shape:{pred}', case, [list(got_r.shape), list(got_v.shape)],
                      'two 1D arrays of equal length')
        return
    required = cert & good[iy, ix]
    miss, extra, ex = match_points(got_r, got_v, rr, data[iy, ix], required, 1e-12 * (1.0 + rmax))
    if miss or extra:
        what = 'pixels-missing' if not extra else ('points-not-in-image' if not miss else 'mismatch')
        acc.violation('rp-data-profile', f'{what}:{pred}', case, {'returned pairs': int(got_r.size), 'missing': miss, 'unmatched': extra},
                      {'pixels within the largest radius': int(rr.size), 'required': int(required.sum())},
                      f'{orient_of(case)} image {list(ref.shape)}, centre ({ref.xc}, {ref.yc}), rmax {rmax}: {miss} required '
                      f'pixel(s) not returned, {extra} returned pair(s) match no pixel; first cluster {ex}')


def check_ee(acc, case, obj, prof, radii):
    """(C): the round-trip clause on the freshly built object of a product case."""
    def report(clause, site, observed=None, expected=None, detail=''):
        acc.violation(clause, site, case, observed, expected, detail)
    if ee_roundtrip(obj, prof, radii, report, acc.skip):
        acc.counters['ee_roundtrips'] += 1


def monotone_prefix(prof):
    """-> m: indices 0..m are the maximal strictly increasing prefix of the curve."""
    d = np.diff(prof) > 0
    return len(prof) - 1 if d.all() else int(np.argmin(d))


def ee_roundtrip(obj, prof, radii, report, skip):
    """calc_radius_at_ee(calc_ee_at_radius(r_i)) == r_i on the maximal strictly increasing prefix of ``prof`` (the
    object's current profile values).  -> True when the round trip was judged."""
    m = monotone_prefix(prof)
    if m + 1 < 2:
        skip('ee: curve not increasing at the smallest radii (documented ValueError)')
        return False
    p = prof[:m + 1]
    # well-posedness rule (on the input curve): every step of the prefix rises by at least 1e-6 of the maximum
    if np.min(np.diff(p)) < 1e-6 * np.max(np.abs(p)):
        skip('ee: nearly flat step in the monotone prefix (inverse interpolation ill-conditioned)')
        return False
    for i in range(m + 1):
        r = radii[i]
        try:
            ee = float(obj.calc_ee_at_radius(r))
        except Exception as e:
            report('ee-raises', f'calc_ee_at_radius:{type(e).__name__}', repr(e), None)
            return True
        if not (abs(ee - prof[i]) <= 8 * EPS * abs(prof[i])):
            report('ee-at-sample', 'calc_ee_at_radius', ee, prof[i], f'interpolator does not pass through sample {i}')
            continue
        if ee < p[0] or ee > p[-1]:
            skip('ee: sample value left the prefix range by rounding (documented NaN)')
            continue
        where = 'last-monotone-point' if i == m else ('first-point' if i == 0 else 'interior-point')
        try:
            back = float(obj.calc_radius_at_ee(ee))
        except Exception as e:
            report('ee-roundtrip', 'last-monotone-point' if m + 1 == 2 else f'raises:{type(e).__name__}',
                   repr(e), r, f'monotone prefix has {m + 1} samples; calc_radius_at_ee raised')
            return True
        # PCHIP through (p_j, r_j) evaluated within 8 eps of a knot: |dr| <= 3 max(dr/dp) 8 eps |p| <= 3*8*eps*1e6*dr
        # = 5e-9 dr with the rule above -> 1e-7 (1 + r_max)
        if not (abs(back - r) <= 1e-7 * (1 + radii[-1])):
            report('ee-roundtrip', where, back, r,
                   f'sample {i} of the strictly increasing prefix 0..{m}: radius_at_ee(ee_at_radius(r)) != r')
    return True


# ---------------------------------------------------------------------------- (A) histories
# roots = full product class x error map x units x sign structure of the image (= sign of the normalisation constants):
#   pos       positive source + positive noise                      max > 0, sum > 0
#   neg       the same minus 9: every pixel negative                max < 0, sum < 0
#   pedestal  the same minus 5: positive core on a negative level   max > 0, sum < 0
#   zero      all-zero image: max == sum == 0, documented "cannot be normalized" (normalize is a no-op)
#   nanbin    pos with every pixel of the annulus 2 <= r <= 3.5 masked: that RadialProfile bin has no area -> NaN
#             entry in profile / profile_error (max and sum are documented to ignore it)
H_IMAGES = {'pos': 0.0, 'neg': -9.0, 'pedestal': -5.0, 'zero': None, 'nanbin': 0.0}
H_SIGNS = {'pos': (1, 1), 'neg': (-1, -1), 'pedestal': (1, -1), 'zero': (0, 0), 'nanbin': (1, 1)}
H_RADII = [0.0, 1.0, 2.0, 3.5, 5.0]
# geometry of the root scene: (ny, nx), (xc, yc).  'inside': the largest circle (r = 5) lies inside a wide image;
# 'corner-wide' / 'corner-tall': it leaves the right-hand AND the upper edge of a wide (11 x 13) / tall (13 x 11) image
# (the tall scene is the wide one transposed), so the lazily evaluated arrays (data_profile is first evaluated INSIDE
# normalize / unnormalize when it was not read before) are built on a clipped footprint in both orientations.
H_GEOM = {'inside': ((11, 13), (6.2, 5.1)), 'corner-wide': ((11, 13), (9.6, 7.3)), 'corner-tall': ((13, 11), (7.3, 9.6))}
for _g, (_shp, (_x, _y)) in H_GEOM.items():
    _cut = _x + H_RADII[-1] > _shp[1] - 0.5 and _y + H_RADII[-1] > _shp[0] - 0.5
    assert _cut == (_g != 'inside') and _x - H_RADII[-1] > -0.5 and _y - H_RADII[-1] > -0.5, _g
ROOTS = {}
for _g in H_GEOM:
    for _img in H_IMAGES:
        for _cls in ('rp', 'cog'):
            for _err in (True, False):
                for _unit in (False, True):
                    ROOTS[f'{_cls}_{"err" if _err else "noerr"}{"_unit" if _unit else ""}_{_img}'
                          + ('' if _g == 'inside' else f'@{_g}')] = {
                        'cls': _cls, 'error': _err, 'unit': _unit, 'image': _img, 'geom': _g}


def _h_inputs(root, seed):
    import astropy.units as u
    spec = ROOTS[root]
    rng = rng_for(seed, 7)
    shape, (xc, yc) = H_GEOM[spec['geom']]
    tall = spec['geom'] == 'corner-tall'
    if tall:                          # built as the wide scene, transposed at the end
        shape, (xc, yc) = shape[::-1], (yc, xc)
    yy, xx = np.mgrid[0:shape[0], 0:shape[1]]
    data = 6.0 * np.exp(-((xx - xc) ** 2 + (yy - yc) ** 2) / 7.0) + rng.random(shape)
    noise = rng.random(shape)      # drawn for every root so that all roots share the same numbers
    err = (1.0 + noise) if spec['error'] else None
    off = H_IMAGES[spec['image']]
    data = np.zeros(shape) if off is None else data + off
    mask = None
    if spec['image'] == 'nanbin':
        r = np.hypot(xx - xc, yy - yc)
        mask = (r >= 2.0 - 0.75) & (r <= 3.5 + 0.75)      # every pixel that touches the annulus (half diagonal 0.71)
    if tall:
        data = np.ascontiguousarray(data.T)
        err = None if err is None else np.ascontiguousarray(err.T)
        mask = None if mask is None else np.ascontiguousarray(mask.T)
    if spec['unit']:
        data = data * u.Jy
        err = None if err is None else err * u.Jy
    return data, err, mask


def _h_new(root, seed):
    from photutils.profiles import CurveOfGrowth, RadialProfile
    spec = ROOTS[root]
    data, err, mask = _h_inputs(root, seed)
    cls = RadialProfile if spec['cls'] == 'rp' else CurveOfGrowth
    radii = np.array(H_RADII if spec['cls'] == 'rp' else H_RADII[1:])
    return cls(data, H_GEOM[spec['geom']][1], radii, error=err, mask=mask)


def _helper_state(v, depth=0):
    """scipy helper objects -> plain data (their __dict__, recursively, plus the public knots / coefficients)."""
    import types
    if isinstance(v, types.ModuleType):
        return ('module', v.__name__)
    mod = type(v).__module__ or ''
    if not (mod.startswith('scipy.') and hasattr(v, '__dict__') and depth < 4):
        return v
    items = {k: _helper_state(x, depth + 1) for k, x in vars(v).items()}
    for a in ('x', 'c', 'extrapolate', 'axis'):
        if a not in items:
            try:
                items[f'attr:{a}'] = _helper_state(getattr(v, a), depth + 1)
            except Exception:
                pass
    return ('helper-object', f'{mod}.{type(v).__qualname__}', items)


class HState:
    __slots__ = ('obj', 'norm', 'nops')


class HSystem:
    def __init__(self, root, seed, tier):
        self.root, self.seed, self.tier = root, seed, tier
        self.names = ['profile', 'profile_error'] + (['data_profile'] if ROOTS[root]['cls'] == 'rp' else [])
        # compared in every state, never an operation of its own: area, radius and (RadialProfile) data_radius
        self.fixed = ['area', 'radius'] + (['data_radius'] if ROOTS[root]['cls'] == 'rp' else [])
        self.cog = ROOTS[root]['cls'] == 'cog'
        self.skip = lambda reason: None       # run_unit / replay put acc.skip here
        fresh = _h_new(root, seed)
        self.raw, self.broken = {}, {}
        for n in self.names + self.fixed:
            try:
                with warnings.catch_warnings():
                    warnings.simplefilter('ignore')
                    self.raw[n] = getattr(fresh, n)
            except Exception as e:        # an array of the FRESH object cannot be read: reported by root_broken()
                self.broken[n] = e
        if self.broken:
            return
        self.unit = getattr(self.raw['profile'], 'unit', None)
        p = _val(self.raw['profile'])
        signs = (int(np.sign(np.nanmax(p))), int(np.sign(np.nansum(p))))
        # the root images were designed on the pinned tree so that the normalisation paths see every sign pattern / a NaN
        # bin.  On a tree whose profiles are different (that is the business of the full product against the reference,
        # part (C)) a root may no longer have its designed pattern: its histories are then skipped (counted), the other
        # units still judge the tree.
        self.not_as_designed = None
        if signs != H_SIGNS[ROOTS[root]['image']]:
            self.not_as_designed = f'root {root}: (sign of max, sign of sum) of the profile is {signs}, not as designed'
        elif ROOTS[root]['image'] == 'nanbin' and ROOTS[root]['cls'] == 'rp' and not np.isnan(p).any():
            self.not_as_designed = f'root {root}: the masked annulus was expected to give a NaN bin'

    def root_broken(self, acc):
        """An array of the fresh (never normalised) object raises: a violation of its own (the histories of this
        root have no oracle then and are not explored)."""
        for n, e in self.broken.items():
            acc.case(nontrivial=True)
            acc.violation('read-raises', f'{n}:{type(e).__name__}:fresh-object', {'kind': 'history', 'root': self.root, 'history': []},
                          repr(e), 'a value')
        if not self.broken and getattr(self, 'not_as_designed', None):
            acc.skip('history root not as designed on this tree (its histories are not explored): ' + self.not_as_designed)
            return True
        return bool(self.broken)

    def initial(self):
        st = HState()
        st.obj = _h_new(self.root, self.seed)
        st.norm = []          # normalisation factors applied since the last unnormalize
        st.nops = 0
        return st

    def canon(self, st):
        # a helper object kept on the instance (e.g. a cached interpolator) is known to snapshot.digest by its type
        # only, which would merge an up-to-date with a stale one: it is replaced by its own state (knots, coefficients)
        return state_key({k: _helper_state(v) for k, v in st.obj.__dict__.items()})

    def ops(self, st):
        ops = [('normalize', 'max'), ('normalize', 'sum'), ('unnormalize',)] + [('read', n) for n in self.names]
        if self.cog:
            # the two encircled-energy interpolators, called with arrays: at every sampled radius / at the curve's
            # own values on its strictly increasing prefix
            ops += [('ee_at_radius',), ('radius_at_ee',)]
        if self.tier == 'thorough':
            ops.append(('read', 'area'))
        return ops

    def nontrivial(self, hist):
        return ROOTS[self.root]['image'] != 'zero' and any(op[0] == 'normalize' for op in hist)

    def outcome(self, st):
        return (len(st.norm), tuple(sorted(k for k in st.obj.__dict__ if k in ('profile', 'profile_error', 'data_profile'))))

    def _factor(self, st):
        f = 1.0
        for x in st.norm:
            f *= x
        return f

    def _expect(self, st, name):
        raw = _val(self.raw[name])
        if name in ('area', 'radius', 'data_radius'):
            return raw
        return raw / self._factor(st)

    def _cmp(self, st, name, val, report, site):
        want = self._expect(st, name)
        got = _val(val)
        if name == 'profile_error' and st.norm and self._factor(st) < 0:
            # the property does not say which sign an uncertainty has WHILE normalised by a negative constant:
            # only the magnitude is judged there (the restored, un-normalised array is compared exactly)
            want, got = np.abs(want), np.abs(got)
        # every normalize / unnormalize multiplies or divides once: <= 1 ulp each; allow 4 ulp per operation
        rtol = 4 * EPS * (st.nops + 2)
        if got.shape != want.shape or not np.allclose(got, want, rtol=rtol, atol=0, equal_nan=True):
            dev = float(np.nanmax(np.abs(got / want - 1))) if got.shape == want.shape else None
            report('restores' if not st.norm else 'normalized-value', site, got.tolist(), want.tolist(),
                   f'{name}: relative deviation {dev} from raw / {self._factor(st)!r}')
            return False
        u_got = getattr(val, 'unit', None)
        if name in ('profile', 'profile_error') and got.size and st.norm == [] and u_got != self.unit:
            report('restores-unit', site, str(u_got), str(self.unit))
        return True

    def _ee_at_radius(self, st, report):
        """calc_ee_at_radius(all sampled radii) == the curve of this normalisation state (the interpolator passes
        through its samples, whatever was called before)."""
        radii = _val(self.raw['radius'])
        got = _val(st.obj.calc_ee_at_radius(radii.copy()))
        want = self._expect(st, 'profile')
        # the values of the state carry <= 4 ulp per normalize/unnormalize (as in _cmp); a PCHIP piece evaluated at
        # its own knot adds a few roundings of terms bounded by the step of the curve: 64 eps max|curve|
        tol = 4 * EPS * (st.nops + 2) * np.abs(want) + 64 * EPS * float(np.max(np.abs(want)))
        state = 'normalized' if st.norm else 'unnormalized'
        if got.shape != want.shape or not (np.abs(got - want) <= tol).all():
            report('ee-at-sample', f'calc_ee_at_radius:history:{state}', got.tolist(), want.tolist(),
                   f'calc_ee_at_radius(sampled radii) != profile of a fresh object scaled by 1 / {self._factor(st)!r}')

    def _radius_at_ee(self, st, report):
        """calc_radius_at_ee(curve values on the strictly increasing prefix) == the sampled radii there."""
        obj = st.obj
        state = 'normalized' if st.norm else 'unnormalized'
        prof = obj.profile
        if not self._cmp(st, 'profile', prof, report, f'profile:{state}'):
            return
        p = _val(prof)
        radii = _val(self.raw['radius'])
        m = monotone_prefix(p)
        if m + 1 < 2:
            # documented: ValueError when the curve does not rise even at the smallest radii
            try:
                obj.calc_radius_at_ee(p.copy())
            except ValueError:
                pass
            return
        if np.min(np.diff(p[:m + 1])) < 1e-6 * np.max(np.abs(p[:m + 1])):
            return      # ill-conditioned inverse (same rule as the round trip; counted as skipped by invariant())
        back = _val(obj.calc_radius_at_ee(p[:m + 1].copy()))
        want = radii[:m + 1]
        # the arguments ARE the knots of the inverse interpolator (no conditioning term): exact up to the rounding of
        # one cubic piece whose terms are bounded by the radius step: 64 eps (1 + r_max); worst seen on the
        # unchanged tree over seeds 0-2: 0.7 eps (1 + r_max)
        if back.shape != want.shape or not (np.abs(back - want) <= 64 * EPS * (1 + radii[-1])).all():
            report('radius-at-ee', f'calc_radius_at_ee:history:{state}', back.tolist(), want.tolist(),
                   f'calc_radius_at_ee(profile[0..{m}]) != radius[0..{m}] (strictly increasing prefix)')

    def apply(self, st, op, report):
        obj = st.obj
        try:
            with warnings.catch_warnings():
                warnings.simplefilter('ignore')
                if op[0] == 'ee_at_radius':
                    self._ee_at_radius(st, report)
                    return True
                if op[0] == 'radius_at_ee':
                    self._radius_at_ee(st, report)
                    return True
                if op[0] == 'read':
                    val = getattr(obj, op[1])
                    if op[1] == 'data_profile' and st.norm:
                        return True     # while normalised the scale of the raw data profile is not specified here
                    self._cmp(st, op[1], val, report, f'{op[1]}:{"normalized" if st.norm else "unnormalized"}')
                    return True
                if op[0] == 'normalize':
                    cur = self._expect(st, 'profile')
                    f = float(np.nanmax(cur) if op[1] == 'max' else np.nansum(cur))
                    obj.normalize(method=op[1])
                    if f == 0:
                        # documented: a profile whose max / sum is zero cannot be normalised (warning, no change)
                        nv = float(_val(obj.normalization_value))
                        if nv != (self._factor(st) if st.norm else 1.0):
                            report('normalization-value', f'normalize:{op[1]}:zero', nv, self._factor(st))
                        return True
                    st.norm.append(f)
                    st.nops += 1
                    nv = float(_val(obj.normalization_value))
                    if not abs(nv - self._factor(st)) <= 64 * EPS * abs(nv):
                        report('normalization-value', f'normalize:{op[1]}', nv, self._factor(st))
                    return True
                obj.unnormalize()
                st.norm = []
                st.nops += 1
                nv = float(_val(obj.normalization_value))
                if nv != 1.0:
                    report('normalization-value', 'unnormalize', nv, 1.0)
                return True
        except Exception as e:
            report('op-raises', f'{op[0]}:{type(e).__name__}', repr(e), 'no exception')
            return False

    def invariant(self, st, report):
        with warnings.catch_warnings():
            warnings.simplefilter('ignore')
            for name in self.names + self.fixed:
                if name == 'data_profile' and st.norm:
                    continue
                try:
                    val = getattr(st.obj, name)
                except Exception as e:
                    report('read-raises', f'{name}:{type(e).__name__}', repr(e), 'a value')
                    continue
                self._cmp(st, name, val, report, f'{name}:{"normalized" if st.norm else "unnormalized"}')
            if self.cog:
                # the round-trip clause holds in every state (on the curve the object shows in that state)
                state = 'normalized' if st.norm else 'unnormalized'

                def rep(clause, site, observed=None, expected=None, detail=''):
                    report(clause, f'{site}:history:{state}', observed, expected, detail)
                try:
                    ee_roundtrip(st.obj, _val(st.obj.profile), _val(self.raw['radius']), rep, self.skip)
                except Exception as e:
                    report('read-raises', f'ee-roundtrip:{type(e).__name__}', repr(e), 'a value')


def h_depth(tier):
    return 7 if tier == "thorough" else 5


# ---------------------------------------------------------------------------- plan / run
def radii_names(tier, cname):
    """Radii alphabet of a centre: the general lists for the five general centres; an edge-geometry centre has its
    own list built from its edge distance (thorough: and all general lists as well)."""
    general = list(RADII_THOROUGH if tier == 'thorough' else RADII)
    if cname in EDGE_CENTRES:
        return [f'edge:{cname}'] + (general if tier == 'thorough' else [])
    return general


def product_cases(tier, cname, mname, orient='wide'):
    for image in IMAGES:
        for rname in radii_names(tier, cname):
            for evar in ERRORS:
                for mvar, nf, cv in mask_configs(evar):
                    for cls in ('cog', 'rp'):
                        if cls == 'cog' and rname == 'int0':
                            continue        # identical to int1 once the leading 0 is dropped
                        units = (False, True) if (mname == 'exact' and image == 'nonneg') else (False,)
                        for un in units:
                            yield {'kind': 'profile', 'cls': cls, 'image': image, 'centre': cname, 'radii': rname,
                                   'mask': mvar, 'nonfinite': nf, 'cover': cv, 'error': evar, 'method': mname,
                                   'unit': un, 'orient': orient}


def pixel_axes(tier):
    """(P) axes of a tier: quick = wide orientation x 3 largest radii x 4 kinds; thorough = both orientations x 5 x 6."""
    if tier == 'thorough':
        return ORIENTS, list(PIX_RADII_THOROUGH), list(PIX_KINDS_THOROUGH)
    return ('wide',), list(PIX_RADII), list(PIX_KINDS)


def pixel_cases(tier, cname, mname, rname, orient='wide'):
    """(P) full product pixel position x kind x class for one (centre, method, radii list, orientation): image
    'nonneg', error map always given (so the error columns are judged and a non-finite error pixel exists)."""
    kinds = pixel_axes(tier)[2]
    for iy, ix in pixel_region(cname, rname):
        for kind in kinds:
            for cls in ('cog', 'rp'):
                yield {'kind': 'profile', 'cls': cls, 'image': 'nonneg', 'centre': cname, 'radii': rname,
                       'mask': 'pixel', 'badkind': kind, 'pixel': [iy, ix], 'nonfinite': 'none', 'cover': '-',
                       'error': 'map', 'method': mname, 'unit': False, 'orient': orient}


def roots_for(tier):
    """thorough: the full product of all root axes (120); quick: geometry 'inside' x all other axes (40) + the two
    corner geometries x class x error map x image with units off (40) -- units and geometry act on disjoint code."""
    return [r for r, spec in ROOTS.items() if tier == 'thorough' or spec['geom'] == 'inside' or not spec['unit']]


def plan(tier, seed):
    units = []
    for orient in ORIENTS:
        for cname in PRODUCT_CENTRES:
            for mname in METHODS:
                units.append({'kind': 'product', 'centre': cname, 'method': mname, 'orient': orient})
    orients, rnames, _ = pixel_axes(tier)
    for orient in orients:
        for cname in PIX_CENTRES:
            for rname in rnames:
                for mname in METHODS:
                    units.append({'kind': 'pixel', 'centre': cname, 'method': mname, 'radii': rname, 'orient': orient})
    for root in roots_for(tier):
        nops = 6 if ROOTS[root]['cls'] == 'rp' else 7        # = len(HSystem.ops) of the quick tier
        nops += 1 if tier == 'thorough' else 0
        for i in range(nops):
            units.append({'kind': 'history', 'root': root, 'first': [i]})
    return units


def run_unit(unit, tier, seed):
    acc = Acc()
    if unit['kind'] == 'product':
        orient = unit.get('orient', 'wide')
        refs = {(unit['centre'], unit['method'], orient): Ref(unit['centre'], unit['method'], orient)}
        for case in product_cases(tier, unit['centre'], unit['method'], orient):
            check_profile(acc, case, seed, refs)
    elif unit['kind'] == 'pixel':
        orient = unit['orient']
        ref = Ref(unit['centre'], unit['method'], orient)
        refs = {(unit['centre'], unit['method'], orient): ref}
        # the enumerated region must hold every pixel the largest circle meets plus pixels outside it on each side
        # that is not cut off by the image (harness error otherwise: the space would not be the stated one)
        region = pixel_region(unit['centre'], unit['radii'])
        w, amb = weights(SHAPE, *ALL_CENTRES[unit['centre']], float(RADII_ALL[unit['radii']][-1]), 'exact')
        inreg = np.zeros(SHAPE, bool)
        for iy, ix in region:
            inreg[iy, ix] = True
        if ((w > 0) & ~inreg).any() or not ((w == 0) & inreg).any():
            raise RuntimeError(f'{unit}: pixel region does not enclose the largest circle')
        for case in pixel_cases(tier, unit['centre'], unit['method'], unit['radii'], orient):
            check_profile(acc, case, seed, refs)
    else:
        sysm = HSystem(unit['root'], seed, tier)
        sysm.skip = acc.skip
        if sysm.root_broken(acc):
            return acc
        explore(sysm, h_depth(tier), acc, first_ops=unit['first'], extra={'kind': 'history', 'root': unit['root']},
                root_check=(unit['first'][0] == 0))
    return acc


def _tup(x):
    return tuple(_tup(v) for v in x) if isinstance(x, (list, tuple)) else x


def replay(case, seed):
    acc = Acc()
    if case['kind'] == 'profile':
        orient = orient_of(case)
        refs = {(case['centre'], case['method'], orient): Ref(case['centre'], case['method'], orient)}
        check_profile(acc, case, seed, refs)
        return acc
    sysm = HSystem(case['root'], seed, 'thorough')
    sysm.skip = acc.skip
    if sysm.root_broken(acc):
        return acc
    hist = _tup(case['history'])
    extra = {k: v for k, v in case.items() if k != 'history'}
    if hist:
        st, usable = build(sysm, hist, acc, extra)
    else:
        st, usable = sysm.initial(), True
    if usable:
        sysm.invariant(st, _mk_report(acc, sysm, hist, extra))
    return acc


def _describe_pixel(tier):
    orients, rnames, kinds = pixel_axes(tier)
    fr = {}
    for c, (xc, yc) in PIX_CENTRES.items():
        for rn in rnames:
            r = float(RADII_ALL[rn][-1])
            fr[f'{c} x {rn}'] = {'pixels': len(pixel_region(c, rn)),
                                 'frac(xc-r), frac(xc+r), frac(yc-r), frac(yc+r)':
                                     [round(v % 1.0, 10) for v in (xc - r, xc + r, yc - r, yc + r)]}
    return {'centres (x, y)': {k: list(v) for k, v in PIX_CENTRES.items()},
            'radii lists (CurveOfGrowth drops the leading 0)': {k: RADII_ALL[k] for k in rnames},
            'kinds of the one bad pixel': kinds, 'orientations': list(orients), 'methods': list(METHODS),
            'classes': ['CurveOfGrowth', 'RadialProfile'], 'image': 'nonneg', 'error': 'map',
            'pixel positions': 'every pixel of columns floor(xc-rmax)-1 .. ceil(xc+rmax)+1 x rows floor(yc-rmax)-1 .. '
                               'ceil(yc+rmax)+1 inside the image',
            'per centre x radii list': fr}


def describe(tier, seed):
    return {'alphabet': {'orientation -> image shape (ny, nx)': {o: list(shape_of(o)) for o in ORIENTS},
                         'orientation tall': 'the wide scene transposed (data.T, error.T, mask.T, centre (yc, xc)); centre names '
                                             'and coordinates below are those of the wide scene',
                         'RadialProfile raw data profile': 'data_radius / data_profile = multiset of (radius, value) of all image '
                                                           'pixels within the largest radius, in every RadialProfile case',
                         'images': list(IMAGES),
                         'general centres (x, y)': {k: list(v) for k, v in CENTRES.items()},
                         'general radii (x every general centre)': RADII_THOROUGH if tier == 'thorough' else RADII,
                         'edge-geometry centres (x, y)': {k: list(v) for k, v in EDGE_CENTRES.items()},
                         'edge-geometry radii (per centre: 0, 2, edge distance + offsets)': EDGE_RADII,
                         'edge-geometry offsets (outward distance of the circle end from the true edge -0.5 / n-0.5)': list(EDGE_OFFSETS),
                         'edge-geometry centres are combined with': ('their own radii list and every general radii list'
                                                                     if tier == 'thorough' else 'their own radii list'), 'user mask': list(MASKS), 'non-finite input': list(NONFINITE),
                         'cover (user mask and non-finite pixels present)': list(COVER),
                         'mask combinations per error variant': {e: ['/'.join(c) for c in mask_configs(e)] for e in ERRORS},
                         'non-finite data pixels (dy, dx from the pixel nearest the centre)': [[list(o), repr(v)] for o, v in BAD_DATA],
                         'non-finite error pixels (finite data there)': [[list(o), repr(v)] for o, v in BAD_ERROR],
                         'error': list(ERRORS), 'methods': list(METHODS),
                         'single bad pixel (P)': _describe_pixel(tier),
                         'classes': ['CurveOfGrowth', 'RadialProfile'], 'units': 'on/off for method exact x image nonneg'},
            'bound': {'history depth': h_depth(tier), 'roots': roots_for(tier),
                      'root geometry (ny, nx), (xc, yc); radii 0..5': {g: [list(v[0]), list(v[1])] for g, v in H_GEOM.items()},
                      'root axes': {'class': ['rp', 'cog'], 'error map': [True, False], 'units': [False, True],
                                    'geometry': list(H_GEOM) if tier == 'thorough' else
                                    ['inside (x units on/off)', 'corner-wide (units off)', 'corner-tall (units off)'],
                                    'image (sign of profile max, sign of profile sum)': {k: list(v) for k, v in H_SIGNS.items()}},
                      'compared in every state': ['profile', 'profile_error', 'data_profile (un-normalised states)',
                                                  'area', 'radius', 'data_radius (RadialProfile)', 'normalization_value',
                                                  'CurveOfGrowth: calc_radius_at_ee(calc_ee_at_radius(r_i)) = r_i on the '
                                                  'strictly increasing prefix'],
                      'ops': ['normalize(max)', 'normalize(sum)', 'unnormalize()', 'read profile', 'read profile_error',
                              'read data_profile (RadialProfile)',
                              'calc_ee_at_radius(all sampled radii) (CurveOfGrowth)',
                              'calc_radius_at_ee(profile on its strictly increasing prefix) (CurveOfGrowth)']
                      + (['read area'] if tier == 'thorough' else [])}}
