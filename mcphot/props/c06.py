"""C06 -- deblending only refines segments and is independent of worker scheduling.

Two parts, both exhaustive over a stated finite space and executed on the real
``deblend_sources``:

(C) refinement: full Cartesian product  frame x numbering x data variant x
    labels-argument x nlevels x contrast x mode x connectivity x relabel x
    npixels (nproc=1), judged by a set-partition oracle written on the label
    arrays (mcphot/ref/deblend_scenes.py).  The labels argument is an ORDERED
    list in the caller's order (the parents are processed, and child labels
    handed out, in that order): None, every scalar, every pair in both orders,
    full lists ascending / descending / non-monotone; a reduced sub-product
    spells the same lists as numpy scalar / tuple / int64 / int32 array.
    The DEGENERATE elements of the alphabet are members too: the EMPTY subset
    (no label selected: nothing may be split, the map is empty) in every
    container form -- [] / () / empty int64 / int32 array / an empty
    boolean-mask selection from segment_img.labels --, all labels as a computed
    selection and as the cached segment_img.labels object, and lists that name
    a label twice (judged for the subset they denote; child numbers not judged).
    The parent alphabet has smooth
    blends, pixel-art parents (ties, plateau, tiny) and "spike" parents: a
    blend with a sub-npixels bright component (hot pixel, 2x2 hit, generic
    noise) inside the segment, placed first / between / last among the marker
    components in raster order -- the multi-threshold step discards it, so the
    per-parent marker numbers have a hole; such parents appear before AND after
    other deblendable parents (full product of the core alphabet).
    The RELATIVE GEOMETRY of two parents is an axis too: parents of different
    tiles have disjoint bounding boxes; "group" tiles hold two 2-blends whose
    minimal bounding boxes (the cutouts the per-source step works on, and the
    regions the results are written back to) are not disjoint: mutually
    interlocking (X2, diagonal streaks), nested (L2: an L-shaped parent whose
    box contains a compact parent) and abutting (A2: two parents that share a
    border and interlock).  Both parents of a group split, in both processing
    orders (numbering x labels argument).

(B) schedules: the module-level names ``ProcessPoolExecutor`` / ``as_completed``
    of ``photutils.segmentation.deblend`` are replaced by an in-process
    recording executor (mcphot/schedules.py) whose ``as_completed`` yields the
    futures in a prescribed permutation; ALL N! completion orders of every
    schedule scene x configuration (incl. the labels argument: None, scalars,
    ascending, descending and non-monotone lists / arrays, so that "order of
    the caller's list", "ascending label order", "raster order" and "completion
    order" are four different orders) x nproc in {2, 3, N} are executed and the
    result (.data, dtype, .labels, deblend maps, info, emitted warnings) must
    be bit-identical to nproc=1.  The schedule scenes include every group tile
    (alone, and before / after / between parents of other tiles), because the
    pool path cuts the parents out BEFORE and writes the children back AFTER
    all tasks ran, which is where overlapping cutouts matter.  A free-running conformance pass uses the real
    spawn pool behind the same recording and requires (i) the same result as
    serial and (ii) the same API trace shape as the stub run -- i.e. the stub
    models everything the code uses of the executor.
"""
import itertools
import math
import warnings

import numpy as np

from ..ref import deblend_scenes as S
from ..runner import Acc
from ..schedules import ModelMismatch, controlled, fifo_feasible, free_running, permutations
from ..snapshot import diff, digest

PROPERTY = 'C06'
LEVEL = 'model_checking'
RULE = ('(B) schedules: for every schedule scene x configuration x nproc in {2,3,N} ALL N! completion orders of the N '
        'submitted per-source tasks are executed on the real deblend_sources under a permutation-driven executor and '
        'compared bit-exactly with nproc=1; traces = permutations executed, transitions = Future.result() deliveries '
        '(each moves the merge state S -> S+{i}), states = distinct (configuration, set of results consumed so far) '
        'recorded by the executor; a schedule is non-trivial when it is not the submission order and at least two of '
        'the tasks really deblend their parent; a configuration includes the labels= argument as an ORDERED list: None, '
        'every scalar label, ascending / descending / rotated (non-monotone) lists, as list and as int64 array (counter '
        'schedules_non_ascending_labels_with_two_parents_split measures the cases where the caller order matters), plus the '
        'degenerate elements: empty list / empty int64 array (0 tasks: the pool is created and closed without a submit; '
        'thorough also () / int32 / mask selection), a single label as 1-element container, [first, first] (two tasks for ONE '
        'parent; thorough also [last, last] and [first, second, first]) -- a repeated label counts one really-deblending task '
        'per entry. '
        '(C) refinement: full Cartesian product frame x numbering x variant x '
        'labels-argument (None, every scalar, every pair in BOTH orders, full lists of >= 3 parents in all 3! orders '
        'or ascending/descending/rotated) x nlevels x contrast x mode x connectivity x relabel x npixels, plus a reduced '
        'sub-product over the Python representation of labels= (numpy scalar, 1-element list, tuple, int64 and int32 '
        'array) and a DEGENERATE sub-product: the empty subset as [] (thorough: in the full parameter product; quick: '
        'contrast x relabel x npixels) and as () / empty int64 / empty int32 array / empty boolean-mask selection from '
        'segment_img.labels, all labels as computed selection and as the cached segment_img.labels object, and lists with a '
        'repeated label ([a, a] for every label, [l0, l1, l0] as list and int64 array; judged for the subset the list denotes, a '
        'tree that rejects them is skipped), for every frame x numbering x variant; an empty-selection case counts as '
        'non-trivial when contrast < 1 and the image holds a segment of >= 2*npixels pixels (something a non-empty selection '
        'could split: counter cases_labels_empty_with_a_deblending_candidate_in_the_image); frames = every single parent '
        'type, ALL ordered pairs (thorough: also all ordered triples) over the core alphabet {single, 2-blend, 3-blend, '
        '2-blend with a sub-npixels spike that leaves a hole in its marker numbers}, every group tile (two 2-blends whose '
        'minimal bounding boxes are NOT disjoint: X2 mutually interlocking, L2 nested, A2 sharing a border) alone and '
        'before / after a parent of another tile, and designed frames; non-trivial '
        'when at least one parent is split; cases are distinct product indices; the counters '
        '*_later_split_parent_box_contains_pixels_of_earlier_split_parent measure (on the label arrays) the cases in which '
        'the cutout of a split parent contains pixels of a parent that was split before it in the processing order '
        '(B: the schedule scenes contain every group tile as well)')
ASSUMPTIONS = ['the parent process observes the pool only through the order in which as_completed yields futures and '
               'through pickled arguments/results; worker processes share no state (tasks are pure functions of their '
               'pickled arguments) -- the stub runs each task from its pickle and returns a pickle round trip',
               'the executor API used is {ProcessPoolExecutor(max_workers, mp_context), context manager, submit, '
               'as_completed(fs), Future.result()} -- enforced: anything else raises ModelMismatch (exit 2); the real '
               'spawn pool is run free on a few scenes behind the same recorder and must show the same API trace shape',
               'skimage watershed, scipy.ndimage.label and numpy are trusted only through the refinement invariants',
               'scenes are at most 5 parents of at most 3 components on 18x26 tiles; > 200 markers (nmarkers fallback) '
               'is not reached',
               'relative geometry of two parents: disjoint bounding boxes (different tiles), or one of three designed '
               'group tiles of two 2-blends -- X2 (each box contains pixels of the other parent, no contact), L2 (box of '
               'the first contains the second completely, not vice versa), A2 (shared border, 4- and 8-adjacent, boxes '
               'interlock); the stated relation is verified from the pixels by selftest/test_c06_schedules.py (several '
               'seeds and the corners of the generic ranges) and measured at run time by the *_box_contains_* counters; '
               'three or more parents with pairwise overlapping boxes, a parent enclosed by a closed ring, and overlapping '
               'boxes of parents with 3 components or spikes are not enumerated',
               'sub-npixels components inside a parent are: one hot pixel (first / middle / last marker component in '
               'raster order, below or above the source maximum), one 2x2 block (npixels-1 pixels), and one seed-generic '
               'sparse noise image; that the hot-pixel parents really produce the stated marker pattern at the first '
               'separating level is checked by selftest/test_c06_schedules.py with a plain flood fill (not observed at '
               'run time); several spikes per parent at designed places, and spikes on 3-blends other than "first", are '
               'not enumerated',
               'labels=: the property quantifies over label SUBSETS and the documentation ("the label numbers to deblend") '
               'defines no multiplicity.  The ordered-list alphabet is duplicate-free; lists with a repeated label are '
               'enumerated in the degenerate sub-product only ([a, a] for every label, [l0, l1, l0]) and judged ONLY for what '
               'the property says about the subset set(list): which child numbers come out (the pinned serial path deblends '
               'the parent twice and burns a block of child numbers) is not judged, an exception on such a list is recorded as '
               'skipped, and serial vs pool must still agree when serial returns.  The ORDER of the list is part of the '
               'enumerated space (all orders of 2- and 3-label lists, ascending / descending / rotated for longer ones) and '
               'the Python representation (int, numpy integer, list, tuple, int64 / int32 ndarray, boolean-mask selection '
               'from segment_img.labels, the cached segment_img.labels object) too.  The EMPTY subset is enumerated as [] / () / '
               'empty int64 / empty int32 array / empty mask selection; an empty FLOAT array (what np.array([]) gives) and '
               'empty arrays of other dtypes or of ndim != 1 are not enumerated (the documentation asks for label numbers, '
               'i.e. integers; whether a float-typed empty array must be accepted is not stated).  That the caller\'s own '
               'labels ndarray is not modified is not stated by the property and not checked (a labels list is; the cached '
               'segment_img.labels object is, being part of the input image)']

NLEVELS = (1, 4, 32)
CONTRAST = (0.0, 0.001, 0.3, 1.0)
MODES = ('exponential', 'linear', 'sinh')
CONN = (8, 4)
RELABEL = (True, False)
NPIXELS = (5, 1)


# ===========================================================================
# spaces
CORE = ('S', 'B2', 'B3t', 'H2a')            # H2a: its marker numbers have a hole (sub-npixels spike discarded)
CORE_PAIRS_THOROUGH = CORE + ('H2m',)


GROUP_NEIGHBOURS_QUICK = ('B2',)
GROUP_NEIGHBOURS_THOROUGH = ('B2', 'H2a')


def refine_frames(tier):
    singles = [(t,) for t in S.TYPES]
    # group tiles (two parents with non-disjoint bounding boxes): alone, and with a parent of another tile before / after
    groups = [(g,) for g in S.GROUP_TYPES]
    nb = GROUP_NEIGHBOURS_QUICK if tier == 'quick' else GROUP_NEIGHBOURS_THOROUGH
    groups += [f for g in S.GROUP_TYPES for t in nb for f in ((g, t), (t, g))]
    if tier == 'quick':
        pairs = [p for p in itertools.product(CORE, repeat=2)]
        frames = singles + pairs + groups
        frames += [('F', 'B2', 'P'), ('B3f', 'Y'), ('H2m', 'N2'), ('H2q', 'H3a')]
    else:
        pairs = [p for p in itertools.product(CORE_PAIRS_THOROUGH, repeat=2)]
        frames = singles + pairs + groups
        frames += [('L2', 'X2'), ('A2', 'X2'), ('L2', 'A2')]
        frames += [t for t in itertools.product(CORE, repeat=3)]
        frames += [('F', 'B2', 'P'), ('B3f', 'Y'), ('B3f', 'T'), ('D', 'B2'), ('Y', 'B3r', 'F'),
                   ('B3t', 'Y', 'B2', 'S'), ('B2', 'B3f', 'S', 'T', 'B2'),
                   ('H2m', 'N2'), ('H2q', 'H3a'), ('N2', 'N2'), ('H2x', 'H2z', 'B2'), ('H2q', 'F', 'H2m'),
                   ('N2', 'H3a', 'Y', 'H2x'), ('H2a', 'S', 'H2m', 'N2', 'B3t')]
    return frames


def refine_numberings(tier):
    return ('consec', 'gaprev') if tier == 'quick' else ('consec', 'gaps', 'reversed', 'gaprev')


def refine_variants(tier, frame):
    if tier == 'quick':
        return ('pos', 'nonpos')
    if S.nparents(frame) >= 3:
        # the per-parent algorithm axes are covered by the 1- and 2-parent frames; >= 3 parents add bookkeeping
        return ('pos',) if set(frame) <= set(CORE) or S.nparents(frame) >= 5 else ('pos', 'nonpos')
    return ('pos', 'nonpos', 'quantity')


# parameter product of a refinement frame.  Frames that combine a GROUP tile with parents of other tiles (>= 3 parents)
# add bookkeeping (label offsets of three or four parents x geometry), not per-parent algorithm paths -- those are crossed
# with the geometry in full by the group tile alone -- and get a stated sub-product
GROUP_REDUCED = list(itertools.product((4, 32), (0.001, 0.3), MODES, CONN, RELABEL, NPIXELS))
GROUP_MIX_PARAMS = {
    'quick': [(nl, 0.001, mode, conn, rl, npx) for (nl, mode, conn) in ((4, 'linear', 8), (32, 'exponential', 4))
              for rl in RELABEL for npx in NPIXELS],
    'thorough': list(itertools.product((4, 32), (0.001,), ('exponential', 'linear'), CONN, RELABEL, NPIXELS)),
}


def is_group_mix(frame):
    return any(t in S.GROUP for t in frame) and len(frame) >= 2


def refine_params(tier, frame):
    """-> list of (nlevels, contrast, mode, connectivity, relabel, npixels)."""
    if is_group_mix(frame):
        return GROUP_MIX_PARAMS[tier]
    if tier == 'quick' and any(t in S.GROUP for t in frame):
        # quick, group tile alone: nlevels = 1 and contrast = 0 / 1 (contrast 1 returns a copy before any per-source work)
        # crossed with the geometry are left to the thorough tier (full product there)
        return GROUP_REDUCED
    return list(itertools.product(NLEVELS, CONTRAST, MODES, CONN, RELABEL, NPIXELS))


def labels_arg(labels, kind, segm=None):
    """The object handed to ``labels=``.  ``labels`` is plain JSON data (None,
    an int, or a list of ints in the CALLER'S order, possibly EMPTY); ``kind``
    is its Python representation: None = as is (int / list), 'npint' numpy
    integer scalar, 'list1' one-element list, 'tuple', 'array' int64 ndarray,
    'array32' int32 ndarray, and two forms computed from the input image
    ``segm`` (ascending lists only): 'selection' = ``segm.labels[mask]`` with
    the boolean mask that selects exactly ``labels`` (the all-False mask for
    the empty list: what ``segm.labels[segm.areas > big]`` gives when no source
    is that big), 'cached' = the ``segm.labels`` attribute object itself (only
    for the list of all labels)."""
    if labels is None:
        return None
    if isinstance(labels, int):
        if kind == 'npint':
            return np.int64(labels)
        if kind == 'list1':
            return [labels]
        if kind in ('array', 'array32'):
            return np.array([labels], dtype=np.int64 if kind == 'array' else np.int32)
        if kind == 'tuple':
            return (labels,)
        return labels
    if kind in ('selection', 'cached'):
        all_labels = segm.labels
        if list(labels) != sorted(set(labels)) or not set(labels) <= {int(x) for x in all_labels}:
            raise ModelMismatch(f'labels form {kind!r} needs an ascending duplicate-free list of input labels, got {labels}')
        if kind == 'cached':
            if len(labels) != len(all_labels):
                raise ModelMismatch(f"labels form 'cached' is the list of ALL labels, got {labels}")
            return all_labels
        return all_labels[np.isin(all_labels, np.array(labels, dtype=np.int64))]
    if kind == 'tuple':
        return tuple(labels)
    if kind == 'array':
        return np.array(labels, dtype=np.int64)
    if kind == 'array32':
        return np.array(labels, dtype=np.int32)
    return list(labels)


def jsonable_sub(x):
    return {'labels': x[0], 'as': x[1] or ('int' if isinstance(x[0], int) else 'list' if x[0] is not None else None)}


def rotated(ls):
    """A non-monotone order of >= 3 sorted labels (neither ascending nor
    descending): the sorted list rotated by one, e.g. [1, 2, 3] -> [2, 3, 1]."""
    ls = sorted(ls)
    return ls[1:] + ls[:1]


def subsets(labs, tier):
    """labels= alphabet of the refinement product, as (labels, kind) pairs in
    the CALLER'S order (deblend_sources processes the parents, and hands out
    child labels, in that order): None, each single label (scalar int), every
    pair in both orders, and for >= 3 parents the full list: ALL 3! orderings
    for frames of exactly 3 parents (except the 64 core triples of the thorough
    tier), otherwise ascending / descending / rotated (non-monotone).
    Thorough tier: also the EMPTY list (the empty subset).  Lists with a
    REPEATED label and the other degenerate elements: degenerate_subsets()."""
    out = [(None, None)]
    ls = sorted(labs)
    if tier != 'quick':
        # the EMPTY subset (no label selected: nothing may change) in the full parameter product; the quick tier has it
        # in the degenerate sub-space below (reduced, stated parameter product)
        out.append(([], None))
    out += [(l, None) for l in ls]
    out += [([a, b], None) for a, b in itertools.combinations(ls, 2)]
    out += [([b, a], None) for a, b in itertools.combinations(ls, 2)]
    if len(ls) >= 3:
        full = [ls, ls[::-1], rotated(ls)]
        if len(ls) == 3 and tier != 'core3':
            full = [list(q) for q in itertools.permutations(ls)]
        out += [(q, None) for q in full]
    return out


def _subset_tier(tier, frame):
    core3 = tier == 'thorough' and len(frame) == 3 and set(frame) <= set(CORE)
    return 'core3' if core3 else tier


# representation sub-space of the labels= argument: the same label lists in every accepted Python representation
# (the property quantifies over label subsets, not over how the caller spells them); reduced parameter product
# (the representation is consumed by np.atleast_1d / check_labels before any per-source work starts, so it is
# crossed with relabel x npixels x numbering x frame only, at one (nlevels, mode, connectivity, contrast), data variant 'pos')
REPR_PARAMS = [(4, 'linear', 8)]
REPR_CONTRAST = (0.001,)


def repr_subsets(labs):
    """(labels, kind): every single label as numpy scalar / 1-element list /
    1-element tuple / 1-element int64 and int32 array; the full list ascending and
    descending (>= 2 parents) as tuple / int64 array / int32 array."""
    ls = sorted(labs)
    out = [(l, k) for l in ls for k in ('npint', 'list1', 'tuple', 'array', 'array32')]
    if len(ls) >= 2:
        out += [(q, k) for q in (ls, ls[::-1]) for k in ('tuple', 'array', 'array32')]
    return out


# degenerate elements of the labels= alphabet (the property quantifies over ALL label subsets, so the empty subset and
# the full subset are members; how the caller spells them is not part of the property):
#   empty      no label selected -> no segment may be split, the map is empty (relabel=True still renumbers 1..N);
#              every container form: [] / () / empty int64 array / empty int32 array / an empty boolean-mask selection
#              from segment_img.labels
#   all        all labels as a computed selection segment_img.labels[all-True mask] and as the cached
#              segment_img.labels attribute object itself (must not be modified: it is part of the input image)
#   repeated   a list that names a label twice: [a, a] for every label a; [l0, l1, l0] (list and int64 array) for the two
#              smallest labels.  The SUBSET such a list denotes is set(list): every clause of the property is judged for
#              that subset (children partition the parent, other segments untouched, map matches the pixels, labels
#              1..N, input unchanged); which child NUMBERS come out (the pinned tree deblends the parent twice and burns
#              a block of numbers) is not judged, and a tree that rejects such a list with an exception is skipped.
# parameter products (both tiers; stated in describe()):
#   []  (list)            : contrast (all 4) x relabel x npixels at REPR_PARAMS; every frame x numbering x variant
#                           (thorough: [] is in the FULL parameter product as well, see subsets())
#   other empty forms     : REPR_CONTRAST x relabel x npixels at REPR_PARAMS; every frame x numbering x variant
#   all / repeated        : REPR_CONTRAST x relabel x npixels at REPR_PARAMS; every frame without a group+other-tile mix x
#                           numbering x variant (repeated) / variant 'pos' (all: representation only)
EMPTY_FORMS = (None, 'tuple', 'array', 'array32', 'selection')


def _repeated(labels):
    """Named predicate on the case: labels= is a list that names a label more than once."""
    return isinstance(labels, list) and len(set(labels)) != len(labels)


def _empty(labels):
    """Named predicate on the case: labels= is an empty list (in whatever container form)."""
    return isinstance(labels, list) and len(labels) == 0


def _degenerate_tag(labels):
    return ':labels-empty' if _empty(labels) else ':repeated-label' if _repeated(labels) else ''


def degenerate_subsets(labs):
    """-> {'empty': [...], 'all': [...], 'repeated': [...]} of (labels, kind)."""
    ls = sorted(labs)
    rep = [([a, a], None) for a in ls]
    if len(ls) >= 2:
        rep += [([ls[0], ls[1], ls[0]], None), ([ls[0], ls[1], ls[0]], 'array')]
    return {'empty': [([], k) for k in EMPTY_FORMS],
            'all': [(ls, 'selection'), (ls, 'cached')],
            'repeated': rep}


def degenerate_cases(frame, variant, labs):
    """-> list of ((labels, kind), (nlevels, contrast, mode, connectivity, relabel, npixels)) of the degenerate sub-space."""
    d = degenerate_subsets(labs)
    out = []
    for (nl, mode, conn) in REPR_PARAMS:
        for sub in d['empty']:
            for ct in (CONTRAST if sub[1] is None else REPR_CONTRAST):
                out += [(sub, (nl, ct, mode, conn, rl, npx)) for rl in RELABEL for npx in NPIXELS]
        if is_group_mix(frame):
            continue
        subs = d['repeated'] + (d['all'] if variant == 'pos' else [])
        for sub in subs:
            out += [(sub, (nl, ct, mode, conn, rl, npx)) for ct in REPR_CONTRAST for rl in RELABEL for npx in NPIXELS]
    return out


SCHED_SCENES = {
    # name: (frame, npixels)        N = number of submitted tasks with labels=None
    's2a': (('B2', 'B3t'), 5),
    's2b': (('B3f', 'B2'), 5),
    's3a': (('B2', 'S', 'B3t'), 5),
    's3b': (('B3t', 'F', 'B2'), 5),
    's3d': (('B3t', 'B2', 'F'), 5),             # 'mixed': a non-positive parent before one whose split depends on the mode
    's3c': (('Y', 'B2', 'S', 'B3t'), 5),        # Y is filtered out by area < 2*npixels: N = 3 of 4 labels
    's4a': (('B2', 'B3t', 'S', 'B2'), 5),
    's4b': (('B3f', 'T', 'B2', 'F'), 5),
    's4c': (('Y', 'B3t', 'B2', 'T'), 1),        # npixels = 1: the 3-pixel parent is a task too
    's5a': (('B2', 'B3f', 'S', 'T', 'B3t'), 5),
    's5b': (('B3t', 'B2', 'F', 'B2', 'B3r'), 5),
    's3e': (('H2a', 'B2', 'H2m'), 5),           # spike parents: per-task child numbers come from marker images with a hole
    's4d': (('N2', 'H2a', 'B3t', 'H2q'), 5),
    # group tiles: two parents whose cutouts overlap (the pool path cuts all parents out first and writes back last)
    'g2x': (('X2',), 5),                        # mutually interlocking boxes
    'g2l': (('L2',), 5),                        # nested: the box of the first parent contains the second
    'g2a': (('A2',), 5),                        # parents share a border, boxes interlock
    'g3x': (('B2', 'X2'), 5),                   # group after / before a parent of another tile
    'g3l': (('L2', 'B3t'), 5),
    'g3a': (('H2a', 'A2'), 1),                  # npixels = 1: the spike of H2a is a legitimate marker
    'g4x': (('L2', 'X2'), 5),                   # two groups
}
SCHED_QUICK = ['s2a', 's2b', 'g2x', 'g2l', 'g2a', 's3a', 's3b', 's3d', 's3c', 's3e', 'g3x', 's4a', 's4b']
SCHED_THOROUGH = list(SCHED_SCENES)
SCHED_NUMBERINGS = ('consec', 'gaps', 'reversed')
SCHED_VARIANTS = ('pos', 'nonpos', 'mixed')
SCHED_CONTRAST = (0.001, 0.3)


def sched_param_sets(tier):
    """(nlevels, mode, connectivity) combinations of the schedule part."""
    if tier == 'quick':
        return [(8, 'exponential', 8)]
    return [(8, 'exponential', 8), (32, 'sinh', 4), (1, 'linear', 8)]


def _sched_params_for(scene, tier):
    ps = sched_param_sets(tier)
    return ps[:2] if S.nparents(SCHED_SCENES[scene][0]) >= 5 else ps


def sched_degenerate(labs, tier='thorough'):
    """Degenerate elements of the labels= alphabet in the schedule product,
    (labels, kind) pairs; ``labs`` in raster (tile) order, first / last = the
    label of the first / last parent in raster order.

      empty    : [] and the empty int64 array (no task is submitted: the pool path runs with 0 futures);
                 thorough: also () / empty int32 array / empty boolean-mask selection;
      single   : the first label as a 1-element list (thorough: the last as a 1-element int64 array);
      all      : thorough: the cached segment_img.labels attribute object itself;
      repeated : [first, first] (TWO tasks for one parent; judged for the subset {first}, see degenerate_subsets());
                 thorough: [last, last] as int64 array and, >= 2 parents, [first, second, first] (three tasks)."""
    first, last = labs[0], labs[-1]
    out = [([], None), ([], 'array'), (first, 'list1'), ([first, first], None)]
    if tier == 'thorough':
        out += [([], 'tuple'), ([], 'array32'), ([], 'selection'), (last, 'array'), (sorted(labs), 'cached'),
                ([last, last], 'array')]
        if len(labs) >= 2:
            out.append(([first, labs[1], first], None))
    return out


def sched_subsets(labs, tier='thorough', degenerate=True):
    """labels= alphabet of the schedule product, (labels, kind) pairs in the
    CALLER'S order; ``labs`` are the labels in raster (tile) order.  The number
    of elements depends only on len(labs).

      None;
      2 parents : the full list in both orders, each as list and as int64 array;
      >= 3      : all but the first parent (raster order), ascending list;
                  the full list descending (list) -- quick, >= 4 parents: all but the
                  LAST parent (raster order) descending, which keeps the task count at 3;
                  a rotated (neither ascending nor descending) list as int64 array:
                  of all labels for 3 parents, of all but the first parent for >= 4;
      every single label as a scalar int (one task at most).
    Followed by the degenerate elements (empty / single-as-container / repeated):
    sched_degenerate()."""
    out = [(None, None)]
    ls = sorted(labs)
    if len(ls) == 2:
        out += [(q, k) for q in (ls, ls[::-1]) for k in (None, 'array')]
    elif len(ls) >= 3:
        rest = sorted(labs[1:])
        out.append((rest, None))
        out.append((rotated(ls if len(ls) == 3 else rest), 'array'))
        out.append((ls[::-1] if tier == 'thorough' or len(ls) == 3 else sorted(labs[:-1], reverse=True), None))
    out += [(l, None) for l in ls]
    # appended last: the indices of the elements above do not move
    return out + (sched_degenerate(labs, tier) if degenerate else [])


# label-array dtype sub-space: SegmentationImage accepts every integer dtype; child labels are numbered above the
# input maximum, so the top input label is placed at (dtype max - offset)
DTYPE_FRAMES = [('S', 'S'), ('S', 'B2'), ('B3t', 'B3t')]
DTYPES = ('int32', 'uint8', 'int16')
DTYPE_OFFSETS = (0, 2, 6)


def dtype_labels(dtype, offset, n):
    """tile -> label for the dtype sub-space (int32 keeps small labels: a relabel
    map over 2**31 labels is not something a test machine should allocate)."""
    if dtype == 'int32':
        return [3 * k + 2 + offset for k in range(n)]
    top = int(np.iinfo(dtype).max) - offset
    return [top - 3 * (n - 1 - k) for k in range(n)]


REAL_QUICK = [('s2a', 2), ('s3b', 3), ('s4b', 2)]
REAL_THOROUGH = [('s2a', 2), ('s2b', 3), ('s3a', 2), ('s3b', 3), ('s4a', 3), ('s4b', 2), ('s5a', 3), ('s5b', 2),
                 ('s4c', 3), ('s3c', 2), ('s5a', 2), ('s5b', 3), ('s3e', 2), ('s4d', 3),
                 ('g2x', 2), ('g2l', 3), ('g3a', 3), ('g4x', 2)]


# ===========================================================================
# running the real code
def _api():
    import photutils.segmentation.deblend as D
    from photutils.segmentation import SegmentationImage, deblend_sources
    return D, SegmentationImage, deblend_sources


def _prime(segm):
    """Read every attribute deblend_sources consults, so that the snapshot of
    the input contains those caches and any change to them is seen."""
    for a in ('labels', 'slices', 'areas', 'max_label', 'nlabels'):
        getattr(segm, a)


_BEFORE = {}


def _call(deblend_sources, SegmentationImage, data, seg, p, nproc, quantity=False):
    """One call of the real code on a fresh input.  -> dict."""
    segm = SegmentationImage(seg.copy())
    _prime(segm)
    # the snapshot of a fresh, primed input is a function of the label array alone: computed once per array
    hit = _BEFORE.get(id(seg))
    if hit is None or hit[0] is not seg:
        _BEFORE.clear()
        hit = _BEFORE[id(seg)] = (seg, {k: digest(v) for k, v in segm.__dict__.items()})
    before = hit[1]
    arr_id = id(segm.data)
    d = data
    if quantity:
        import astropy.units as u
        d = data * u.Jy
    d0 = np.array(data, copy=True)
    labels = p['labels']
    lab_arg = labels_arg(labels, p.get('labels_kind'), segm)
    res = {'exc': None, 'out': None, 'warnings': [], 'input_bad': None}
    with warnings.catch_warnings(record=True) as w:
        warnings.simplefilter('always')
        try:
            res['out'] = deblend_sources(d, segm, p['npixels'], labels=lab_arg, nlevels=p['nlevels'],
                                         contrast=p['contrast'], mode=p['mode'], connectivity=p['connectivity'],
                                         relabel=p['relabel'], nproc=nproc, progress_bar=False)
        except ModelMismatch:
            raise
        except Exception as e:
            res['exc'] = e
    # only the warning deblend_sources itself documents (mode changed to linear): warnings raised inside the
    # per-source worker are emitted in another process when a pool is used and are not part of the result
    res['warnings'] = sorted((x.category.__name__, str(x.message)) for x in w if x.category.__name__ == 'AstropyUserWarning')
    # --- the input: array object, bytes, every cached value, deblend map
    after = {k: digest(v) for k, v in segm.__dict__.items()}
    if id(segm.data) != arr_id or not np.array_equal(segm.data, seg) or segm.data.dtype != seg.dtype:
        res['input_bad'] = 'segment_img.data changed'
    else:
        changed = [k for k in before if after.get(k) != before[k]]
        if changed:
            res['input_bad'] = f'segment_img attributes changed: {sorted(changed)}'
        else:
            new = [k for k in after if k not in before]
            if new:
                fresh = SegmentationImage(seg.copy())
                for k in new:
                    try:
                        dd = diff(segm.__dict__[k], getattr(fresh, k))
                    except Exception as e:
                        dd = repr(e)
                    if dd:
                        res['input_bad'] = f'segment_img gained attribute {k} that a fresh object disagrees with: {dd}'
    if res['input_bad'] is None and not np.array_equal(np.asarray(getattr(d, 'value', d)), d0):
        res['input_bad'] = 'data array changed'
    if isinstance(lab_arg, list) and lab_arg != list(np.atleast_1d(labels)):
        res['input_bad'] = 'labels list changed'
    res['segm_in'] = segm
    return res


def _snapshot(out):
    """Everything observable of a result, for the bit-exact comparison."""
    info = getattr(out, 'info', None)
    return {
        'data': (out.data.dtype.str, out.data.shape, out.data.tobytes()),
        'labels': digest(np.asarray(out.labels)),
        'deblended_labels': digest(np.asarray(out.deblended_labels)),
        'map': digest({int(k): int(v) for k, v in out.deblended_labels_map.items()}),
        'map_order': [int(k) for k in out.deblended_labels_inverse_map],
        'inverse_map': digest({int(k): np.asarray(v) for k, v in out.deblended_labels_inverse_map.items()}),
        'info': digest(info),
    }


def _first_diff(a, b):
    for k in a:
        if a[k] != b[k]:
            return k
    return None


def _unsorted(labels):
    """Named predicate on the case: labels= is a list that is not in ascending order."""
    return isinstance(labels, list) and list(labels) != sorted(labels)


def _requested(seg, labels):
    allv = {int(x) for x in np.unique(seg[seg != 0])}
    if labels is None:
        return allv
    return {int(x) for x in np.atleast_1d(labels)}


_REL = {}


def _relations(seg):
    hit = _REL.get(id(seg))
    if hit is None or hit[0] is not seg:
        _REL.clear()
        hit = _REL[id(seg)] = (seg, S.bbox_relations(seg))
    return hit[1]


def _geometry_counters(acc, prefix, frame, seg, labels, info):
    """Vacuity guards of the relative-geometry axis, measured on the label arrays:
    the cutout (minimal bounding box) of a parent that was split contains pixels
    of a parent that was split EARLIER in the processing order (the order of the
    labels argument; ascending for None); a split parent touches another segment."""
    if info is None or not info['deblended'] or not any(t in S.GROUP for t in frame):
        return
    rel = _relations(seg)
    split = set(info['deblended'])
    order = sorted(_requested(seg, None)) if labels is None else [int(x) for x in np.atleast_1d(labels)]
    pos = {l: i for i, l in enumerate(order)}
    # (a parent that was split although it was not requested has no place in the processing order: the oracle reports it)
    if any(a in split and b in split and a in pos and b in pos and pos[a] < pos[b] for (b, a) in rel['box_contains']):
        acc.counters[prefix + '_later_split_parent_box_contains_pixels_of_earlier_split_parent'] += 1
    if any(a in split or b in split for (a, b) in rel['adjacent']):
        acc.counters[prefix + '_split_parent_shares_a_border_with_another_segment'] += 1
    if any(a in split and b in split for (a, b) in rel['adjacent']):
        acc.counters[prefix + '_two_split_parents_share_a_border'] += 1


def _check_refinement(acc, case, seg, p, res, frame, tag=''):
    """Apply the set-partition oracle to one executed call.  -> info or None."""
    conn = p['connectivity']
    # named predicates on the case: a defect that needs a degenerate labels= argument gets its own key
    tag += _degenerate_tag(p['labels'])
    if res['exc'] is not None:
        e = res['exc']
        req = _requested(seg, p['labels'])
        if _repeated(p['labels']):
            # the property quantifies over label SUBSETS and the documentation defines no multiplicity: a tree that
            # rejects a list with a repeated label is not judged (whatever it raises)
            acc.skip(f'labels list with a repeated label rejected ({type(e).__name__}): multiplicity is not defined by the property')
            return None
        bad_conn = [l for l in sorted(req) if not S.connected(seg == l, conn)]
        if isinstance(e, ValueError) and 'connectivity' in str(e) and bad_conn and p['contrast'] < 1:
            acc.skip('parent not connected under the requested connectivity (documented ValueError)')
            return None
        acc.violation('raises', f'{type(e).__name__}{tag}', case, f'{type(e).__name__}: {e}', 'no exception',
                      'a valid deblend_sources call raised')
        return None
    out = res['out']
    if res['input_bad']:
        acc.violation('input-modified', res['input_bad'].split(':')[0] + tag, case, res['input_bad'], 'input unchanged')
    if out is res['segm_in'] or np.shares_memory(out.data, res['segm_in'].data):
        # not a violation by itself: the property forbids MODIFYING the input (checked above), it does not
        # promise a copy; an aliased output that splits a parent necessarily shows up as input-modified
        acc.counters['outputs_sharing_memory_with_input'] += 1
    try:
        bad, info = S.refinement(seg, out.data, out.deblended_labels_inverse_map, out.deblended_labels_map,
                                 out.deblended_labels, out.labels, requested=_requested(seg, p['labels']),
                                 npixels=p['npixels'], contrast=p['contrast'], relabel=p['relabel'])
    except Exception as e:
        acc.violation('result-unreadable', type(e).__name__ + tag, case, repr(e), 'readable result attributes')
        return None
    for clause, detail, obs, exp in bad:
        # one key per oracle clause; label-numbering clauses are split by the relabel flag (different code path)
        site = f'relabel={p["relabel"]}' if clause in ('labels-1..N', 'map-vs-pixels', 'untouched-label') else 'deblend_sources'
        acc.violation(clause, site + tag, case, obs, exp, detail)
    return info


# ===========================================================================
# part C: refinement product
def _refine_case(acc, frame, numb, variant, p, seed, built=None):
    D, SegmentationImage, deblend_sources = _api()
    if built is None:
        built = S.build(frame, numb, 'pos' if variant == 'quantity' else variant, seed)
    data, seg, labs = built
    case = {'part': 'refine', 'frame': list(frame), 'numbering': numb, 'variant': variant, **p}
    res = _call(deblend_sources, SegmentationImage, data, seg, p, 1, quantity=(variant == 'quantity'))
    info = _check_refinement(acc, case, seg, p, res, frame)
    nsplit = len(info['deblended']) if info else 0
    # an EMPTY selection must split nothing: it is a test when a non-empty selection could have split something,
    # measured on the input: contrast < 1 and the image has a segment of >= 2*npixels pixels (a deblending candidate)
    empty_test = (_empty(p['labels']) and p['contrast'] < 1
                  and any(np.count_nonzero(seg == l) >= 2 * p['npixels'] for l in labs))
    acc.case(nontrivial=nsplit > 0 or empty_test, sample=case if acc.evaluations % 4999 == 11 else None)
    if info is not None:
        acc.outcome((tuple(info['children']), p['relabel'], len(labs)))
        acc.counters['parents_split'] += nsplit
        if any(c >= 3 for c in info['children']):
            acc.counters['cases_with_3_children'] += 1
        # vacuity guard of the label-order axis: the caller's order is not ascending and at least two of the
        # requested parents are split (their child numbers depend on the processing order)
        if nsplit >= 2 and _unsorted(p['labels']):
            acc.counters['cases_non_ascending_labels_with_two_parents_split'] += 1
        if p.get('labels_kind'):
            acc.counters['cases_labels_representation_' + p['labels_kind']] += 1
        # vacuity guards of the degenerate labels= elements; a repeated label is only a test when the repeated parent
        # is split
        if _empty(p['labels']):
            acc.counters['cases_labels_empty'] += 1
            if empty_test:
                acc.counters['cases_labels_empty_with_a_deblending_candidate_in_the_image'] += 1
        if _repeated(p['labels']):
            acc.counters['cases_labels_repeated'] += 1
            if {l for l in p['labels'] if p['labels'].count(l) > 1} & set(info['deblended']):
                acc.counters['cases_labels_repeated_and_the_repeated_parent_is_split'] += 1
        # vacuity guard of the spike sub-space: a parent whose marker numbers have a hole (npixels > spike size) is
        # split in the same call as at least one other parent (child numbers of different parents must not collide)
        if nsplit >= 2 and p['npixels'] > 1:
            spiked = {l for l, t in zip(labs, S.parent_types(frame)) if t in S.SPIKE_TYPES}
            if spiked & set(info['deblended']):
                acc.counters['cases_spike_parent_split_together_with_another_parent'] += 1
        _geometry_counters(acc, 'cases', frame, seg, p['labels'], info)


def _run_refine(acc, unit, tier, seed):
    frame, numb, variant = tuple(unit['frame']), unit['numbering'], unit['variant']
    built = S.build(frame, numb, 'pos' if variant == 'quantity' else variant, seed)
    labs = built[2]
    for sub, kind in subsets(labs, _subset_tier(tier, frame)):
        for nl, ct, mode, conn, rl, npx in refine_params(tier, frame):
            p = {'labels': sub, 'labels_kind': kind, 'nlevels': nl, 'contrast': ct, 'mode': mode, 'connectivity': conn,
                 'relabel': rl, 'npixels': npx}
            _refine_case(acc, frame, numb, variant, p, seed, built)
    # degenerate elements of the labels= alphabet: empty (every container form), all labels (computed forms), repeated
    for (sub, kind), (nl, ct, mode, conn, rl, npx) in degenerate_cases(frame, variant, labs):
        p = {'labels': sub, 'labels_kind': kind, 'nlevels': nl, 'contrast': ct, 'mode': mode, 'connectivity': conn,
             'relabel': rl, 'npixels': npx}
        _refine_case(acc, frame, numb, variant, p, seed, built)
    # representation sub-space of labels= (reduced parameter product; consumed before any per-source work: not crossed
    # with the group + other-tile frames)
    if variant == 'pos' and not is_group_mix(frame):
        for sub, kind in repr_subsets(labs):
            for (nl, mode, conn), ct, rl, npx in itertools.product(REPR_PARAMS, REPR_CONTRAST, RELABEL, NPIXELS):
                p = {'labels': sub, 'labels_kind': kind, 'nlevels': nl, 'contrast': ct, 'mode': mode, 'connectivity': conn,
                     'relabel': rl, 'npixels': npx}
                _refine_case(acc, frame, numb, variant, p, seed, built)


# ===========================================================================
# part B: schedules
def _sched_config_key(case):
    return repr(sorted((k, repr(v)) for k, v in case.items() if k not in ('perm', 'nproc_list')))


def _probe_tasks(D, SegmentationImage, deblend_sources, data, seg, p, nproc):
    """Run once under the stub with the submission order as completion order;
    -> (number of submitted tasks, session, result dict)."""
    with controlled(D, None) as s:
        res = _call(deblend_sources, SegmentationImage, data, seg, p, nproc)
    return len(s.futures), s, res


def _sched_config(acc, scene, numb, variant, p, nprocs, seed, only_perm=None):
    """All completion orders of one configuration.  ``only_perm``: replay."""
    D, SegmentationImage, deblend_sources = _api()
    frame, _ = SCHED_SCENES[scene]
    data, seg, labs = S.build(frame, numb, variant, seed)
    base = {'part': 'schedule', 'scene': scene, 'frame': list(frame), 'numbering': numb, 'variant': variant, **p}
    ser = _call(deblend_sources, SegmentationImage, data, seg, p, 1)
    info = _check_refinement(acc, dict(base, nproc=1), seg, p, ser, frame)
    if ser['exc'] is not None:
        return
    ref = _snapshot(ser['out'])
    ref['warnings'] = ser['warnings']
    nsplit = len(info['deblended']) if info else 0
    # tasks that really deblend their parent (a list with a repeated label submits one task per ENTRY)
    ntasks_split = nsplit if not isinstance(p['labels'], list) else sum(1 for l in p['labels'] if info and l in info['deblended'])
    rep_split = bool(info) and _repeated(p['labels']) and bool({l for l in p['labels'] if p['labels'].count(l) > 1} & set(info['deblended']))
    cfgkey = _sched_config_key(base)
    for nproc in nprocs:
        n, s0, r0 = _probe_tasks(D, SegmentationImage, deblend_sources, data, seg, p, nproc)
        if s0.events and s0.as_completed_calls == 0:
            acc.counters['as_completed_not_used'] += 1
        perms = [tuple(only_perm)] if only_perm is not None else permutations(n)
        for perm in perms:
            if len(perm) != n:
                raise ModelMismatch(f'replay permutation {perm} does not fit the {n} submitted tasks')
            case = dict(base, nproc=nproc, perm=list(perm))
            if perm == tuple(range(n)) and only_perm is None:
                s, res = s0, r0                 # the probe run IS the identity schedule
            else:
                with controlled(D, perm) as s:
                    res = _call(deblend_sources, SegmentationImage, data, seg, p, nproc)
            acc.traces += 1
            acc.transitions += len(s.consumed)
            if acc.state_keys is None:
                acc.state_keys = set()
            for st in s.states:
                acc.state_keys.add(hash((cfgkey, nproc, st)))
            nontriv = perm != tuple(range(n)) and ntasks_split >= 2
            if _empty(p['labels']):
                acc.counters['schedules_labels_empty'] += 1
                if n != 0:
                    acc.counters['schedules_labels_empty_but_tasks_submitted'] += 1
            if rep_split:
                acc.counters['schedules_labels_repeated_and_the_repeated_parent_is_split'] += 1
            if p.get('labels_kind'):
                acc.counters['schedules_labels_representation_' + p['labels_kind']] += 1
            if nsplit >= 2 and _unsorted(p['labels']):
                acc.counters['schedules_non_ascending_labels_with_two_parents_split'] += 1
            _geometry_counters(acc, 'schedules', frame, seg, p['labels'], info)
            acc.case(nontrivial=nontriv, sample=case if acc.evaluations % 1499 == 5 else None)
            acc.counters['schedules'] += 1
            if fifo_feasible(perm, nproc):
                acc.counters['schedules_feasible_with_nproc_fifo_workers'] += 1
            if s.as_completed_calls and tuple(s.completion) != tuple(perm):
                raise ModelMismatch(f'stub delivered {s.completion}, prescribed {perm}')
            if s.events and (not s.exited or sorted(s.consumed) != list(range(n))):
                acc.counters['results_not_all_consumed'] += 1
            if res['exc'] is not None:
                acc.violation('schedule-raises', type(res['exc']).__name__ + _degenerate_tag(p['labels']), case,
                              f'{type(res["exc"]).__name__}: {res["exc"]}', 'same result as nproc=1')
                continue
            if res['input_bad']:
                acc.violation('input-modified', res['input_bad'].split(':')[0] + ':pool', case, res['input_bad'],
                              'input unchanged')
            snap = _snapshot(res['out'])
            snap['warnings'] = res['warnings']
            acc.outcome(snap['data'][2])
            k = _first_diff(ref, snap)
            if k is not None:
                ident = perm == tuple(range(n))
                obs = _describe(res['out'], res['warnings'], k, ser['out'])
                exp = _describe(ser['out'], ser['warnings'], k, res['out'])
                site = (f'{k}:{"submission-order" if ident else "permuted"}' + (':labels-not-ascending' if _unsorted(p['labels']) else '')
                        + _degenerate_tag(p['labels']))
                acc.violation('schedule-dependence', site, case, obs, exp,
                              f'result with nproc={nproc} and completion order {list(perm)} differs from nproc=1 in {k}')


def _describe(out, warns, k, other=None):
    if k == 'data':
        d = {'labels': np.asarray(out.labels).tolist(), 'dtype': str(out.data.dtype)}
        if other is not None and other.data.shape == out.data.shape:
            ys, xs = np.nonzero(out.data != other.data)
            if len(ys):
                d['first_differing_pixel_yx'] = [int(ys[0]), int(xs[0])]
                d['value_there'] = int(out.data[ys[0], xs[0]])
                d['n_differing_pixels'] = int(len(ys))
        return d
    if k in ('map', 'map_order', 'inverse_map', 'deblended_labels'):
        return {int(a): np.asarray(b).tolist() for a, b in out.deblended_labels_inverse_map.items()}
    if k == 'info':
        return repr(getattr(out, 'info', None))
    if k == 'warnings':
        return warns
    return np.asarray(out.labels).tolist()


def _nprocs(n_expected):
    return sorted({2, 3, max(2, n_expected)})


def _expected_tasks(scene, p, seed):
    frame, _ = SCHED_SCENES[scene]
    _, seg, labs = S.build(frame, 'consec', 'pos', seed)
    req = _requested(seg, None)
    return sum(1 for l in req if np.count_nonzero(seg == l) >= 2 * p['npixels'])


def _sched_configs(scene, tier):
    frame, npx = SCHED_SCENES[scene]
    labs0 = S.numbering('consec', S.nparents(frame))
    for (nl, mode, conn) in _sched_params_for(scene, tier):
        for ct in SCHED_CONTRAST:
            for rl in RELABEL:
                for si in range(len(sched_subsets(labs0, tier))):
                    yield {'nlevels': nl, 'mode': mode, 'connectivity': conn, 'contrast': ct, 'relabel': rl,
                           'npixels': npx, 'subset_index': si}


def _run_schedule(acc, unit, tier, seed):
    scene, numb, variant = unit['scene'], unit['numbering'], unit['variant']
    frame, npx = SCHED_SCENES[scene]
    labs = S.numbering(numb, S.nparents(frame))
    for cfg in _sched_configs(scene, tier):
        if cfg['relabel'] != unit['relabel'] or cfg['contrast'] != unit['contrast']:
            continue
        sub, kind = sched_subsets(labs, tier)[cfg['subset_index']]
        p = {k: v for k, v in cfg.items() if k != 'subset_index'}
        p['labels'] = sub
        p['labels_kind'] = kind
        n_exp = _expected_tasks(scene, p, seed) if sub is None else len(np.atleast_1d(sub))
        _sched_config(acc, scene, numb, variant, p, _nprocs(n_exp), seed)


# ---- label dtype sub-space ----------------------------------------------------
def _dtype_case(acc, frame, dtype, offset, p, seed):
    D, SegmentationImage, deblend_sources = _api()
    data, seg, labs = S.build(frame, 'consec', 'pos', seed)
    new = dtype_labels(dtype, offset, len(frame))
    lut = np.zeros(max(labs) + 1, dtype=np.int64)
    lut[labs] = new
    seg = lut[seg].astype(dtype)
    case = {'part': 'dtype', 'frame': list(frame), 'dtype': dtype, 'offset': offset, **p}
    # named predicate on the INPUT: can a new label (children are numbered above the input maximum, at most 3
    # per splittable parent here; relabelling allocates max+1 entries) reach the end of the dtype's range?
    nsplit_max = 3 * sum(1 for t in frame if t != 'S')
    near = max(new) + nsplit_max >= np.iinfo(dtype).max
    res = _call(deblend_sources, SegmentationImage, data, seg, p, 1)
    tmp = Acc()
    info = _check_refinement(tmp, case, seg, p, res, frame, tag=f':{dtype}')
    for v in tmp.violations:
        if near:   # one defect (label arithmetic in the narrow input dtype) -> one key, whatever clause it trips
            acc.violation('narrow-label-dtype', 'labels-near-dtype-max', case, v['observed'], v['expected'],
                          f"{v['clause']} {v['detail']}")
        else:
            acc.violation(v['clause'], v['site'], case, v['observed'], v['expected'], v['detail'])
    acc.skipped.update(tmp.skipped)
    acc.counters.update(tmp.counters)
    acc.case(nontrivial=bool(info and info['deblended']), sample=case if (dtype, offset) == ('uint8', 2) and p['relabel'] else None)
    if info is not None:
        acc.outcome((tuple(info['children']), str(res['out'].data.dtype)))


def _run_dtype(acc, unit, tier, seed):
    for frame in DTYPE_FRAMES:
        for dtype in DTYPES:
            for offset in DTYPE_OFFSETS:
                for ct, rl in itertools.product((0.001, 1.0), RELABEL):
                    p = {'labels': None, 'nlevels': 8, 'contrast': ct, 'mode': 'exponential', 'connectivity': 8,
                         'relabel': rl, 'npixels': 5}
                    _dtype_case(acc, frame, dtype, offset, p, seed)


# ---- SourceFinder passes nproc through --------------------------------------
def _run_finder(acc, unit, tier, seed):
    import photutils.segmentation.deblend as D
    from photutils.segmentation import SourceFinder
    for scene in (['s3a'] if tier == 'quick' else ['s3a', 's4b']):
        frame, npx = SCHED_SCENES[scene]
        data, seg, labs = S.build(frame, 'consec', 'pos', seed)
        for rl in RELABEL:
            kw = dict(npixels=npx, connectivity=8, nlevels=8, contrast=0.001, relabel=rl, progress_bar=False)
            try:
                a = SourceFinder(nproc=1, **kw)(data, S.THRESH)
                ref = _snapshot(a)
            except Exception as e:
                acc.violation('raises', f'SourceFinder:{type(e).__name__}', {'part': 'finder', 'scene': scene, 'relabel': rl,
                                                                           'nproc': 1}, repr(e), 'no exception')
                continue
            with controlled(D, None) as s0:
                try:
                    SourceFinder(nproc=2, **kw)(data, S.THRESH)
                except ModelMismatch:
                    raise
                except Exception:
                    pass    # reported below for the identity order
            n = len(s0.futures)
            for nproc in _nprocs(n):
                for perm in permutations(n):
                    case = {'part': 'finder', 'scene': scene, 'relabel': rl, 'nproc': nproc, 'perm': list(perm)}
                    exc = None
                    with controlled(D, perm) as s:
                        try:
                            b = SourceFinder(nproc=nproc, **kw)(data, S.THRESH)
                        except ModelMismatch:
                            raise
                        except Exception as e:
                            exc = e
                    acc.traces += 1
                    acc.transitions += len(s.consumed)
                    if acc.state_keys is None:
                        acc.state_keys = set()
                    for st in s.states:
                        acc.state_keys.add(hash(('finder', scene, rl, nproc, st)))
                    acc.case(nontrivial=perm != tuple(range(n)))
                    acc.counters['schedules'] += 1
                    if exc is not None:
                        acc.violation('schedule-raises', f'SourceFinder:{type(exc).__name__}', case,
                                      f'{type(exc).__name__}: {exc}', 'same result as nproc=1')
                        continue
                    k = _first_diff(ref, _snapshot(b))
                    if k is not None:
                        acc.violation('schedule-dependence', f'SourceFinder:{k}', case, _describe(b, [], k, a),
                                      _describe(a, [], k, b))


# ---- free-running conformance pass ------------------------------------------
def _run_real(acc, unit, tier, seed):
    D, SegmentationImage, deblend_sources = _api()
    scene, nproc = unit['scene'], unit['nproc']
    frame, npx = SCHED_SCENES[scene]
    for numb, rl, lab_order in (('gaps', False, None), ('reversed', True, 'descending'), ('consec', False, 'empty')):
        data, seg, labs = S.build(frame, numb, 'mixed', seed)
        # second run: the caller lists the labels in descending order (int64 array); third run: an EMPTY int64 array
        # (the real executor is created and closed without a single submit)
        sub, kind = {None: (None, None), 'descending': (sorted(labs, reverse=True), 'array'), 'empty': ([], 'array')}[lab_order]
        p = {'labels': sub, 'labels_kind': kind, 'nlevels': 8, 'contrast': 0.001, 'mode': 'exponential', 'connectivity': 8,
             'relabel': rl, 'npixels': npx}
        case = {'part': 'realpool', 'scene': scene, 'frame': list(frame), 'numbering': numb, 'variant': 'mixed',
                'nproc': nproc, **p}
        ser = _call(deblend_sources, SegmentationImage, data, seg, p, 1)
        if ser['exc'] is not None:
            _check_refinement(acc, dict(case, nproc=1), seg, p, ser, frame)     # reports the exception
            acc.case(nontrivial=False)
            continue
        ref = _snapshot(ser['out'])
        ref['warnings'] = ser['warnings']
        with controlled(D, None) as s_stub:
            _call(deblend_sources, SegmentationImage, data, seg, p, nproc)
        with free_running(D) as s_real:
            res = _call(deblend_sources, SegmentationImage, data, seg, p, nproc)
        acc.case(nontrivial=lab_order != 'empty', sample=case if scene == 's2a' else None)
        if lab_order == 'empty':
            acc.counters['real_pool_runs_with_empty_labels'] += 1
            # the serial result of an empty selection is judged by the refinement oracle like every other case
            _check_refinement(acc, dict(case, nproc=1), seg, p, ser, frame)
        acc.counters['real_pool_runs'] += 1
        acc.counters['real_pool_tasks'] += len(s_real.futures)
        if list(s_real.completion) != sorted(s_real.completion):
            acc.counters['real_pool_runs_out_of_submission_order'] += 1
        if res['exc'] is not None:
            acc.violation('realpool-raises', type(res['exc']).__name__, case, repr(res['exc']), 'same result as nproc=1')
            continue
        snap = _snapshot(res['out'])
        snap['warnings'] = res['warnings']
        k = _first_diff(ref, snap)
        if k is not None:
            # A free run is not reproducible by itself: re-execute the observed completion order under the
            # stub and report THAT (deterministic) schedule.  If the stub cannot reproduce the difference the
            # model is not faithful -> harness error, never a verdict.
            order = tuple(s_real.completion)
            with controlled(D, order) as s_rep:
                rep = _call(deblend_sources, SegmentationImage, data, seg, p, nproc)
            rsnap = None
            if rep['exc'] is None:
                rsnap = _snapshot(rep['out'])
                rsnap['warnings'] = rep['warnings']
            if rsnap is None or _first_diff(ref, rsnap) != k:
                raise ModelMismatch(f'the real spawn pool (completion order {list(order)}) gave a result that differs from '
                                    f'nproc=1 in {k}, but the stub with the same order does not reproduce it')
            scase = dict(case, part='schedule', perm=list(order))
            site = f'{k}:{"permuted" if list(order) != sorted(order) else "submission-order"}' + (':labels-not-ascending' if _unsorted(sub) else '')
            acc.violation('schedule-dependence', site, scase, _describe(res['out'], res['warnings'], k, ser['out']),
                          _describe(ser['out'], ser['warnings'], k, res['out']),
                          f'observed with the REAL spawn pool, nproc={nproc}, completion order {list(order)}; '
                          'replayed deterministically under the stub executor')
        if res['input_bad']:
            acc.violation('input-modified', res['input_bad'].split(':')[0] + ':pool', case, res['input_bad'], 'input unchanged')
        # the stub is a faithful model of the API use: same trace shape
        shape_real = [e for e in s_real.shape() if e[0] != 'forced']
        shape_stub = [e for e in s_stub.shape() if e[0] != 'forced']
        if shape_real != shape_stub:
            raise ModelMismatch(f'API trace of the real pool run differs from the stub run:\n real {shape_real}\n stub {shape_stub}')


# ===========================================================================
def plan(tier, seed):
    def sched_units(scene):
        return [{'kind': 'schedule', 'scene': scene, 'numbering': numb, 'variant': variant, 'relabel': rl, 'contrast': ct}
                for numb in SCHED_NUMBERINGS for variant in SCHED_VARIANTS for rl in RELABEL for ct in SCHED_CONTRAST]

    scenes = SCHED_QUICK if tier == 'quick' else SCHED_THOROUGH
    # the smallest schedule scene first: the first violation of a key is then the shortest schedule
    units = sched_units(scenes[0])
    # the slow real-pool units early so that they overlap with everything else
    for scene, nproc in (REAL_QUICK if tier == 'quick' else REAL_THOROUGH):
        units.append({'kind': 'real', 'scene': scene, 'nproc': nproc})
    for scene in scenes[1:]:
        if S.nparents(SCHED_SCENES[scene][0]) >= 5:
            continue
        units += sched_units(scene)
    units.append({'kind': 'finder'})
    units.append({'kind': 'dtype'})
    frames = refine_frames(tier)
    for frame in sorted(frames, key=lambda f: -S.nparents(f)):
        for numb in refine_numberings(tier):
            for variant in refine_variants(tier, frame):
                units.append({'kind': 'refine', 'frame': list(frame), 'numbering': numb, 'variant': variant})
    for scene in scenes[1:]:
        if S.nparents(SCHED_SCENES[scene][0]) >= 5:
            units += sched_units(scene)
    return units


def run_unit(unit, tier, seed):
    acc = Acc()
    kind = unit['kind']
    if kind == 'refine':
        _run_refine(acc, unit, tier, seed)
    elif kind == 'schedule':
        _run_schedule(acc, unit, tier, seed)
    elif kind == 'finder':
        _run_finder(acc, unit, tier, seed)
    elif kind == 'dtype':
        _run_dtype(acc, unit, tier, seed)
    else:
        _run_real(acc, unit, tier, seed)
    return acc


def replay(case, seed):
    acc = Acc()
    part = case['part']
    pkeys = ('labels', 'labels_kind', 'nlevels', 'contrast', 'mode', 'connectivity', 'relabel', 'npixels')
    case = dict(case)
    case.setdefault('labels_kind', None)        # replay files written before the representation axis existed
    if part == 'refine':
        p = {k: case[k] for k in pkeys}
        _refine_case(acc, tuple(case['frame']), case['numbering'], case['variant'], p, seed)
    elif part == 'schedule':
        p = {k: case[k] for k in pkeys}
        only = case.get('perm')
        nprocs = [case['nproc']] if case.get('nproc', 1) != 1 else [2]
        _sched_config(acc, case['scene'], case['numbering'], case['variant'], p, nprocs, seed,
                      only_perm=only if case.get('nproc', 1) != 1 else None)
    elif part == 'finder':
        _run_finder(acc, {}, 'thorough', seed)
    elif part == 'dtype':
        p = {k: case[k] for k in pkeys}
        _dtype_case(acc, tuple(case['frame']), case['dtype'], case['offset'], p, seed)
    else:
        _run_real(acc, {'scene': case['scene'], 'nproc': case['nproc']}, 'thorough', seed)
    return acc


def describe(tier, seed):
    frames = refine_frames(tier)
    scenes = SCHED_QUICK if tier == 'quick' else SCHED_THOROUGH
    return {
        'alphabet': {
            'parent_types': {'S': 'isolated single', 'B2': '2-blend', 'B3r': '3-blend row', 'B3t': '3-blend triangle',
                             'F': 'faint companion (flux fraction between contrast 0.001 and 0.3)',
                             'B3f': '3-blend whose first marker is pruned at contrast 0.3',
                             'P': 'plateau min==max', 'T': 'two flat squares + lower bridge', 'Y': '3-pixel two-peak parent',
                             'D': 'two-peak block with diagonal-only appendage (invalid for connectivity 4)',
                             'H2a': '2-blend + hot pixel (1 px < npixels=5) above the peaks: FIRST marker component in raster '
                                    'order is discarded, surviving marker numbers {2,3}',
                             'H2m': 'diagonal 2-blend + hot pixel between the peaks in raster order: marker numbers {1,3}',
                             'H2z': '2-blend + hot pixel below the peaks: marker numbers {1,2}, hole at the end',
                             'H2q': '2-blend + 2x2 spike (npixels-1 pixels) above the peaks',
                             'H2x': '2-blend + hot pixel above the peaks that is the source maximum (sets the level range)',
                             'H3a': '3-blend triangle + hot pixel above the peaks: hole at the first separating level, '
                                    'renumbered when the third peak separates at a later level',
                             'N2': '2-blend + seed-generic sparse positive noise image inside the segment'},
            'group_tiles (two parents in one tile, minimal bounding boxes NOT disjoint)': {
                'X2': 'two parallel diagonal streaks, each a 2-blend, separated by background: each box contains pixels of the '
                      'other parent',
                'L2': 'L-shaped 2-blend (one peak per arm) + compact 2-blend in the empty quadrant of its box: the box of the '
                      'first parent contains the second parent completely, the box of the second nothing of the first',
                'A2': 'chain of four peaks cut by the label array along an oblique line into two 2-blends: the parents share a '
                      'border (4- and 8-adjacent) and each box contains pixels of the other'},
            'group_frames': {'alone': [[g] for g in S.GROUP_TYPES],
                             'with_a_parent_of_another_tile_before_and_after':
                                 list(GROUP_NEIGHBOURS_QUICK if tier == 'quick' else GROUP_NEIGHBOURS_THOROUGH),
                             'two_groups': [] if tier == 'quick' else [['L2', 'X2'], ['A2', 'X2'], ['L2', 'A2']],
                             'parameter_product': 'group alone: '
                                                  + ('nlevels in (4, 32) x contrast in (0.001, 0.3) x mode x connectivity x relabel '
                                                     'x npixels (the full product is in the thorough tier)' if tier == 'quick'
                                                     else 'the full product')
                                                  + '; frames with >= 2 tiles that contain a group (no labels-representation '
                                                  'sub-space): full labels-argument alphabet x numbering x variant x '
                                                  + ('(nlevels, mode, connectivity) in [(4, linear, 8), (32, exponential, 4)] x '
                                                     'contrast 0.001 x relabel x npixels' if tier == 'quick' else
                                                     'nlevels in (4, 32) x contrast 0.001 x mode in (exponential, linear) x '
                                                     'connectivity x relabel x npixels')},
            'core_alphabet_for_pairs' + ('' if tier == 'quick' else '_and_triples'):
                list(CORE) if tier == 'quick' else {'pairs': list(CORE_PAIRS_THOROUGH), 'triples': list(CORE)},
            'refine_frames': [list(f) for f in frames],
            'numbering': list(refine_numberings(tier)),
            'variant': 'pos, nonpos' + ('' if tier == 'quick' else ', quantity (frames of <= 2 parents); pos only for the 64 core triples and the 5-parent frames'),
            'labels_argument': 'ordered, in the caller\'s order: None; ' + ('' if tier == 'quick' else 'the EMPTY list []; ')
                               + 'each single label (scalar int); every pair in both '
                               'orders; >= 3 parents: the full list in all 3! orders (3-parent frames'
                               + (' other than the 64 core triples' if tier == 'thorough' else '') + '), otherwise '
                               'ascending / descending / rotated (sorted list rotated by one: non-monotone); no repeated labels',
            'labels_representation_subspace': {
                'labels': 'every single label as numpy int64 scalar / 1-element list / tuple / int64 array / int32 array; '
                          'the full list (>= 2 parents) ascending and descending as tuple / int64 array / int32 array',
                'crossed_with': {'frame': 'all', 'numbering': 'all', 'variant': ['pos'], 'relabel': list(RELABEL),
                                 'npixels': list(NPIXELS), '(nlevels, mode, connectivity)': [list(x) for x in REPR_PARAMS],
                                 'contrast': list(REPR_CONTRAST)}},
            'labels_degenerate_subspace': {
                'empty': {'forms': ['[]', '()', 'empty int64 array', 'empty int32 array',
                                    'segment_img.labels[all-False boolean mask]'],
                          'crossed_with': {'frame': 'all', 'numbering': 'all', 'variant': 'all',
                                           '(nlevels, mode, connectivity)': [list(x) for x in REPR_PARAMS],
                                           'contrast': {'[]': list(CONTRAST), 'other forms': list(REPR_CONTRAST)},
                                           'relabel': list(RELABEL), 'npixels': list(NPIXELS)},
                          'full_parameter_product': 'no (thorough tier)' if tier == 'quick' else
                                                    '[] is an element of labels_argument: full parameter product'},
                'all_labels': {'forms': ['segment_img.labels[all-True boolean mask]', 'the cached segment_img.labels object itself'],
                               'crossed_with': {'frame': 'all without a group + other-tile mix', 'numbering': 'all',
                                                'variant': ['pos'], '(nlevels, mode, connectivity)': [list(x) for x in REPR_PARAMS],
                                                'contrast': list(REPR_CONTRAST), 'relabel': list(RELABEL),
                                                'npixels': list(NPIXELS)}},
                'repeated_label': {'lists': '[a, a] for every label a (list); [l0, l1, l0] for the two smallest labels (list and '
                                            'int64 array)',
                                   'judged': 'every clause, for the subset set(list); child numbers not judged; an exception '
                                             'on such a list -> skipped',
                                   'crossed_with': {'frame': 'all without a group + other-tile mix', 'numbering': 'all',
                                                    'variant': 'all', '(nlevels, mode, connectivity)': [list(x) for x in REPR_PARAMS],
                                                    'contrast': list(REPR_CONTRAST), 'relabel': list(RELABEL),
                                                    'npixels': list(NPIXELS)}},
                'example_3_parents_consec': {k: [jsonable_sub(x) for x in v] for k, v in degenerate_subsets([1, 2, 3]).items()}},
            'nlevels': list(NLEVELS), 'contrast': list(CONTRAST), 'mode': list(MODES), 'connectivity': list(CONN),
            'relabel': list(RELABEL), 'npixels': list(NPIXELS),
            'label_dtype_subspace': {'frames': [list(f) for f in DTYPE_FRAMES], 'dtype': list(DTYPES),
                                     'top_label_at_dtype_max_minus': list(DTYPE_OFFSETS), 'contrast': [0.001, 1.0],
                                     'relabel': list(RELABEL)}},
        'bound': {
            'schedule_scenes': {s: {'frame': list(SCHED_SCENES[s][0]), 'npixels': SCHED_SCENES[s][1]} for s in scenes},
            'max_tasks_N': 4 if tier == 'quick' else 5,
            'schedule_labels_argument': {
                '2 parents': 'None; the full list ascending and descending, each as list and as int64 array; each scalar',
                '>= 3 parents': 'None; all but the first parent (raster order) ascending, list; rotated (non-monotone) int64 '
                                'array of all labels (3 parents) or of all but the first parent (>= 4); descending list of '
                                + ('all labels' if tier == 'thorough' else 'all labels (3 parents) or of all but the last parent (>= 4)')
                                + '; each scalar',
                'degenerate (every scene)': 'empty list and empty int64 array (0 tasks); the first label (raster order) as '
                                            '1-element list; [first, first] (two tasks for one parent)'
                                            + ('' if tier == 'quick' else '; () / empty int32 array / empty boolean-mask selection; '
                                               'the last label as 1-element int64 array; the cached segment_img.labels object; '
                                               '[last, last] as int64 array; [first, second, first]'),
                'example_3_parents_consec': [jsonable_sub(x) for x in sched_subsets([1, 2, 3], tier)],
                'example_4_parents_consec': [jsonable_sub(x) for x in sched_subsets([1, 2, 3, 4], tier)]},
            'completion_orders': 'all N! per (scene, numbering in consec/gaps/reversed, variant in pos/nonpos/mixed, relabel, '
                                 'contrast in 0.001/0.3, labels argument (see schedule_labels_argument), '
                                 f'(nlevels, mode, connectivity) in {sched_param_sets(tier)} (first two for N=5), nproc in {{2,3,N}})',
            'real_spawn_pool_runs': [list(x) for x in (REAL_QUICK if tier == 'quick' else REAL_THOROUGH)],
            'real_spawn_pool_labels': 'each (scene, nproc) three times: numbering gaps / relabel False / labels None; numbering '
                                      'reversed / relabel True / labels = all labels descending as int64 array; numbering '
                                      'consec / relabel False / labels = empty int64 array (executor created, no submit)',
        },
    }
