"""C07 -- SourceCatalog measurements equal their definitions on the segment pixels.

Shape (C): ALL label maps over {0, 1, 2} of the listed small shapes, embedded in
a small frame, x an explicit list of catalog configurations (mask, non-finite
data, tied data, error/background/convolved data given or not, detection
catalog, units, label numbering), against the plain-Python definitions in
``mcphot/ref/srccat.py`` -- plus the footprint relation (changing every pixel
that does not carry the label leaves the row bit-identical).

Two further axes (added after seeds C07-d1 / C07-d2):

* input dtype: every image argument (data, convolved data, error, background,
  detection image) given in a narrower / byte-swapped / integer dtype
  (``DTYPES``); the definitions are evaluated on the *stored* values in exact
  arithmetic, so the row must not depend on the accumulator the dtype suggests;
* degenerate-moment sources: space ``sym`` = every label map of an n x n window
  that is invariant under the 90-degree rotation (all unions of C4 pixel orbits;
  the complement empty or a second -- equally symmetric -- source), with
  C4-symmetric images (equal values, generic value per orbit, pixel-centred
  circular Gaussians): the two principal variances are equal and sxy = 0 in exact
  arithmetic, i.e. the eigen decomposition is degenerate; data kind ``equal``
  (constant image) on all maps of the 2x3 (thorough: 3x3) window covers single
  pixels, pairs, lines and blocks with exactly equal values.

Local-background axis (added after seeds C07-e1 / C07-e2): spaces ``lb22`` (all maps over {0,1,2} of a 2x2
window), ``lb223`` (all maps over {0,1,2,3} of the 2x2 window that use the third source symbol: three-row
catalogs), ``lb23`` (2x3 window) and, thorough, ``lb33``: ``localbkg_width`` in {0,1,2,3} x detection catalog
{none, given with localbkg_width 0 / 1 / 2 / 3 and with apermask_method / kron_params that differ from the
measurement catalog's} x mask x non-finite sky x sky kind x row order.  ``local_background`` is compared with the
definition in ``mcphot/ref/srccat.py`` (rectangular annulus, < 10 usable pixels -> 0, sigma-clipped SourceExtractor
mode), ``segment_flux`` / ``min_value`` / ``max_value`` with the definitions on the segment pixels minus the
reported local background; the catalog's own ``localbkg_width`` must be kept and only the documented options
(apermask_method, kron_params) are taken from the detection catalog.
"""
import itertools
import math

import numpy as np

from ..ref import srccat
from ..runner import Acc

PROPERTY = 'C07'
LEVEL = 'exploration'
RULE = ('every label map over {0,1,2} of each listed shape (all-zero map excluded: documented ValueError) x every '
        'configuration of the tier\'s list (mask x non-finite x data kind x auxiliary arrays x detection catalog x '
        'units x label numbering x frame x input dtype); space sym: every 90-degree-rotation-invariant label map '
        '(unions of C4 pixel orbits, complement empty or a second source) of the n x n windows x symmetric image '
        'kinds x symmetric mask / non-finite orbit x auxiliary arrays (x detection catalog x dtype in thorough); '
        'one case = one SourceCatalog, every row compared with the definitions; '
        'cases are distinct product indices; a case is non-trivial when a masked/non-finite pixel lies inside a '
        'segment, another label shares a source\'s bounding box, the image dtype is not float64 or a source has '
        'equal principal variances (round: no major axis); spaces lb*: every label map over {0,1,2} (lb223: over '
        '{0,1,2,3} with the third source present) of the window x the tier\'s product localbkg_width x detection '
        'catalog (none / given with each localbkg_width and with different apermask_method and kron_params) x mask x '
        'non-finite sky x sky kind x row order (x units x dtype x footprint relation sub-lists); such a case is '
        'non-trivial when localbkg_width > 0 and a source has a non-zero local background or fewer than 10 usable '
        'annulus pixels')
ASSUMPTIONS = ['numpy element access, math.fsum and float arithmetic are trusted; no numpy reduction, scipy or '
               'photutils routine is used by the reference',
               'moment-based quantities follow the documented moment image (convolved data; pixels outside the '
               'segment, masked, non-finite or negative convolved values are zero) and the 1/12 regularisation',
               'localbkg_width = 0 in the spaces w22..w34 and sym; the spaces lb22, lb223, lb23 (thorough: lb33) '
               'enumerate localbkg_width in {0,1,2,3}: the local background is the SourceExtractor mode estimate '
               '(2.5 median - 1.5 mean; median when |mean - median|/std >= 0.3; mean when std = 0) of the 3-sigma '
               '(median centred, <= 20 iterations) clipped usable pixels (inside the image, label 0, unmasked, finite) '
               'whose centre lies in the rectangular annulus (inner rectangle 1.5 x bounding box, outer 2 x '
               'localbkg_width larger), 0 when fewer than 10 pixels are usable, NaN for a completely masked source; '
               'a pixel centre exactly on a rectangle side may be counted either way (all four open/closed readings '
               'accepted); estimates within 1e-9 of a clipping bound or of the 0.3 threshold are not judged (counted)',
               'segment_flux / min_value / max_value with a local background are judged against the definition on the '
               'segment pixels minus the local background the catalog reports (the reported value itself is judged '
               'by the clause local_background)',
               'frames are at most 5x6 (local-background spaces: 5x6, 6x7, thorough 7x7) pixels, segments live in a 3x3 '
               '(thorough also 3x4) window; rotation-symmetric '
               'sources live in n x n windows, n <= 5 (thorough: 6), in an (n+2) x (n+3) frame',
               'dtype axis: all image arguments are given in the same dtype (float32, float16, big-endian float32, '
               'int16, uint8; integer images hold truncated values and no NaN/inf); the reference evaluates the '
               'definitions on the stored values converted exactly to Python floats']

# ------------------------------------------------------------------ alphabets
FRAMES = {'f46': ((4, 6), (0, 2)),      # non-square, dx != dy, window touches the bottom edge
          'f55': ((5, 5), (1, 1)),      # fully interior
          'f33': ((3, 3), (0, 0)),      # no padding: every source hugs the border
          'f56': ((5, 6), (1, 2))}      # for the 3x4 window (touches the right edge)
SYM_N = {'quick': (1, 2, 3, 4, 5), 'thorough': (1, 2, 3, 4, 5, 6)}
for _n in SYM_N['thorough']:          # rotation-symmetric windows: interior, generic (dy != dx) origin
    FRAMES[f's{_n}'] = ((_n + 2, _n + 3), (1, 2))
# frames of the local-background spaces (appended: the generator stream of a frame is its index in FRAME_ORDER)
FRAME_ORDER = sorted(FRAMES)
FRAMES.update({'b56': ((5, 6), (1, 2)),     # 2x2 window: width-1 annuli inside, wider ones cut by the border
               'b67': ((6, 7), (2, 2)),     # 2x3 window
               'b77': ((7, 7), (2, 2))})    # 3x3 window (thorough)
FRAME_ORDER += ['b56', 'b67', 'b77']
# label of the symbols 1, 2 (, 3); '73' reverses the row order ('735': rows = symbols 2, 3, 1)
LABELINGS = {'12': (1, 2, 3), '25': (2, 5, 9), '73': (7, 3, 5)}
MASKS = ('none', 'one', 'checker', 'label')
SYM_MASKS = ('none', 'orb', 'one')          # 'orb': the innermost C4 orbit of the window (keeps the symmetry)
NONFINITE = ('none', 'naninf')
SYM_NONFINITE = ('none', 'orbnan')          # 'orbnan': NaN on the whole corner orbit of the window
KINDS_GT = ('generic', 'tied')
SYMKINDS = ('equal', 'orbit', 'orbitpm', 'gauss0.8', 'gauss1.3', 'gauss2.5')
DATAKINDS = KINDS_GT + SYMKINDS + ('outlier',)   # order fixes the generator streams: append only
# local-background axes
LBW = (0, 1, 2, 3)                          # localbkg_width of the measurement catalog
DETW = (None, 0, 1, 2, 3)                   # no detection catalog / detection catalog built with this localbkg_width
LB_NONFINITE = ('none', 'nansky')           # 'nansky': 'naninf' + a NaN and a -inf next to the window (sky pixels)
LB_KINDS = ('generic', 'outlier', 'equal')  # 'outlier': every 7th pixel x 40 (clipped); 'equal': constant sky
DET_OPTIONS = {'apermask_method': 'mask', 'kron_params': (2.0, 1.2)}     # differ from the defaults ('correct', (2.5, 1.4, 0))
# input dtype of every image argument; 'f8' is the base case of all other products
DTYPES = ('f8', 'f4', 'f2', '>f4', 'i2', 'u1')
DTYPE_CLASS = {'f4': 'float<64', 'f2': 'float<64', '>f4': 'float<64', 'i2': 'int', 'u1': 'int'}
AUX = ('ebc', '---', 'e--', '-b-', '--c')                   # error / background / convolved given


def cfg(mask='none', nonfinite='none', data='generic', aux='ebc', detcat=0, units=0, lab='12', frame='f46',
        relation=0, table=0, derived=1, dtype='f8', **extra):
    return dict({'mask': mask, 'nonfinite': nonfinite, 'data': data, 'aux': aux, 'detcat': detcat, 'units': units,
                 'lab': lab, 'frame': frame, 'relation': relation, 'table': table, 'derived': derived,
                 'dtype': dtype}, **extra)


def lb_cfg(frame, lbw, detw, mask='none', nf='none', kind='generic', lab='12', **kw):
    return cfg(mask, nf, kind, kw.pop('aux', 'ebc'), int(detw is not None), kw.pop('units', 0), lab, frame, derived=0,
               lbw=lbw, detw=detw, **kw)


def lb_product(frame, lbws=LBW, detws=(None, 0, 2), masks=('none', 'checker'), nfs=LB_NONFINITE,
               kinds=('generic', 'outlier'), labs=('12', '73'), **kw):
    return [lb_cfg(frame, w, dw, m, nf, dk, lab, **kw)
            for w, dw, m, nf, dk, lab in itertools.product(lbws, detws, masks, nfs, kinds, labs)]


def lb_config_list(tier, space):
    frame = {'lb22': 'b56', 'lb223': 'b56', 'lb23': 'b67', 'lb33': 'b77'}[space]
    th = tier == 'thorough'
    if space == 'lb22':
        if th:
            out = lb_product(frame, detws=DETW, labs=tuple(LABELINGS))
        else:   # full product on generic sky; clipped (outlier) sky x width>0 x detection catalog x mask x non-finite
            out = lb_product(frame, kinds=('generic',))
            out += lb_product(frame, lbws=LBW[1:], detws=(None, 0), kinds=('outlier',), labs=('12',))
        out += lb_product(frame, lbws=LBW[1:], detws=(None, 0), masks=('none',), nfs=('none',), kinds=('equal',))
        out += lb_product(frame, lbws=(1, 2), detws=(None, 0), masks=('none',), nfs=('nansky',), kinds=('generic',),
                          labs=('12',), units=1)
        out += [lb_cfg(frame, w, dw, dtype=dt) for dt in ('i2', 'f4') for w in (1, 2) for dw in (None, 0)]
        out += lb_product(frame, lbws=(1, 2), detws=(None, 0), nfs=('nansky',), kinds=('generic',), labs=('12',),
                          relation=1)
        if th:
            out += lb_product(frame, detws=(None, 0), kinds=('generic',), labs=('12',), aux='---', units=1)
        return out
    if space == 'lb223':
        if th:
            return lb_product(frame, detws=DETW, labs=tuple(LABELINGS))
        return lb_product(frame, lbws=(1, 2), detws=(None, 0, 2), nfs=('none',), kinds=('generic',))
    if space == 'lb23':
        if th:
            return lb_product(frame) + lb_product(frame, lbws=LBW[1:], detws=(None, 0), masks=('none',),
                                                  nfs=('none',), kinds=('equal',))
        return ([lb_cfg(frame, w, None) for w in (1, 2)]
                + [lb_cfg(frame, w, dw, 'checker', 'nansky', 'generic', lab) for w in (1, 2) for dw in (None, 0)
                   for lab in ('12', '73')])
    if space == 'lb33':
        return [lb_cfg(frame, w, dw, 'checker', 'nansky', 'outlier', lab) for w in (1, 3) for dw in (None, 0)
                for lab in ('12', '73')]
    raise KeyError(space)


def dtype_product(frame, detcats=(0,), units=(0,), kinds=('generic',), auxs=AUX, dtypes=DTYPES[1:], masks=MASKS):
    """dtype x mask x non-finite x aux (x ...) -- integer images cannot hold NaN/inf."""
    out = []
    for dt in dtypes:
        nfs = NONFINITE if np.dtype(dt).kind == 'f' else ('none',)
        for m, nf, dk, aux, dc, un in itertools.product(masks, nfs, kinds, auxs, detcats, units):
            out.append(cfg(m, nf, dk, aux, dc, un, '12', frame, derived=0, dtype=dt))
    return out


def full_product(frame):
    out = []
    for m, nf, dk, aux, dc, un, lab in itertools.product(MASKS, NONFINITE, KINDS_GT, AUX, (0, 1), (0, 1),
                                                         LABELINGS):
        out.append(cfg(m, nf, dk, aux, dc, un, lab, frame))
    return out


def small_product(frame, labs=('12',), kinds=('generic',), auxs=('ebc',), units=(0,)):
    return [cfg(m, nf, dk, aux, dc, un, lab, frame, derived=0)
            for m, nf, dk, aux, dc, un, lab in itertools.product(MASKS, NONFINITE, kinds, auxs, (0, 1), units, labs)]


def config_list(tier, space):
    """The explicit configuration list of a space (simplest first)."""
    if space == 'w33':
        if tier != 'thorough':
            return [cfg(table=1), cfg('checker', 'naninf', relation=1, derived=0),
                    cfg('one', 'none', 'tied', lab='73', derived=0),
                    cfg('label', 'naninf', detcat=1, lab='25', units=1, derived=0)]
        base = [cfg(m, nf, relation=int(m == 'checker' and nf == 'naninf'), table=int(m == 'one'),
                    derived=int(m in ('none', 'one'))) for m in MASKS for nf in NONFINITE]
        base += [cfg(m, 'naninf', 'tied', lab='73', derived=int(m == 'checker')) for m in MASKS]
        base += [cfg(m, nf, detcat=1, lab='25', units=1, derived=int(m == 'label')) for m in MASKS for nf in NONFINITE]
        base += [cfg('checker', 'naninf', aux=a, frame='f55', derived=0) for a in AUX[1:]]
        base += [cfg(m, 'naninf', frame='f33', units=1, derived=0) for m in ('none', 'checker')]
        base += [cfg(m, nf, 'equal', derived=int(m == 'none')) for m, nf in (('none', 'none'), ('one', 'none'),
                                                                             ('checker', 'naninf'))]
        base += [cfg('checker', 'naninf', dtype='f4', derived=0), cfg('none', 'naninf', dtype='f2', derived=0),
                 cfg('one', 'none', dtype='>f4', derived=0), cfg('one', 'none', dtype='i2', derived=0)]
        return base
    if space == 'w23':
        if tier != 'thorough':
            return small_product('f46') + [cfg(m, 'none', 'equal', derived=int(m == 'none'))
                                           for m in ('none', 'one', 'checker')]
        return (small_product('f46', labs=('12', '73'), kinds=KINDS_GT, auxs=AUX)
                + small_product('f46', kinds=('equal',), auxs=('ebc', '---'))
                + dtype_product('f46', dtypes=('f4', 'i2'), auxs=('ebc',)))
    if space == 'w22':
        full = small_product('f33', labs=('12', '73', '25') if tier == 'thorough' else ('12',),
                             kinds=KINDS_GT if tier == 'thorough' else ('generic',), auxs=AUX, units=(0, 1))
        full += [cfg(m, nf, frame='f55', relation=1, table=1) for m in MASKS for nf in NONFINITE]
        # input dtype axis: full product with mask x non-finite x auxiliary arrays (thorough: x detcat x units x kind)
        if tier == 'thorough':
            full += small_product('f33', kinds=('equal',), auxs=('ebc', '---'), units=(0, 1))
            full += dtype_product('f33', detcats=(0, 1), units=(0, 1), kinds=KINDS_GT)
        else:
            full += dtype_product('f33')
        full += [cfg(m, nf, frame='f55', relation=1, table=1, dtype=dt) for dt in (('f4', 'f2') if tier == 'thorough'
                                                                                   else ('f4',))
                 for m in MASKS for nf in NONFINITE]
        return full
    if space == 'w34':
        return [cfg('checker', 'naninf', frame='f56', derived=0)]
    if space in LB_SPACES:
        return lb_config_list(tier, space)
    if space == 'sym':
        # frame 's?' is replaced by the frame of the window size (run_unit)
        if tier != 'thorough':
            return [cfg(m, 'none', dk, aux, frame='s?') for dk in SYMKINDS for m in SYM_MASKS[:2]
                    for aux in ('ebc', '---')]
        out = [cfg(m, nf, dk, aux, dc, frame='s?') for dk in SYMKINDS for m in SYM_MASKS for nf in SYM_NONFINITE
               for aux in ('ebc', '---') for dc in (0, 1)]
        out += [cfg('none', 'none', dk, aux, frame='s?', dtype=dt) for dt in ('f4', 'f2') for dk in SYMKINDS
                for aux in ('ebc', '---')]
        return out
    raise KeyError(space)


WINDOWS = {'w22': (2, 2), 'w23': (2, 3), 'w33': (3, 3), 'w34': (3, 4), 'lb22': (2, 2), 'lb223': (2, 2),
           'lb23': (2, 3), 'lb33': (3, 3)}
LB_SPACES = ('lb22', 'lb223', 'lb23', 'lb33')
SYMBOLS = {'lb223': (0, 1, 2, 3)}           # default (0, 1, 2); lb223 keeps the maps that use symbol 3


def spaces(tier):
    return (['w22', 'w23', 'w33'] + (['w34'] if tier == 'thorough' else []) + ['sym', 'lb22', 'lb223', 'lb23']
            + (['lb33'] if tier == 'thorough' else []))


def code_in_space(space, code):
    return any(code) and (space != 'lb223' or 3 in code)


def c4_orbits(n):
    """Pixel orbits of the n x n window under the 90-degree rotation (i, j) -> (j, n-1-i), innermost first."""
    seen, orbits = set(), []
    for i in range(n):
        for j in range(n):
            if (i, j) in seen:
                continue
            o, p = [], (i, j)
            while p not in o:
                o.append(p)
                p = (p[1], n - 1 - p[0])
            seen.update(o)
            orbits.append(sorted(o))
    c = (n - 1) / 2.0
    orbits.sort(key=lambda o: (round((o[0][0] - c) ** 2 + (o[0][1] - c) ** 2, 6), o[0]))
    return orbits


def orbit_index(n):
    idx = np.zeros((n, n), dtype=int)
    for k, o in enumerate(c4_orbits(n)):
        for (i, j) in o:
            idx[i, j] = k
    return idx


def sym_codes(tier):
    """(window, code) of every rotation-invariant label map: label 1 on a non-empty union of orbits, the rest of
    the window background (fill 0) or a second source (fill 2); smallest windows / innermost orbits first."""
    for n in SYM_N['thorough' if tier == 'thorough' else 'quick']:
        idx = orbit_index(n)
        k = int(idx.max()) + 1
        for bits in range(1, 2 ** k):
            on = np.array([(bits >> b) & 1 for b in range(k)], dtype=bool)[idx]
            for fill in (0, 2):
                if fill and on.all():
                    continue
                yield (n, n), tuple(np.where(on, 1, fill).ravel().tolist())


def space_codes(space, tier):
    if space == 'sym':
        return sym_codes(tier)
    win = WINDOWS[space]
    return ((win, code) for code in _codes(win, SYMBOLS.get(space, (0, 1, 2))) if code_in_space(space, code))


# ------------------------------------------------------------------ inputs
_ARR = {}


def _generic(rng, shape, lo=0.05):
    """Generic reals with sign changes, kept away from 0 so that no moment sum is
    accidentally tiny (values in +-[lo, ~6])."""
    v = rng.normal(0.6, 2.0, size=shape)
    return np.sign(v) * (np.abs(v) + lo)


def _sym_window(rng, kind, n, which):
    """C4-symmetric n x n image of a symmetric data kind (``which``: 0 data, 1 convolved, 2 detection image).
    Values are O(1) so that the tolerance calibration of the 3x3 spaces carries over."""
    idx = orbit_index(n)
    k = int(idx.max()) + 1
    if kind == 'orbit':          # a generic positive value per orbit
        return (np.abs(rng.normal(0.6, 2.0, size=k)) + 0.05)[idx]
    if kind == 'orbitpm':        # generic values with sign changes per orbit (negative orbits drop out of the moments)
        return _generic(rng, k)[idx]
    sigma = float(kind[5:]) * (1.0, 1.25, 1.0)[which]      # the convolved image is broader
    c = (n - 1) / 2.0
    yy, xx = np.indices((n, n))
    return rng.uniform(1.0, 3.0) * np.exp(-((yy - c) ** 2 + (xx - c) ** 2) / (2.0 * sigma ** 2))


def arrays(frame, datakind, seed):
    """Seed-dependent generic images of a frame (cached per process)."""
    k = (frame, datakind, seed)
    if k not in _ARR:
        shape, (y0, x0) = FRAMES[frame]
        rng = np.random.default_rng([seed, FRAME_ORDER.index(frame), DATAKINDS.index(datakind), 707])
        if datakind == 'generic':
            data = _generic(rng, shape)
            conv = _generic(rng, shape)
            det = _generic(rng, shape)
        elif datakind == 'outlier':
            # generic sky with every 7th pixel 40 times larger: 3-sigma clipping removes pixels
            yy, xx = np.indices(shape)
            data, conv, det = (_generic(rng, shape) * np.where((3 * yy + 5 * xx) % 7 == 0, 40.0, 1.0) for _ in range(3))
        elif datakind == 'tied':
            # few distinct values -> ties for min/max (first occurrence) and collinear / symmetric moment images
            yy, xx = np.indices(shape)
            data = np.array([2.0, -1.0, 0.0, 2.0, 3.0])[(2 * yy + 3 * xx) % 5]
            conv = np.array([1.0, 0.0, 2.0, -1.0])[(yy + 2 * xx) % 4]
            det = np.array([1.0, 2.0, -1.0])[(yy + xx) % 3]
        elif datakind == 'equal':
            # constant images (a generic positive constant each): every min/max is a tie, every symmetric shape has
            # exactly equal variances, every line an exactly singular covariance
            data, conv, det = (np.full(shape, v) for v in rng.uniform(1.0, 3.0, size=3))
        else:
            # generic frame, C4-symmetric inside the (square) window of the frame
            n = shape[0] - 2
            if not frame.startswith('s'):
                raise ValueError('symmetric data kinds need a square-window frame')
            data, conv, det = (_generic(rng, shape) for _ in range(3))
            for which, a in enumerate((data, conv, det)):
                a[y0:y0 + n, x0:x0 + n] = _sym_window(rng, datakind, n, which)
        err = rng.uniform(0.5, 1.5, size=shape)
        bkg = rng.normal(3.0, 1.0, size=shape)
        alt = [_generic(rng, shape) * 7.0 for _ in range(3)] + [rng.uniform(2, 3, size=shape), rng.normal(-3, 1, size=shape)]
        _ARR[k] = tuple(a.copy() for a in (data, conv, det, err, bkg)) + (alt,)
    return _ARR[k]


def cast(a, dt):
    """The image as the caller would hold it in dtype ``dt`` (floats: rounded to the dtype; integers: truncated
    eighths -- |values| <= ~64*8 fits int16 -- and the absolute value for unsigned)."""
    if a is None or dt == 'f8':
        return a
    d = np.dtype(dt)
    if d.kind == 'f':
        return a.astype(d)
    v = np.trunc(a * 8.0)
    if d.kind == 'u':
        v = np.minimum(np.abs(v), 255.0)
    return v.astype(d)


def realise(code, win, c, seed):
    """-> dict with the label map and every input array of the case."""
    shape, (y0, x0) = FRAMES[c['frame']]
    wy, wx = win
    la = LABELINGS[c['lab']]
    dt = c.get('dtype', 'f8')
    seg = np.zeros(shape, dtype=int)
    w = np.array(code, dtype=int).reshape(wy, wx)
    seg[y0:y0 + wy, x0:x0 + wx] = np.where(w == 1, la[0], np.where(w == 2, la[1], np.where(w == 3, la[2], 0)))
    data, conv, det, err, bkg, alt = arrays(c['frame'], c['data'], seed)
    data = data.copy()
    yy, xx = np.indices(shape)
    if c['mask'] == 'none':
        mask = None
    elif c['mask'] == 'one':
        mask = np.zeros(shape, bool)
        mask[y0 + min(1, wy - 1), x0 + min(1, wx - 1)] = True
    elif c['mask'] == 'checker':
        mask = ((yy + xx) % 2).astype(bool)
    elif c['mask'] == 'orb':   # the innermost rotation orbit of the (square) window
        mask = np.zeros(shape, bool)
        mask[y0:y0 + wy, x0:x0 + wx] = orbit_index(wy) == 0
    else:   # every pixel of the first label present
        first = la[0] if (seg == la[0]).any() else la[1]
        mask = seg == first
    if c['nonfinite'] != 'none' and np.dtype(dt).kind != 'f':
        raise ValueError('integer images cannot hold non-finite values')
    if c['nonfinite'] in ('naninf', 'nansky'):
        data[y0, x0 + wx - 1] = np.nan          # fixed window positions; the label maps vary under them
        data[y0 + wy - 1, x0] = np.inf
        if c['nonfinite'] == 'nansky':          # ... and two pixels that never carry a label
            data[y0 - 1, x0] = np.nan
            data[y0 + wy, x0 + wx] = -np.inf
    elif c['nonfinite'] == 'orbnan':             # the whole corner orbit of the (square) window
        oi = orbit_index(wy)
        data[y0:y0 + wy, x0:x0 + wx][oi == oi[0, 0]] = np.nan
    e, b, cv = (ch != '-' for ch in c['aux'])
    return {'seg': seg, 'data': cast(data, dt), 'mask': mask, 'error': cast(err, dt) if e else None,
            'background': cast(bkg, dt) if b else None, 'conv': cast(conv, dt) if cv else None,
            'det': cast(det, dt) if c['detcat'] else None, 'alt': [cast(a, dt) for a in alt]}


# ------------------------------------------------------------------ observation
# CORE: quantities that read the pixel sets (checked in every configuration).  DERIVED: pure functions of the
# covariance / other columns (x/y components, ellipse coefficients ...), checked where config['derived'] is set.
CORE = ('segment_flux', 'segment_fluxerr', 'area', 'segment_area', 'bbox_xmin', 'bbox_xmax', 'bbox_ymin',
        'bbox_ymax', 'min_value', 'max_value', 'minval_index', 'maxval_index', 'background_sum', 'background_mean',
        'background_centroid', 'centroid', 'moments', 'covariance', 'semimajor_sigma', 'semiminor_sigma',
        'orientation', 'eccentricity')
DERIVED = ('minval_xindex', 'minval_yindex', 'maxval_xindex', 'maxval_yindex', 'cutout_minval_index',
           'cutout_maxval_index', 'xcentroid', 'ycentroid', 'cutout_centroid', 'moments_central', 'covar_sigx2',
           'covar_sigy2', 'covar_sigxy', 'covariance_eigvals', 'elongation', 'ellipticity', 'fwhm', 'cxx', 'cyy',
           'cxy', 'inertia_tensor')


def columns(c):
    return CORE + (DERIVED if c.get('derived', 1) else ()) + (('local_background',) if c.get('lbw') is not None else ())


FLUX_UNIT = ('local_background', 'segment_flux', 'segment_fluxerr', 'min_value', 'max_value', 'background_sum', 'background_mean',
             'background_centroid')
# documented units of the remaining checked columns
OTHER_UNIT = {'area': 'pix2', 'segment_area': 'pix2', 'covar_sigx2': 'pix2', 'covar_sigy2': 'pix2',
              'covar_sigxy': 'pix2', 'semimajor_sigma': 'pix', 'semiminor_sigma': 'pix', 'orientation': 'deg',
              'fwhm': 'pix', 'cxx': '1 / pix2', 'cyy': '1 / pix2', 'cxy': '1 / pix2', 'covariance': 'pix2',
              'covariance_eigvals': 'pix2', 'inertia_tensor': 'pix2', 'eccentricity': '', 'elongation': '',
              'ellipticity': ''}


def make_catalog(inp, c, only=None):
    import astropy.units as u
    from photutils.segmentation import SegmentationImage, SourceCatalog
    un = (u.Jy if c['units'] else 1)
    segm = SegmentationImage(inp['seg'].copy())

    def q(a):
        return None if a is None else (a * un if c['units'] else a.copy())
    detcat = None
    kw = {} if c.get('lbw') is None else {'localbkg_width': c['lbw']}
    if inp['det'] is not None:
        # local-background spaces: every option of the detection catalog differs from the measurement catalog's
        dkw = {} if c.get('detw') is None else dict(DET_OPTIONS, localbkg_width=c['detw'])
        detcat = SourceCatalog(q(inp['det']), segm, mask=inp['mask'], **dkw)
    cat = SourceCatalog(q(inp['data']), segm, convolved_data=q(inp['conv']), error=q(inp['error']),
                        mask=None if inp['mask'] is None else inp['mask'].copy(), background=q(inp['background']),
                        detection_cat=detcat, **kw)
    return cat


def measure(cat, n, names, errors=None):
    """name -> (float ndarray with leading axis n, unit string or None).  With ``errors`` (a dict) a column whose
    read raises is recorded there (name -> exception) and left out instead of aborting the whole row."""
    out = {}
    for name in names:
        try:
            v = getattr(cat, name)
        except Exception as e:
            if errors is None:
                raise
            errors[name] = e
            continue
        unit = None
        if hasattr(v, 'unit'):
            unit = str(v.unit)
            v = v.value
        v = np.asarray(v, dtype=float)
        out[name] = (v.reshape((n,) + v.shape[1:]) if v.ndim else v.reshape(1), unit)
    return out


# ------------------------------------------------------------------ comparison
# Tolerances.  Sums of <= 12 values of size <= ~50: rounding <= 12 * 2.2e-16 * sum|v| ~ 1e-13; the moment-derived
# quantities go through ~10 further operations on O(1) numbers (measured worst deviation on the unchanged tree:
# see the evidence counters 'maxdev<=...').  1e-10 (absolute + relative) is >= 100x above that and far below any
# defect of interest (a wrong pixel changes a value by >= 1e-2).  eccentricity/ellipticity/elongation contain
# sqrt(1 - l2/l1): an error eps in the ratio becomes sqrt(eps) ~ 3e-8 at l1 == l2, hence 1e-6 for those three.
TOL = 1e-10
TOL_SQRT = 1e-6
# Sources whose moment pixels are collinear have det(covariance) == 0 exactly; the documented treatment is the 1/12
# regularisation.  The pinned snapshot returned NaN shape parameters whenever the computed determinant rounded to
# -1e-17 (repaired by proposed_fixes/C07-covariance-det-rounding, now a fix: commit), so NaN there is reported
# (key covariance-nan|det-rounding-negative).  C07_STRICT_COLLINEAR=0 restores the lenient judgement (either branch
# accepted, occurrences only counted in the evidence).
import os  # noqa: E402
STRICT_COLLINEAR = bool(int(os.environ.get('C07_STRICT_COLLINEAR', '1')))


def close(a, b, tol):
    if math.isnan(a) or math.isnan(b):
        return math.isnan(a) and math.isnan(b)
    if math.isinf(a) or math.isinf(b):
        return a == b
    return abs(a - b) <= tol + tol * abs(b)


def _flat(x):
    if isinstance(x, (list, tuple)):
        return [z for y in x for z in _flat(y)]
    return [float(x)]


def source_kind(r):
    if r['npix'] == 0:
        return 'allmasked'
    if r['npix'] != r['segment_area']:
        return 'partmasked'
    return 'sharedbox' if r['shared_box'] else 'plain'


def is_round(m):
    """Measured on the reference moments: equal principal variances (no major axis) of a measurable source."""
    return (not m['degenerate']) and (not math.isnan(m['eigvals'][0])) and not m['orientation_defined']


def case_site(c, kind, m=None):
    """Site of a row violation: a non-float64 image dtype names the dtype class (a defect that needs the narrow /
    integer dtype), otherwise the measured kind of the source (+ detection catalog, + round source)."""
    dt = c.get('dtype', 'f8')
    if dt != 'f8':
        return 'dtype:' + DTYPE_CLASS[dt]
    return kind + (':detcat' if c['detcat'] else '') + (':round' if m is not None and is_round(m) else '')


def check_case(acc, code, win, c, seed, sample=False):
    inp = realise(code, win, c, seed)
    seg = inp['seg']
    labels = sorted(set(seg.ravel().tolist()) - {0})
    case = {'code': list(code), 'window': list(win), 'config': c}
    tolist = lambda a: None if a is None else a.tolist()   # noqa: E731
    L = {k: tolist(inp[k]) for k in ('seg', 'data', 'mask', 'error', 'background', 'conv', 'det')}
    rows = [srccat.ref_row(l, L['seg'], L['data'], L['mask'], L['error'], L['background'], L['conv']) for l in labels]
    detrows = [srccat.ref_row(l, L['seg'], L['det'], L['mask']) for l in labels] if c['detcat'] else None
    mrows = [(detrows[i] if c['detcat'] else r)['moment'] for i, r in enumerate(rows)]
    nround = sum(is_round(m) for m in mrows)
    lbw = c.get('lbw')
    lbs = None
    if lbw is not None:
        lbs = [srccat.local_background(l, L['seg'], L['data'], L['mask'], lbw) for l in labels]
        nontrivial = lbw > 0 and any(max(b['nusable']) < srccat.MIN_LOCALBKG_PIXELS or any(v != 0.0 for v in b['values'])
                                     for b in lbs)
        lb_counters(acc, c, lbs, rows)
    else:
        nontrivial = (any(r['npix'] != r['segment_area'] or r['shared_box'] for r in rows)
                      or c.get('dtype', 'f8') != 'f8' or nround > 0)
    acc.case(nontrivial=nontrivial, sample=case if sample else None)
    if nround:
        acc.counters['round_sources'] += nround
    cols = columns(c)
    dsfx = '' if c.get('dtype', 'f8') == 'f8' else ':' + case_site(c, '')
    errors = {}
    try:
        cat = make_catalog(inp, c)
        n = len(labels)
        got = measure(cat, n, cols, errors)
        catlabels = np.atleast_1d(cat.labels).tolist()
        nl = cat.nlabels
        opts = None if lbw is None else (cat.localbkg_width, cat.meta.get('localbkg_width'), cat.apermask_method,
                                         tuple(cat.kron_params))
    except Exception as e:   # a valid catalog: every read must succeed
        acc.violation('raises', f'catalog:{type(e).__name__}{dsfx}', case, repr(e), 'no exception')
        return
    for name, e in errors.items():   # ... column by column (the other columns are still compared)
        acc.violation('raises', f'{name}:{type(e).__name__}{dsfx}', case, repr(e), 'no exception')
    cols = tuple(name for name in cols if name not in errors)
    if catlabels != labels or nl != len(labels):
        acc.violation('labels', 'row-order', case, catlabels, labels)
        return
    maxdev = 0.0
    if lbw is not None:
        # the catalog keeps its own localbkg_width; apermask_method / kron_params are documented as taken from the
        # detection catalog ("ignored if detection_cat is input")
        dsite = ':detcat' if c['detcat'] else ''
        if opts[0] != lbw or opts[1] != lbw:
            acc.violation('options', 'localbkg_width' + dsite, case, list(opts[:2]), [lbw, lbw],
                          'localbkg_width / meta["localbkg_width"] of the catalog differ from the value it was given')
        want = ((DET_OPTIONS['apermask_method'], DET_OPTIONS['kron_params']) if c.get('detw') is not None
                else ('correct', (2.5, 1.4, 0.0)))
        if (opts[2], opts[3]) != want:
            acc.violation('options', 'apermask_method/kron_params' + dsite, case, [opts[2], list(opts[3])],
                          [want[0], list(want[1])])

    def bad(name, i, obs, exp, site=None, detail=''):
        kind = source_kind(rows[i])
        if site is None:
            site = ('localbkg:' if lbw else '') + case_site(c, kind, mrows[i])
        elif dsfx:
            site += dsfx
        acc.violation(name, site, dict(case, label=labels[i]),
                      obs, exp, detail or f'label {labels[i]} ({kind}) {name}')

    for i, r in enumerate(rows):
        m = (detrows[i] if c['detcat'] else r)['moment']
        exp = dict(r)
        exp.update({k: m[k] for k in ('centroid', 'cutout_centroid', 'moments', 'moments_central', 'covariance',
                                      'semimajor_sigma', 'semiminor_sigma', 'orientation', 'eccentricity',
                                      'elongation', 'ellipticity', 'fwhm', 'cxx', 'cyy', 'cxy', 'inertia_tensor')})
        exp['covariance_eigvals'] = m['eigvals']
        exp['xcentroid'], exp['ycentroid'] = m['centroid']
        exp['covar_sigx2'], exp['covar_sigy2'], exp['covar_sigxy'] = (m['covariance'][0][0], m['covariance'][1][1],
                                                                      m['covariance'][0][1])
        for k in ('minval', 'maxval'):
            exp[f'{k}_yindex'], exp[f'{k}_xindex'] = r[f'{k}_index']
        exp['background_centroid'] = srccat.background_at_centroid(L['background'], m['centroid'])
        if lbw is not None and 'local_background' in got:
            # flux / min / max: the definitions on the segment pixels minus the local background the catalog reports
            lbo = float(got['local_background'][0][i])
            exp['segment_flux'] = r['segment_flux'] - r['npix'] * lbo
            exp['min_value'], exp['max_value'] = r['min_value'] - lbo, r['max_value'] - lbo
        for name in cols:
            g = got[name][0][i]
            gl = _flat(g.tolist())
            if name == 'local_background':
                check_local_background(acc, c, bad, i, gl[0], lbs[i], r)
                continue
            el = _flat(exp[name])
            if name == 'area' and c['detcat']:
                # @use_detcat returns the detection catalog's unmasked area; the docs do not say which of the two
                # the row reports when the data images differ in non-finite pixels: either is accepted
                if not (close(gl[0], el[0], TOL) or close(gl[0], detrows[i]['area'], TOL)):
                    bad(name, i, gl, [el[0], detrows[i]['area']])
                continue
            if name in ('moments_central', 'inertia_tensor') and m['degenerate']:
                continue        # central moments about a NaN centre: not a measurement (see ref)
            if name in ('covariance', 'covar_sigx2', 'covar_sigy2', 'covar_sigxy', 'covariance_eigvals',
                        'semimajor_sigma', 'semiminor_sigma', 'orientation', 'eccentricity', 'elongation',
                        'ellipticity', 'fwhm', 'cxx', 'cyy', 'cxy') and not m['degenerate']:
                if m['det_ambiguous'] and all(math.isnan(v) for v in gl):
                    # collinear pixels: det == 0 exactly, its computed sign is rounding noise; an implementation
                    # that turns a negative sign into NaN skips the documented regularisation (one key for all
                    # derived columns; counted in the evidence)
                    acc.counters['collinear_source_nan_shape'] += 1
                    if STRICT_COLLINEAR and name == 'covariance':
                        bad('covariance-nan', i, gl, el, site='det-rounding-negative')
                    continue
                if m.get('thr_ambiguous'):
                    continue
            tol = TOL_SQRT if name in ('eccentricity', 'ellipticity', 'elongation') else TOL
            if name == 'elongation' and not m['degenerate'] and not math.isnan(m['semiminor_sigma']) \
                    and m['semiminor_sigma'] < 1e-3:
                continue        # unbounded amplification; cannot occur after regularisation (sigma >= 0.28)
            if name == 'orientation' and not (math.isnan(el[0]) or math.isnan(gl[0])):
                if not m['orientation_defined']:
                    continue    # equal eigenvalues: no major axis
                d = abs(gl[0] - el[0]) % 180.0   # an axis: +-90 deg describe the same line (signed zero in atan2)
                ok = min(d, 180.0 - d) <= 1e-7
            elif name in ('cxx', 'cyy', 'cxy') and not m['degenerate'] and not m['orientation_defined']:
                continue
            else:
                ok = len(gl) == len(el) and all(close(a, b, tol) for a, b in zip(gl, el))
                if ok:
                    for a, b in zip(gl, el):
                        if not (math.isnan(a) or math.isinf(a)) and tol == TOL:
                            maxdev = max(maxdev, abs(a - b) / (1 + abs(b)))
            if not ok:
                site = 'bilinear-at-centroid' if name == 'background_centroid' else None
                bad(name, i, gl if len(gl) > 1 else gl[0], el if len(el) > 1 else el[0], site)
        # "a completely masked source yields NaN rather than a number"
        if r['npix'] == 0:
            for name in ('segment_flux', 'segment_fluxerr', 'area', 'min_value', 'max_value', 'background_sum',
                         'background_mean', 'minval_index', 'maxval_index') + (('local_background',) if lbw else ()):
                if (name == 'area' and c['detcat']) or name not in got:
                    continue
                if not np.all(np.isnan(got[name][0][i])):
                    bad('allmasked-not-nan', i, got[name][0][i].tolist(), 'nan', site=name)
    # calibration record: histogram of the worst deviation (relative to 1 + |expected|) per case
    acc.counters['maxdev<=1e-14' if maxdev <= 1e-14 else 'maxdev<=1e-13' if maxdev <= 1e-13 else
                 'maxdev<=1e-12' if maxdev <= 1e-12 else 'maxdev<=1e-10'] += 1
    # units
    for name in cols:
        unit = got[name][1]
        want = ('Jy' if c['units'] else None) if name in FLUX_UNIT else OTHER_UNIT.get(name)
        if unit != want:
            acc.violation('unit', name + dsfx, case, unit, want)
    # bounding boxes, slices and the total mask of the cutouts
    try:
        # a catalog built from a SegmentationImage is never scalar: these are lists with one entry per source
        bboxes, slices, dma = cat.bbox, cat.slices, cat.data_ma
        ema = cat.error_ma if inp['error'] is not None else None
        for i, r in enumerate(rows):
            box = (r['bbox_ymin'], r['bbox_ymax'] + 1, r['bbox_xmin'], r['bbox_xmax'] + 1)
            b = bboxes[i]
            if (b.iymin, b.iymax, b.ixmin, b.ixmax) != box:
                bad('bbox', i, (b.iymin, b.iymax, b.ixmin, b.ixmax), box)
            s = slices[i]
            if (s[0].start, s[0].stop, s[1].start, s[1].stop) != box:
                bad('slices', i, s, box)
            want = np.ones((box[1] - box[0], box[3] - box[2]), bool)
            for (y, x) in r['P']:
                want[y - box[0], x - box[2]] = False
            for nm, arr in (('data_ma', dma), ('error_ma', ema)):
                if arr is None:
                    continue
                if not np.array_equal(np.ma.getmaskarray(arr[i]), want):
                    bad(f'{nm}-mask', i, np.ma.getmaskarray(arr[i]).astype(int).tolist(), want.astype(int).tolist())
    except Exception as e:
        acc.violation('raises', f'cutouts:{type(e).__name__}{dsfx}', case, repr(e), 'no exception')
    if 'segment_flux' in got and 'centroid' in got:
        acc.outcome(got['segment_flux'][0].tobytes() + got['centroid'][0].tobytes())
    if c['table'] and not errors:
        check_table(acc, cat, got, n, case)
    if c['relation']:
        check_relation(acc, inp, c, labels, got, rows, case, cols, lbs[0]['footprint'] if lbs else ())


def lb_counters(acc, c, lbs, rows):
    """Vacuity record of the local-background class (measured on the reference)."""
    if not c['lbw']:
        return
    k = acc.counters
    few = [max(b['nusable']) < srccat.MIN_LOCALBKG_PIXELS for b in lbs]
    nz = [any(v not in (0.0, None) for v in b['values']) for b in lbs]
    k['lb_rows'] += len(lbs)
    k['lb_rows_fewer_than_10_usable'] += sum(few)
    for i in range(len(lbs)):
        if few[i]:
            k[f'lb_few_rows_at_position_{i}_of_{len(lbs)}'] += 1
            if i and nz[i - 1]:
                k['lb_few_rows_after_a_row_with_nonzero_background'] += 1
    k['lb_rows_nonzero_background'] += sum(nz)
    k['lb_rows_with_clipped_pixels'] += sum(b['nclipped'] > 0 for b in lbs)
    k['lb_rows_tie_pixel_centre_on_rectangle_side'] += sum(b['tie'] for b in lbs)
    k['lb_rows_usable_count_straddles_10_over_tie_readings'] += sum(
        min(b['nusable']) < srccat.MIN_LOCALBKG_PIXELS <= max(b['nusable']) for b in lbs)
    if c.get('detw') is not None:
        k['lb_catalogs_detcat_width_' + ('equal' if c['detw'] == c['lbw'] else 'differs')] += 1


def check_local_background(acc, c, bad, i, obs, b, r):
    """Clause local_background: the reported value is one of the admissible readings of the definition."""
    dsite = ':detcat' if c['detcat'] else ''
    if r['npix'] == 0:
        if not math.isnan(obs):
            bad('local_background', i, obs, 'nan', site='allmasked' + dsite)
        return
    if not c['lbw']:
        if obs != 0.0:
            bad('local_background', i, obs, 0.0, site='width0' + dsite)
        return
    if any(v is None for v in b['values']):
        acc.counters['lb_rows_not_judged_clip_or_threshold_tie'] += 1
        return
    if not any(close(obs, v, TOL) for v in b['values']):
        few = max(b['nusable']) < srccat.MIN_LOCALBKG_PIXELS
        bad('local_background', i, obs, b['values'] if len(b['values']) > 1 else b['values'][0],
            site=('fewer-than-10-usable' if few else 'estimate') + dsite,
            detail=f'usable annulus pixels {b["nusable"]}, clipped {b["nclipped"]}')


TABLE_COLS = ['label', 'xcentroid', 'ycentroid', 'bbox_xmin', 'bbox_xmax', 'bbox_ymin', 'bbox_ymax', 'area',
              'semimajor_sigma', 'semiminor_sigma', 'orientation', 'eccentricity', 'min_value', 'max_value',
              'segment_flux', 'segment_fluxerr', 'background_sum', 'background_mean', 'segment_area', 'centroid']


def check_table(acc, cat, got, n, case):
    """to_table(columns) reports the attribute values, one row per source."""
    try:
        tbl = cat.to_table(columns=TABLE_COLS)
    except Exception as e:
        acc.violation('raises', f'to_table:{type(e).__name__}', case, repr(e), 'no exception')
        return
    if len(tbl) != n or tbl.colnames != TABLE_COLS:
        acc.violation('to_table', 'shape', case, (len(tbl), tbl.colnames), (n, TABLE_COLS))
        return
    for name in TABLE_COLS[1:]:
        col = tbl[name]
        v = np.asarray(getattr(col, 'value', col), dtype=float).reshape(got[name][0].shape)
        if not np.array_equal(v, got[name][0], equal_nan=True):
            acc.violation('to_table', name, case, v.tolist(), got[name][0].tolist())


REL_SKIP = ('background_centroid',)   # its footprint includes background pixels around the centroid


def check_relation(acc, inp, c, labels, got, rows, case, cols, annulus=()):
    """Footprint: replace every pixel NOT carrying the first label L (data, convolved data, error, background,
    detection image; finite garbage plus a NaN and an inf) -> the row of L must be bit-identical.  (Every source
    is the first label of some enumerated map, so one altered catalog per case suffices.)"""
    i, l = 0, labels[0]
    out = inp['seg'] != l
    for (y, x) in annulus:      # localbkg_width > 0: the annulus of L (every tie reading) belongs to its footprint
        out[y, x] = False
    alt = dict(inp)
    a = inp['alt']
    d2 = np.where(out, a[0], inp['data'])
    ys, xs = np.nonzero(out)
    if len(ys) and d2.dtype.kind == 'f':
        d2[ys[0], xs[0]] = np.nan
        d2[ys[-1], xs[-1]] = -np.inf
    alt['data'] = d2
    for k, j in (('conv', 1), ('error', 3), ('background', 4), ('det', 2)):
        if inp[k] is not None:
            alt[k] = np.where(out, a[j], inp[k])
    if inp['conv'] is not None and len(ys) and alt['conv'].dtype.kind == 'f':
        alt['conv'][ys[-1], xs[-1]] = np.nan
    try:
        cat2 = make_catalog(alt, c)
        got2 = measure(cat2, len(labels), cols)
    except Exception as e:
        acc.violation('raises', f'relation:{type(e).__name__}' + ('' if c.get('dtype', 'f8') == 'f8' else ':dtype'),
                      dict(case, label=l), repr(e), 'no exception')
        return
    acc.counters['relation_catalogs'] += 1
    for name in cols:
        if name in REL_SKIP:
            continue
        x, y = got[name][0][i], got2[name][0][i]
        if not np.array_equal(x, y, equal_nan=True):
            acc.violation('footprint', name + (':localbkg' if c.get('lbw') else '') + (':detcat' if c['detcat'] else '')
                          + ('' if c.get('dtype', 'f8') == 'f8' else ':dtype'), dict(case, label=l),
                          np.asarray(y).tolist(), np.asarray(x).tolist(),
                          f'row of label {l} changed when only pixels not carrying label {l} were changed')


# ------------------------------------------------------------------ plan / run
def _codes(win, symbols=(0, 1, 2)):
    return itertools.product(symbols, repeat=win[0] * win[1])


def plan(tier, seed):
    units = []
    for sp in spaces(tier):
        ncodes = (sum(1 for _ in space_codes(sp, tier)) if sp == 'sym'
                  else len(SYMBOLS.get(sp, (0, 1, 2))) ** (WINDOWS[sp][0] * WINDOWS[sp][1]))
        ncfg = len(config_list(tier, sp))
        nsh = max(1, min(256, (ncodes * ncfg) // 1500))
        for j in range(nsh):
            units.append({'space': sp, 'shard': j, 'nshards': nsh})
    return units


def run_unit(unit, tier, seed):
    acc = Acc()
    sp = unit['space']
    cfgs = config_list(tier, sp)
    # (shards of the window spaces are taken on the index over ALL codes, the all-zero map included, as before)
    codes = (sym_codes(tier) if sp == 'sym'
             else ((WINDOWS[sp], code) for code in _codes(WINDOWS[sp], SYMBOLS.get(sp, (0, 1, 2)))))
    for i, (win, code) in enumerate(codes):
        if i % unit['nshards'] != unit['shard'] or not code_in_space(sp, code):
            continue
        for j, c in enumerate(cfgs):
            if c['frame'] == 's?':
                c = dict(c, frame=f's{win[0]}')
            check_case(acc, code, win, c, seed, sample=((i * 31 + j) % 4001 == 17))
    return acc


def replay(case, seed):
    acc = Acc()
    check_case(acc, tuple(case['code']), tuple(case['window']), case['config'], seed)
    if 'label' in case:   # keep the violations of the recorded source first
        acc.violations.sort(key=lambda v: v['case'].get('label') != case['label'])
    return acc


def describe(tier, seed):
    sp = {}
    total = 0
    for s in spaces(tier):
        ncodes = sum(1 for _ in space_codes(s, tier))
        cl = config_list(tier, s)
        ncfg = len(cl)
        sp[s] = {'label_maps': ncodes, 'configurations': ncfg, 'catalogs': ncodes * ncfg,
                 'dtype_configurations': sum(1 for c in cl if c['dtype'] != 'f8'),
                 'data_kinds': sorted({c['data'] for c in cl}, key=DATAKINDS.index)}
        if s in LB_SPACES:
            sp[s]['label_symbols'] = list(SYMBOLS.get(s, (0, 1, 2)))
            sp[s]['localbkg_width'] = sorted({c['lbw'] for c in cl})
            sp[s]['detection_catalog_localbkg_width'] = sorted({str(c['detw']) for c in cl})
            sp[s]['width_x_detcat_pairs'] = len({(c['lbw'], c['detw']) for c in cl})
        if s == 'sym':
            ns = SYM_N['thorough' if tier == 'thorough' else 'quick']
            sp[s]['windows'] = [[n, n] for n in ns]
            sp[s]['orbits_per_window'] = [len(c4_orbits(n)) for n in ns]
            sp[s]['label_maps_rule'] = 'sum over n of (2^orbits - 1) unions x fill {0, 2}, minus the full windows with fill 2'
        else:
            sp[s]['window'] = list(WINDOWS[s])
        total += ncodes * ncfg
    return {'alphabet': {'label symbols': [0, 1, 2], 'frames': {k: {'shape': list(v[0]), 'window_origin_yx': list(v[1])}
                                                                for k, v in FRAMES.items()},
                         'labelings': {k: list(v) for k, v in LABELINGS.items()}, 'mask': list(MASKS),
                         'mask(sym)': list(SYM_MASKS), 'nonfinite': list(NONFINITE), 'nonfinite(sym)': list(SYM_NONFINITE),
                         'data': list(DATAKINDS), 'aux(error,background,convolved)': list(AUX),
                         'detcat': [0, 1], 'units': [0, 1], 'dtype(all image arguments)': list(DTYPES),
                         'localbkg_width(lb spaces)': list(LBW),
                         'detection catalog(lb spaces)': ['none'] + [f'localbkg_width={w}, apermask_method=mask, '
                                                                     'kron_params=(2.0, 1.2)' for w in DETW[1:]],
                         'nonfinite(lb spaces)': list(LB_NONFINITE), 'sky kind(lb spaces)': list(LB_KINDS)},
            'spaces': sp, 'catalogs_total': total,
            'checked_columns': list(CORE + DERIVED) + ['local_background (lb spaces)', 'localbkg_width / meta / '
                                                       'apermask_method / kron_params (lb spaces)', 'bbox', 'slices', 'data_ma.mask', 'error_ma.mask', 'labels'],
            'tolerance': {'default': TOL, 'eccentricity/ellipticity/elongation': TOL_SQRT, 'footprint relation': 0}}
