"""C17 -- centroid functions locate symmetric sources exactly and act per source.

Shape (C): full Cartesian products over small alphabets, executed on the real
``centroid_com / centroid_quadratic / centroid_1dg / centroid_2dg /
centroid_sources`` and compared with

* the moment definition of the centre of mass (math.fsum reference),
* the analytic vertex of exactly quadratic peaks,
* for ``centroid_quadratic(xpeak, ypeak, search_boxsize)`` on data that are NOT quadratic: an
  independent re-implementation of the documented algorithm (brightest unmasked pixel of the
  search box around the guess, least-squares quadratic in the fit box around it) with the guess on
  EVERY pixel of the array (edges and corners: trimmed search boxes),
* the symmetry centre of point-symmetric sources,
* metamorphic relations (flips, transposition, positive rescaling, values
  underneath the mask); positive rescaling over a MAGNITUDE LADDER (factors 2^-120 ... 2^120 -- thorough 2^-400 ...
  2^400 -- and 1e-30 ... 1e30: images in physical flux units / huge counts, not only factors of order unity) for every
  centroid function on generic arrays, for exactly quadratic peaks (the vertex at every magnitude), for point-symmetric
  sources, for centroid_sources (image times the factor) and for N-d centroid_com,
* the combination "mask with finite garbage underneath AND additional UNMASKED non-finite pixels in the same
  array" (every function, the mask given as keyword, as the mask of a MaskedArray input, or split between the
  two): same result as the clean array with every excluded pixel flagged in mask= , and
* for ``centroid_sources`` a direct call of the centroid function on an
  independently computed cutout of every position (bit-exact), for position
  lists of length 1-3 in every order, on a finite image and on an image with an unmasked non-finite pixel in
  every cutout (+ garbage underneath the mask), and
* for ``centroid_com`` its documented N-DIMENSIONAL domain: 1-D ... 5-D (thorough: 6-D) boxes judged by the moment
  definition with the coordinates in pixel order (x, y, z, ...: last numpy axis first), by the COMPLETE symmetry
  group of the box (every permutation of the axes x every subset of flipped axes), rescaling, the mask variants and
  N-d point-symmetric sources about every half-pixel lattice centre; the 2-D-only functions are offered the same N-d
  symmetric sources (they reject them on the pinned tree).
"""
import itertools
import math
import warnings

import numpy as np

from ..ref import c17_nd as ND
from ..runner import Acc

PROPERTY = 'C17'
LEVEL = 'exploration'
RULE = ('full Cartesian products: (sym) every cutout shape in {3..9}^2 x every symmetry centre on the half-pixel '
        'lattice with >= 1 px of support on each side x {zero-filled, masked garbage incl. NaN/inf, masked garbage + a '
        'point-symmetric pair of UNMASKED NaN/+inf pixels inside the support with the mask as keyword / as the mask of a '
        'MaskedArray input} x 4 centroid functions; (generic) shapes x generic signed/peaked arrays x mask variant {none, '
        'mask, NaN/inf instead of the mask, mask with finite garbage (1e6, -2e3) underneath + unmasked NaN and +inf '
        'elsewhere} x mask delivery {mask= keyword, MaskedArray input, one pixel in each} (MaskedArray inputs: Gaussian-fit '
        'functions only) x {flipud, fliplr, both, transpose, x2, x1e-3, and with the mask= delivery the complete MAGNITUDE '
        'LADDER: x2^k for k in +-{20, 40, 60, 90, 120} (thorough: +-{10, 20, 30, 40, 60, 90, 120, 150, 200, 300, 400}; exact '
        'factors) and x{1e-30, 1e-17, 1e-9, 1e9, 1e17, 1e30}} and, for every variant but the canonical one, '
        'equality with the call on the clean ndarray with every excluded pixel flagged in mask= ; (quad) shapes x every interior peak pixel x 5x5 sub-pixel vertex lattice x 3 curvature sets '
        'x fit_boxsize x mask variant x (xpeak, ypeak, search_boxsize) variant; (quadamp) the exactly quadratic peak times every '
        'rung of the magnitude ladder x shapes x every interior peak pixel x vertex sub-lattice (quick: 3 of the 25 offsets '
        '(-0.4,0.3), (0,0), (0.45,-0.2); thorough: all 25) x 3 curvature sets x fit_boxsize x {no mask; thorough: + peak pixel '
        'masked over 1e6} x {whole-array maximum, xpeak/ypeak + search_boxsize 3}: the vertex must be returned at every magnitude; '
        '(sym, ladder) variants zero-filled / masked garbage x both ends of the quick ladder (x2^-120, x2^120) for '
        'centroid_com and centroid_quadratic (thorough: the Gaussian fits too): same symmetry centre; '
        '(qsearch) centroid_quadratic on '
        'non-quadratic data: shapes x {generic noise, four sources next to the corners, point-symmetric source '
        'centred on every interior pixel} x guess (xpeak, ypeak) on EVERY pixel of the array incl. edges and corners '
        '(for the symmetric sources: every pixel within reach of the largest search box) x {integer, fractional} '
        'guess x search_boxsize {3, 5, (3,5), (5,3)} x fit_boxsize {3, 5, (3,5)} x {no mask, brightest pixel of the '
        'search box masked with 1e6 underneath, the same pixel NaN}, judged by: same result as giving the '
        'independently found brightest pixel as the guess (bit-exact), edge rule, independent least-squares fit, '
        'symmetry centre, and flips/transposition of the complete call; non-trivial = the search moved the start '
        'pixel or the search box is trimmed by the array border; (sources) every ordered list of '
        '1-3 distinct positions out of 4 (+ a repeated one) x cutout spec {box 5, box (5,7), cross footprint, even '
        '4x6 footprint} x mask x centroid function x {error, xpeak/ypeak, xpeak/ypeak/search_boxsize} keyword x scene {finite '
        'image, image with one unmasked non-finite pixel in every cutout and finite garbage underneath the mask, the same '
        'with the mask carried by a MaskedArray image (Gaussian fits)}; (sources, ladder) finite image x factor {2^-120, 2^120} '
        '(thorough: the complete ladder; error map unchanged) x every cutout spec x mask x centroid function x extra keyword x '
        'the list of ALL positions in both orders: the same centroids as for the unscaled image (com exact, quadratic 1e-9, '
        'Gaussian fits 1e-5) and the per-position clause on the scaled image; thorough (qsearch): both ends of the ladder '
        'as two more transforms of the complete call. A case counts as non-trivial '
        'when the rule of its clause applies (well-posedness rules are evaluated on the INPUT and stated next to '
        'each clause); for sources: the list has >= 2 positions; '
        '(nd) centroid_com on N-dimensional boxes: ndim x every shape of the tier (quick: 1-D n=3..9, 2-D {3,4,5}^2, '
        '3-D {3,4,5}^3, 4-D {3,4}^4, 5-D (3,4,3,4,3); thorough: 1-D 3..12, {3..6}^2, {3..6}^3, {3,4,5}^4, {3,4}^5, 6-D '
        '(3,4,3,4,3,4)) x {signed, positive, off-centre blob with a different displacement on every axis} x mask '
        'variant {none, mask over 1e6 / NaN, NaN / inf instead of the mask, mask over finite garbage + unmasked NaN / '
        '-inf elsewhere} x EVERY element of the symmetry group of the box (all n! axis permutations x all 2^n flip '
        'subsets: 2, 8, 48, 384, 3840, 46080 elements) + {x2, x1e-3, every rung of the magnitude ladder}, judged by the fsum moment definition with the '
        'result in pixel order (last numpy axis first, one coordinate per axis), bit-exact equality with the call on '
        'the clean array with every excluded pixel in mask=, and covariance under every group element; non-trivial = '
        'all coordinates of the centre of mass pairwise differ by > 1e-6; (ndsym) the same shapes x every symmetry '
        'centre on the half-pixel lattice with >= 1 px of support on every axis x {zero-filled, masked garbage incl. '
        'NaN / inf, masked garbage + point-symmetric pair of unmasked NaN / +inf} for centroid_com (symmetry centre, '
        'mask-blind) and, for ndim != 2, the 2-D-only functions on the first two variants (an exception = input outside '
        'their documented domain, counted as skipped; an accepted array must give the symmetry centre); non-trivial = '
        'the centre coordinates are pairwise different.')
ASSUMPTIONS = ['numpy, math.fsum, astropy.modeling fitters (TRFLSQFitter) are trusted',
               'centroid_com is documented for n-dimensional arrays with the result "in pixel order (e.g. (x, y) or (x, y, z)), not '
               'numpy axis order": read as one coordinate per axis, the coordinate along the LAST numpy axis first (reversed axis '
               'order) -- "transposition" of an N-d array is generalised to every permutation of its axes, "flips" to every subset '
               'of axes; centroid_quadratic / centroid_1dg / centroid_2dg / centroid_sources document 2-D data: an exception on a '
               'non-2-D array is outside the statement (skipped and counted), whatever its type; inputs whose unmasked finite '
               'total is 0 (mean undefined) are not judged (pinned tree: a 2-element NaN array whatever the dimension)',
               'the masked pixels of a MaskedArray input are masked pixels in the sense of the statement for centroid_1dg / '
               'centroid_2dg (which combine that mask with mask=); centroid_com / centroid_quadratic document data as a plain '
               'ndarray and are not judged on MaskedArray inputs',
               'in the scenes with non-finite pixels the reference for centroid_sources is the centroid function on the cutout '
               'with footprint, mask AND non-finite pixels flagged in mask= and zeros underneath (bit-exact for com / quadratic, '
               '1e-7 for the Gaussian fits: the same pixels are excluded, only the way they are announced differs)',
               'the cutout of a position is the astropy overlap_slices window [ceil(p - n/2), ceil(p - n/2) + n) '
               'clipped to the image; half-integer positions (ties of "centred") are not in the alphabet',
               'Gaussian-fit clauses are applied only to single-peaked positive inputs (rule evaluated on the input)',
               '"positive rescaling" is read as: every positive factor for which the data AND their squares stay inside the '
               'normal float64 range (alphabet: |data| in [1e-10, 1e3] times 2^k, |k| <= 400, or times 1e-30 ... 1e30); '
               'multiplication by 2^k is exact, so com / quadratic must reproduce the unscaled result to the bit (com) resp. '
               'within the bound of the other rescalings; the error map of centroid_sources is not rescaled (the minimiser '
               'of a weighted fit does not depend on a common factor of the data)',
               'the "box of size search_boxsize" is the set of pixels within (n-1)/2 of the pixel nearest to (xpeak, '
               'ypeak) (round half away from zero; the fractional guesses of the alphabet are not ties), clipped to '
               'the array; cases whose brightest pixel in that box is not unique are skipped (tie-break unspecified)',
               'the placement of a fit box that would stick out of the array is not documented: the independent-fit '
               'and symmetry-centre clauses of (qsearch) apply only where the centred fit box lies inside the array '
               '(the bit-exact start-pixel clause and the flip/transpose clauses apply everywhere)',
               'numpy.linalg.solve / cond (normal equations in box-centred coordinates) are trusted for the '
               'independent quadratic fit; sign decisions within 1e-9 relative of zero curvature/determinant and '
               'vertices within 1e-7 of the image border are not judged']

EPS = np.finfo(float).eps
FUNC_NAMES = ('com', 'quad', '1dg', '2dg')

# ----------------------------------------------------------------------------
# magnitude LADDER of the positive-rescaling relation.  "Commutes with positive rescaling of the data" is stated for
# every positive factor, not only for factors of order unity: images calibrated in physical flux units have pixel
# values of 1e-17 (erg/s/cm2/A) ... 1e-32 (uJy in SI), count images 1e5 and more.  A rung is a string:
# 'p2:k' = factor 2^k (multiplication by a power of two is EXACT in binary floating point as long as nothing under- /
# overflows, so every intermediate quantity of com / quadratic is the exactly scaled one) or 'x<decimal>' (a factor
# from the units people use; rounds).  Well-posedness rule of a rung (evaluated on the input): the SQUARES of the
# scaled data (sums of squares of residuals, products of two polynomial coefficients) stay far inside the normal
# float64 range: |data| in [1e-10, 1e3] and |k| <= 400 -> squares in [1e-261, 1e247].
LADDER_P2_QUICK = (-120, -90, -60, -40, -20, 20, 40, 60, 90, 120)
LADDER_P2_THOROUGH = (-400, -300, -200, -150, -120, -90, -60, -40, -30, -20, -10, 10, 20, 30, 40, 60, 90, 120, 150, 200, 300, 400)
LADDER_DEC = ('1e-30', '1e-17', '1e-9', '1e9', '1e17', '1e30')
EXTREMES = ('p2:-120', 'p2:120')      # both ends of the quick ladder (families where the whole ladder is too expensive)


# LADDER_NOTE (calibration; thorough ladder, every shape {3..9}^2, kinds signed / positive / blob, seeds 0-2):
#   'p2:k' rungs: com 0, quadratic 0 on the unchanged tree (exact scaling); 1dg / 2dg 0 once the fits are done on
#   normalised data (proposed_fixes/C17-gaussian-centroids-depend-on-data-units), 0.12 / 0.096 px on the pinned tree whose
#   fitter stops on an absolute gradient tolerance -- a genuine dependence on the units of the data, not rounding;
#   decimal rungs: com 5.7e-13 (signed data; inside the fsum-derived bound), quadratic 6.7e-14, 1dg 8.9e-9, 2dg 3.1e-9.
#   Bounds used: com 0 for 'p2:k' / the fsum-derived rounding bound otherwise; quadratic 1e-9; Gaussian fits 1e-5 (the
#   bounds of the older x2 / x1e-3 relations: the relation is the same at every magnitude).
def ladder(tier):
    return tuple(f'p2:{k}' for k in (LADDER_P2_THOROUGH if tier == 'thorough' else LADDER_P2_QUICK)) + tuple('x' + t for t in LADDER_DEC)


def is_rung(name):
    return name.startswith(('p2:', 'x'))


def rung_factor(rung):
    return math.ldexp(1.0, int(rung[3:])) if rung.startswith('p2:') else float(rung[1:])


def rung_exact(rung):
    return rung.startswith('p2:')


def rung_side(rung):
    """which end of the ladder: a defect at tiny magnitudes and one at huge magnitudes are different defects"""
    return 'small' if rung_factor(rung) < 1 else 'large'


def scaled(d, rung):
    with np.errstate(all='ignore'):     # garbage underneath a mask (1e300) may overflow to inf: still garbage
        return d * rung_factor(rung)


def funcs():
    from photutils.centroids import centroid_1dg, centroid_2dg, centroid_com, centroid_quadratic
    return {'com': centroid_com, 'quad': centroid_quadratic, '1dg': centroid_1dg, '2dg': centroid_2dg}


def call(f, data, **kw):
    """-> ('ok', array(2)) or ('exc', 'Type: msg').  Inputs are copied so that a
    function that modifies its input (a C10 matter) cannot disturb this check."""
    kw = {k: (v.copy() if isinstance(v, np.ndarray) else v) for k, v in kw.items()}
    try:
        with warnings.catch_warnings():
            warnings.simplefilter('ignore')
            r = f(data.copy(), **kw)
        r = np.asarray(r, dtype=float)
        if r.shape != (2,):
            return 'exc', f'bad return shape {r.shape}'
        return 'ok', r
    except Exception as e:  # decided by the caller
        return 'exc', f'{type(e).__name__}: {e}'


# ----------------------------------------------------------------------------
# how a mask reaches a centroid function
FORMS = ('kw', 'ma', 'ma+kw')     # mask= keyword | mask of a MaskedArray input | one masked pixel in each of the two
# A MaskedArray input is handled (its mask combined with mask=) by the Gaussian-fit functions only; centroid_com and
# centroid_quadratic document ``data`` as a plain ndarray and are not judged on MaskedArray inputs (on the pinned tree
# centroid_com happens to honour the mask, centroid_quadratic does not).
MA_FUNCS = ('1dg', '2dg')
MA_SKIP = 'MaskedArray input: only the Gaussian-fit functions take one (data documented as ndarray for com / quadratic)'


def split_mask(mask, form):
    """-> (mask carried by the MaskedArray input or None, mask given as keyword or None)"""
    if mask is None or form == 'kw':
        return None, mask
    if form == 'ma':
        return mask, None
    m1 = np.zeros(mask.shape, bool)
    nz = np.argwhere(mask)
    if len(nz):
        m1[tuple(nz[0])] = True        # first masked pixel (row-major) travels with the MaskedArray, the rest as keyword
    return m1, mask & ~m1


def pack(d, m_ma, m_kw, form):
    """-> (data object, keywords): a plain ndarray for form 'kw', otherwise a MaskedArray (without a mask if m_ma is None)"""
    data = d if form == 'kw' else np.ma.array(d, mask=(np.ma.nomask if m_ma is None else m_ma))
    return data, ({} if m_kw is None else {'mask': m_kw})


def callp(f, d, m_ma, m_kw, form):
    data, kw = pack(d, m_ma, m_kw, form)
    return call(f, data, **kw)


def rng_for(seed, *tag):
    return np.random.default_rng([int(seed) + 1000] + [int(t) for t in tag])


# ----------------------------------------------------------------------------
# reference: centre of mass
def ref_com(data, mask=None):
    """Intensity-weighted mean pixel coordinate of the unmasked finite pixels
    with math.fsum -> ((x, y), tol) where tol bounds the rounding error of
    any straightforward float64 evaluation:  n*eps*(sum|x d| + |c| sum|d|)/|sum d|
    with n <= 128 terms (recursive summation bound), plus 4 eps |c|."""
    ny, nx = data.shape
    xs, ys, ds = [], [], []
    for y in range(ny):
        for x in range(nx):
            v = data[y, x]
            if (mask is not None and mask[y, x]) or not math.isfinite(v):
                continue
            xs.append(x)
            ys.append(y)
            ds.append(float(v))
    tot = math.fsum(ds)
    if tot == 0 or not ds:
        return None, None
    sabs = math.fsum(abs(d) for d in ds)
    out, tol = [], []
    for cs in (xs, ys):
        c = math.fsum(a * d for a, d in zip(cs, ds)) / tot
        m1 = math.fsum(abs(a * d) for a, d in zip(cs, ds))
        out.append(c)
        tol.append(128 * EPS * (m1 + abs(c) * sabs) / abs(tot) + 4 * EPS * abs(c) + 1e-300)
    return np.array(out), np.array(tol)


# ----------------------------------------------------------------------------
# (sym) point-symmetric sources
GARBAGE = (np.nan, np.inf, -1.0e300, 7.25, -3.5, 1.0e5)


def make_sym(ny, nx, cx2, cy2, seed, peaked=True, amp=0.3):
    """Generic positive array symmetrised about (cx2/2, cy2/2).
    -> data (zero outside the symmetric support), support (bool)."""
    rng = rng_for(seed, 1, ny, nx, cx2, cy2)
    a = rng.random((ny, nx))
    s = np.zeros((ny, nx))
    sup = np.zeros((ny, nx), bool)
    for y in range(ny):
        for x in range(nx):
            y2, x2 = cy2 - y, cx2 - x
            if 0 <= y2 < ny and 0 <= x2 < nx:
                s[y, x] = 1.0 + amp * (a[y, x] + a[y2, x2])
                sup[y, x] = True
    if peaked:
        yy, xx = np.mgrid[0:ny, 0:nx]
        # the envelope is evaluated from |2p - 2c| (exact integers), hence exactly symmetric
        s = s * np.exp(-((2 * xx - cx2) ** 2 + (2 * yy - cy2) ** 2) / 24.0)
    return s, sup


SYM_VARIANTS = ('zero', 'masked', 'flat', 'masked+nf', 'masked+nf:ma')
SYM_LADDER_VARIANTS = ('zero', 'masked')


def sym_centres(ny, nx):
    return [(cx2, cy2) for cx2 in range(2, 2 * nx - 3) for cy2 in range(2, 2 * ny - 3)]


def check_sym(acc, case, seed, F):
    ny, nx = case['shape']
    cx2, cy2 = case['c2']
    variant = case['variant']
    # 'masked+nf[:ma]': the masked-garbage variant with, in addition, a point-symmetric PAIR of UNMASKED non-finite
    # pixels (NaN and +inf) inside the support -- the unmasked finite pixels still form a point-symmetric source --
    # and the mask given as keyword resp. as the mask of a MaskedArray input
    nf = variant.startswith('masked+nf')
    form = 'ma' if variant.endswith(':ma') else 'kw'
    c = np.array([cx2 / 2.0, cy2 / 2.0])
    s, sup = make_sym(ny, nx, cx2, cy2, seed, peaked=(variant != 'flat'))
    whole = bool(sup.all())
    nfpair = None
    if nf:
        for (y, x) in np.argwhere(sup):
            if (cy2 - y, cx2 - x) != (y, x):
                nfpair = ((int(y), int(x)), (int(cy2 - y), int(cx2 - x)))      # first support pixel (row-major) + its mirror
                break
    if variant in ('zero', 'flat'):
        data, mask = s, None
    else:
        data = s.copy()
        rng = rng_for(seed, 2, ny, nx, cx2, cy2)
        out = np.argwhere(~sup)
        for j, (y, x) in enumerate(out):
            data[y, x] = GARBAGE[(j + rng.integers(0, 6)) % 6]
        mask = ~sup
    wx = int(sup.any(axis=0).sum())
    wy = int(sup.any(axis=1).sum())
    for name in FUNC_NAMES:
        f = F[name]
        kw = {} if mask is None else {'mask': mask}
        if name == 'com':
            applies, tol = True, 1e-10   # positive data, <= 81 terms: rounding <= 81*eps*max coordinate ~ 1e-13
        elif name == 'quad':
            # rule: centre on a pixel centre, unique maximum there, default 5x5 (or 3x3) fit box inside the
            # support (then the least-squares quadratic of point-symmetric data has its vertex at the centre)
            # plus: peaked source whose modulation (2 %) is small against the curvature of the envelope, so that
            # the fitted surface is concave (otherwise the documented outcome is NaN: "no maximum")
            kw['fit_boxsize'] = 5 if (min(wx, wy) >= 5 and min(nx, ny) >= 5) else 3
            h = kw['fit_boxsize'] // 2
            ok = (cx2 % 2 == 0 and cy2 % 2 == 0 and variant != 'flat')
            s, _ = make_sym(ny, nx, cx2, cy2, seed, peaked=True, amp=0.02)
            qdata = np.where(sup, s, data)
            if ok:
                ix, iy = cx2 // 2, cy2 // 2
                vv = np.where(sup, s, -np.inf)
                ok = (h <= ix < nx - h and h <= iy < ny - h and sup[iy - h:iy + h + 1, ix - h:ix + h + 1].all()
                      and vv[iy, ix] == vv.max() and np.count_nonzero(vv == vv.max()) == 1
                      and 0 < ix < nx - 1 and 0 < iy < ny - 1)
            applies, tol = bool(ok), 1e-9    # lstsq on <= 25 well-conditioned points; measured worst 4e-15
        else:
            # rule: the unmasked array is point symmetric as a whole (masked garbage variant, or the support is
            # the whole array) (continued below)
            # rule: ... with >= 4 pixels of support on both axes (3 points per axis determine a Gaussian exactly:
            # the fit is degenerate and stops anywhere within ~1e-3)
            applies = (mask is not None or whole) and wx >= 4 and wy >= 4 and variant != 'flat'
            tol = 1e-6   # fit-based: measured worst 5e-16 on the unchanged tree (start value = centre by symmetry)
        if not applies:
            continue
        if form != 'kw' and name not in MA_FUNCS:
            acc.skip(MA_SKIP)
            continue
        dat = qdata if name == 'quad' else data
        if nfpair is not None:
            dat = dat.copy()
            dat[nfpair[0]] = np.nan
            dat[nfpair[1]] = np.inf
        if form == 'ma':
            kw = {k: v for k, v in kw.items() if k != 'mask'}
        pk = (lambda a: np.ma.array(a, mask=mask)) if form == 'ma' else (lambda a: a)
        st, r = call(f, pk(dat), **kw)
        acc.case(nontrivial=True, sample=dict(case, func=name) if acc.evaluations % 4001 == 3 else None)
        if st != 'ok':
            acc.violation('sym-raises', name, case, r, 'no exception', 'valid call raised')
            continue
        acc.outcome((name, round(float(r[0]), 6), round(float(r[1]), 6)))
        if not np.all(np.abs(r - c) <= tol):
            acc.violation('symmetry-centre', f'{name}:{"masked" if mask is not None else "unmasked"}' + ('+nonfinite' if nf else ''), case, r, c,
                          f'point-symmetric source about {c.tolist()}, |dev|={np.abs(r - c).max():.3g} > {tol}')
        if mask is not None:
            # values underneath the mask are irrelevant: bit-exact
            d2 = dat.copy()
            out = np.argwhere(mask)
            for j, (y, x) in enumerate(out):
                d2[y, x] = GARBAGE[(j + 3) % 6] if j % 2 else 0.125 * j
            st2, r2 = call(f, pk(d2), **kw)
            if st2 != 'ok' or not np.array_equal(r, r2, equal_nan=True):
                acc.violation('mask-blind', name + ('+nonfinite' if nf else ''), case, r2, r, 'changing values of masked pixels changed the result')
        # magnitude ladder (both ends): a point-symmetric source times a positive factor is a point-symmetric source about
        # the same centre.  Quick: the two closed-form functions; thorough: the Gaussian fits too (same rule, same bound:
        # the start value of the fit is the centre by symmetry at every magnitude)
        if variant in SYM_LADDER_VARIANTS and (name in ('com', 'quad') or case.get('tier') == 'thorough'):
            for rung in EXTREMES:
                st4, r4 = call(f, pk(scaled(dat, rung)), **kw)
                acc.case(nontrivial=True)
                if st4 != 'ok':
                    acc.violation('sym-raises', f'{name}:ladder:{rung_side(rung)}', case, r4, 'no exception', f'valid call raised on data x {rung}')
                elif not np.all(np.abs(r4 - c) <= tol):
                    acc.violation('symmetry-centre', f'{name}:ladder:{rung_side(rung)}', case, r4, c,
                                  f'point-symmetric source about {c.tolist()} times {rung} = {rung_factor(rung):.3g}')


# ----------------------------------------------------------------------------
# (generic) definition of com + metamorphic relations of all functions
TRANSFORMS = ('flipud', 'fliplr', 'flipboth', 'transpose', 'scale2', 'scale1e-3')
GEN_MASKS = ('none', 'mask', 'nan', 'mask+nf')


def gen_variants():
    """mask variant x how the mask arrives (a MaskedArray input without a mask for 'none' / 'nan'; nothing to split there)"""
    return [(mvar, form) for mvar in GEN_MASKS for form in FORMS if not (mvar in ('none', 'nan') and form == 'ma+kw')]



def make_generic(ny, nx, kind, seed):
    rng = rng_for(seed, 3, ny, nx, {'signed': 0, 'positive': 1, 'blob': 2}[kind])
    if kind == 'signed':
        return rng.normal(0.3, 1.0, size=(ny, nx))
    if kind == 'positive':
        return rng.random((ny, nx)) + 0.05
    # single-peaked positive elliptical blob + 3 % modulation, not symmetric, peak off-centre
    yy, xx = np.mgrid[0:ny, 0:nx]
    x0 = (nx - 1) / 2 + 0.37
    y0 = (ny - 1) / 2 - 0.21
    sx, sy = 0.22 * nx + 0.3, 0.2 * ny + 0.35
    g = np.exp(-0.5 * (((xx - x0) / sx) ** 2 + ((yy - y0) / sy) ** 2) - 0.1 * (xx - x0) * (yy - y0) / (sx * sy))
    return 100.0 * g * (1 + 0.03 * rng.random((ny, nx)))


def transform(name, d):
    if name == 'flipud':
        return d[::-1, :].copy()
    if name == 'fliplr':
        return d[:, ::-1].copy()
    if name == 'flipboth':
        return d[::-1, ::-1].copy()
    if name == 'transpose':
        return d.T.copy()
    if name == 'scale2':
        return d * 2.0 if d.dtype != bool else d.copy()
    if name == 'scale1e-3':
        return d * 1.0e-3 if d.dtype != bool else d.copy()
    if is_rung(name):
        return scaled(d, name) if d.dtype != bool else d.copy()
    raise AssertionError(name)


def map_xy(name, r, ny, nx):
    x, y = r
    if name == 'flipud':
        return np.array([x, ny - 1 - y])
    if name == 'fliplr':
        return np.array([nx - 1 - x, y])
    if name == 'flipboth':
        return np.array([nx - 1 - x, ny - 1 - y])
    if name == 'transpose':
        return np.array([y, x])
    return np.array([x, y])


def unique_max(d, mask):
    v = np.where(np.isfinite(d), d, -np.inf)
    if mask is not None:
        v = np.where(mask, -np.inf, v)
    m = v.max()
    return bool(np.isfinite(m) and np.count_nonzero(v == m) == 1)


def check_generic(acc, case, seed, F):
    ny, nx = case['shape']
    kind = case['kind2']
    mvar = case['mask']
    form = case.get('form', 'kw')
    d0 = make_generic(ny, nx, kind, seed)
    d = d0
    mask = None            # pixels excluded from the calculation (by the mask and/or by being non-finite)
    user = None            # the mask handed to the function
    if mvar != 'none':
        mask = np.zeros((ny, nx), bool)
        mask[0, nx - 1] = True
        mask[ny // 2, 0] = True
        d = d0.copy()
        if mvar == 'nan':        # the same pixels made non-finite instead of masked
            d[0, nx - 1] = np.nan
            d[ny // 2, 0] = np.inf
        elif mvar == 'mask':
            user = mask
        else:                    # 'mask+nf': finite garbage underneath the mask AND two unmasked non-finite pixels elsewhere
            user = mask.copy()
            d[0, nx - 1] = 1.0e6
            d[ny // 2, 0] = -2.0e3
            d[ny - 1, 1] = np.nan
            d[1, nx // 2] = np.inf
            mask[ny - 1, 1] = True
            mask[1, nx // 2] = True
    m_ma, m_kw = split_mask(user, form)
    eff_mask = mask
    for name in FUNC_NAMES:
        if name in ('1dg', '2dg') and (kind != 'blob' or min(ny, nx) < 5):
            continue      # rule: Gaussian fits only on single-peaked positive inputs of >= 5x5 pixels
        if form != 'kw' and name not in MA_FUNCS:
            acc.skip(MA_SKIP)
            continue
        f = F[name]
        st, r = callp(f, d, m_ma, m_kw, form)
        acc.case(nontrivial=True, sample=dict(case, func=name) if acc.evaluations % 1501 == 5 else None)
        if st != 'ok':
            acc.violation('generic-raises', name, case, r, 'no exception', 'valid call raised')
            continue
        acc.outcome((name, round(float(r[0]), 5) if np.isfinite(r[0]) else 'nan'))
        if name == 'com':
            ref, tol = ref_com(d, eff_mask)
            if ref is not None and not np.all(np.abs(r - ref) <= tol):
                acc.violation('com-definition', f'mask={mvar}' + ('' if form == 'kw' else f':{form}'), case, r, ref,
                              f'sum(x d)/sum(d) over unmasked finite pixels; tol {tol.tolist()}')
        if not (mvar == 'none' and form == 'kw') and not (mvar == 'mask' and form == 'kw'):
            # canonical call: the clean array as a plain ndarray with EVERY excluded pixel (masked by the keyword, masked
            # by the MaskedArray input, non-finite) flagged in mask= .  Non-finite pixels are ignored like masked ones,
            # values underneath a mask are ignored, and it does not matter how the mask arrives.
            st3, r3 = call(f, d0, **({} if mask is None else {'mask': mask}))
            # com / quad: identical arithmetic (zero / NaN filled) -> bit-exact; fits: the same pixels are excluded -> same fit
            # (measured on the unchanged tree, seeds 0-2, all shapes, every variant x delivery: 0.0 for 1dg and 2dg; the
            # flip / rescaling relations below on the 'mask+nf' variant: flips 4.7e-14, rescaling 5.9e-7 (2dg) -- within
            # the bounds calibrated for the other variants)
            if st3 != 'ok' or not np.allclose(r, r3, rtol=0, atol=0 if name in ('com', 'quad') else 1e-7, equal_nan=True):
                clause = {'nan': 'nonfinite-as-masked', 'mask+nf': 'masked-and-nonfinite-as-masked'}.get(mvar, 'maskedarray-as-mask-keyword')
                acc.violation(clause, name + ('' if form == 'kw' else f':{form}'), case, r, r3,
                              'differs from the same call with every masked / non-finite pixel flagged in mask= (clean values underneath)')
        # metamorphic relations
        if name == 'quad' and not unique_max(d, eff_mask):
            acc.skip('quad: maximum not unique (argmax tie-break is not flip covariant)')
            continue
        # (the magnitude ladder with the mask= keyword delivery only: how the mask arrives and the magnitude do not interact)
        for tname in TRANSFORMS + (ladder(case.get('tier', 'quick')) if form == 'kw' else ()):
            d2 = transform(tname, d)
            st2, r2 = callp(f, d2, None if m_ma is None else transform(tname, m_ma),
                            None if m_kw is None else transform(tname, m_kw), form)
            want = map_xy(tname, r, ny, nx)
            if name == 'com':
                ref, tol = ref_com(d, eff_mask)
                tol = 2 * tol + 8 * EPS * max(nx, ny) if ref is not None else np.zeros(2)
                if tname == 'scale2' or (is_rung(tname) and rung_exact(tname)):
                    tol = np.zeros(2)        # scaling by a power of two is exact in binary floating point
                if tname == 'transpose':
                    tol = tol[::-1]
            elif name == 'quad':
                # least squares on <= 25 points of O(1..100) data; the transforms change the rounding only.
                # measured worst over seeds 0-2, all shapes: 1.6e-13
                tol = np.full(2, 1e-9)
            elif tname.startswith('scale') or is_rung(tname):
                # iterative fit; rescaling changes the fitter's step/termination arithmetic.
                # measured worst (seeds 0-2, all shapes): x2 1.6e-9, x1e-3 7.1e-7 (2dg) -> x10 margin and more
                # (ladder rungs: LADDER_NOTE below)
                tol = np.full(2, 1e-5)
            else:
                # iterative fit: the mirrored problem runs through mirrored iterates up to rounding.
                # measured worst (seeds 0-2, all shapes): 4.3e-10 (1dg flipud) -> x200 margin
                tol = np.full(2, 1e-7)
            tsite = f'ladder:{rung_side(tname)}' if is_rung(tname) else tname      # one key per end of the ladder, not per rung
            if st2 != 'ok':
                acc.violation('commute-raises', f'{name}:{tsite}', case, r2, want, f'transform {tname}')
                continue
            bad = ~((np.abs(r2 - want) <= tol) | (np.isnan(r2) & np.isnan(want)))
            if bad.any():
                acc.violation('commutes', f'{name}:{tsite}', case, r2, want, f'transform {tname}: '
                              f'f(T(data)) != T(f(data)); |dev|={np.nanmax(np.abs(np.where(np.isnan(r2 - want), np.inf, r2 - want))):.3g}, tol={tol.tolist()}')


# ----------------------------------------------------------------------------
# (quad) exactly quadratic peaks
QSHAPES_QUICK = [(3, 3), (4, 5), (5, 5), (6, 7)]
QSHAPES_THOROUGH = QSHAPES_QUICK + [(9, 8), (3, 6), (7, 4)]
FRACS = (-0.4, -0.2, 0.0, 0.3, 0.45)
CURV = ((-1.0, -1.0, 0.0), (-2.0, -0.7, 0.5), (-0.5, -1.5, -0.6))
BOXES = (3, 5, (3, 5))
QMASKS = ('none', 'off-peak-nan', 'peak')
PEAKS = ('none', 'exact', 'offset', 'half', 'search3')


def round_half_away(x):
    return int(math.floor(x + 0.5)) if x >= 0 else int(math.ceil(x - 0.5))


def check_quad(acc, case, seed, F):
    ny, nx = case['shape']
    px, py = case['pix']
    fx, fy = case['frac']
    cxx, cyy, cxy = case['curv']
    box = case['box']
    box = tuple(box) if isinstance(box, (list, tuple)) else box
    mvar, pvar = case['mask'], case['peak']
    vx, vy = px + fx, py + fy
    yy, xx = np.mgrid[0:ny, 0:nx]
    q = 10.0 + cxx * (xx - vx) ** 2 + cyy * (yy - vy) ** 2 + cxy * (xx - vx) * (yy - vy)
    f = F['quad']
    mask = None
    amp = case.get('amp')             # rung of the magnitude ladder: the exactly quadratic peak times a positive factor
    if amp is not None:               # is an exactly quadratic peak (for 'p2:k' every pixel value is the exactly scaled one)
        q = scaled(q, amp)
    asite = '' if amp is None else f',amp={rung_side(amp)}'
    data = q.copy()
    if mvar == 'off-peak-nan':
        mask = np.zeros((ny, nx), bool)
        y, x = (py + 1, px) if py + 1 < ny else (py - 1, px)
        mask[y, x] = True
        data[y, x] = np.nan
    elif mvar == 'peak':
        mask = np.zeros((ny, nx), bool)
        mask[py, px] = True
        data[py, px] = 1.0e6
    kw = {'fit_boxsize': box}
    if mask is not None:
        kw['mask'] = mask
    bshape = (box, box) if np.isscalar(box) else box
    if bshape[0] > ny or bshape[1] > nx:
        acc.skip('fit_boxsize larger than the data (documented ValueError)')
        return
    v = np.where(mask, -np.inf, q) if mask is not None else q
    # start pixel of the fit, from the documentation
    if pvar == 'none':
        m = v.max()
        if np.count_nonzero(v == m) != 1:
            acc.skip('quad: maximum not unique')
            return
        sy, sx = [int(t) for t in np.argwhere(v == m)[0]]
    else:
        xp, yp = {'exact': (px, py), 'offset': (px + 0.3, py - 0.3), 'half': (px - 0.5, py + 0.5),
                  'search3': (px + 0.3, py - 0.3)}[pvar]
        xp, yp = float(min(max(xp, 0), nx - 1)), float(min(max(yp, 0), ny - 1))
        kw['xpeak'], kw['ypeak'] = xp, yp
        sx, sy = round_half_away(xp), round_half_away(yp)
        if pvar == 'search3':
            kw['search_boxsize'] = 3
            y0, y1, x0, x1 = max(sy - 1, 0), min(sy + 2, ny), max(sx - 1, 0), min(sx + 2, nx)
            sub = v[y0:y1, x0:x1]
            m = sub.max()
            if np.count_nonzero(sub == m) != 1:
                acc.skip('quad: maximum in the search box not unique')
                return
            j = np.argwhere(sub == m)[0]
            sy, sx = int(j[0]) + y0, int(j[1]) + x0
    st, r = call(f, data, **kw)
    edge = sx in (0, nx - 1) or sy in (0, ny - 1)
    acc.case(nontrivial=not edge, sample=case if acc.evaluations % 3001 == 11 else None)
    if st != 'ok':
        acc.violation('quad-raises', f'peak={pvar}{asite}', case, r, 'no exception')
        return
    acc.outcome((round(float(r[0]), 6) if np.isfinite(r[0]) else 'nan'))
    if edge:
        # documented: no fit is performed when the start pixel is at the edge; its position is returned
        if not np.array_equal(r, [sx, sy]):
            acc.violation('quad-edge-rule', f'peak={pvar}{asite}', case, r, [sx, sy],
                          'start pixel on the edge: documented to return the position of that pixel')
        return
    # the fit box around an interior pixel (shifted inside) holds >= 6 unmasked points of an exactly quadratic
    # surface -> the least-squares solution is that surface and its vertex (vx, vy) lies inside the image
    # for every case of this alphabet; tolerance: lstsq conditioning on integer coordinates <= 8, measured 2e-12
    if not (0.0 < vx < nx - 1 and 0.0 < vy < ny - 1):
        acc.skip('vertex outside the image (documented NaN)')
        return
    # (amplitude ladder: the vertex formula is homogeneous of degree 0 in the coefficients, which are linear in the data:
    # the same bound at every magnitude; measured worst over the quick ladder on the unchanged tree: see LADDER_NOTE)
    if not np.all(np.abs(r - (vx, vy)) <= 1e-9):
        acc.violation('quad-vertex', f'mask={mvar},peak={pvar},box={"sq" if np.isscalar(box) else "rect"}{asite}', case, r, [vx, vy],
                      'exactly quadratic peak' + ('' if amp is None else f' times {amp} = {rung_factor(amp):.3g}') + ': the vertex must be returned')


# ----------------------------------------------------------------------------
# (qsearch) xpeak / ypeak / search_boxsize on data that are NOT exactly quadratic
# (on exactly quadratic data every fit box returns the same vertex, so the (quad) family cannot see WHICH pixel
# the fit box was centred on).  Documented algorithm: the initial centre of the fit box is the pixel nearest to
# (xpeak, ypeak); with search_boxsize it is the brightest (unmasked, finite) pixel within the box of that size
# centred on that pixel (the part of the box inside the data); the quadratic is then fitted in the box of
# fit_boxsize around that pixel; a start pixel on the edge is returned as is.
SSHAPES_QUICK = [(5, 5), (6, 7)]
SSHAPES_THOROUGH = SSHAPES_QUICK + [(7, 5), (5, 8), (8, 6), (9, 9)]
SBOXES = (3, 5, (3, 5), (5, 3))
SFITS = (3, 5, (3, 5))
SPEAKV = ('int', 'frac')
SMASKS = ('none', 'max-masked', 'max-nan')
STRANSFORMS = ('flipud', 'fliplr', 'flipboth', 'transpose')


def make_sdata(ny, nx, dspec, seed):
    """dspec: ['noise'] generic positive reals | ['peaks'] four Gaussian-like sources next to the four corners
    at generic sub-pixel positions + 3 % modulation | ['sym', cx, cy] point-symmetric peaked source centred on
    pixel (cx, cy), zero outside the symmetric support."""
    if dspec[0] == 'sym':
        s, sup = make_sym(ny, nx, 2 * dspec[1], 2 * dspec[2], seed, peaked=True, amp=0.02)
        return 40.0 * s, sup
    rng = rng_for(seed, 5, ny, nx, 0 if dspec[0] == 'noise' else 1)
    if dspec[0] == 'noise':
        return rng.random((ny, nx)) + 0.05, None
    yy, xx = np.mgrid[0:ny, 0:nx]
    off = 0.15 + 0.3 * rng.random(8)
    cen = ((1 + off[0], 1 - off[1], 50.0), (nx - 2 - off[2], 1 + off[3], 40.0),
           (1 - off[4], ny - 2 + off[5], 45.0), (nx - 2 + off[6], ny - 2 - off[7], 35.0))
    d = np.zeros((ny, nx))
    for (x0, y0, a) in cen:
        d += a * np.exp(-((xx - x0) ** 2 + (yy - y0) ** 2) / (2 * 1.1 ** 2))
    return d * (1 + 0.03 * rng.random((ny, nx))), None


def pair(b):
    return (int(b), int(b)) if np.isscalar(b) else (int(b[0]), int(b[1]))


def ref_fit(v, sy, sx, fbox):
    """Independent least-squares quadratic in the fit box CENTRED on (sx, sy) (caller guarantees that the box is
    inside the data), NaN = excluded pixel.  Normal equations in box-centred integer coordinates (|u| <= 2:
    condition number of the 6x6 Gram matrix < 1e3) -> ('nan'|'ok'|'ambiguous', vertex)."""
    ny, nx = v.shape
    hy, hx = fbox[0] // 2, fbox[1] // 2
    us, ws, zs = [], [], []
    for y in range(sy - hy, sy + hy + 1):
        for x in range(sx - hx, sx + hx + 1):
            if np.isfinite(v[y, x]):
                us.append(x - sx)
                ws.append(y - sy)
                zs.append(v[y, x])
    if len(zs) < 6:
        return 'nan', None
    u, w, z = np.array(us, float), np.array(ws, float), np.array(zs, float)
    A = np.stack([np.ones_like(u), u, w, u * w, u * u, w * w], axis=1)
    G = A.T @ A
    if np.linalg.cond(G) > 1e6:
        return 'ambiguous', None      # masked pixel makes the 6-parameter fit (nearly) rank deficient
    c = np.linalg.solve(G, A.T @ z)
    _, c10, c01, c11, c20, c02 = c
    det = 4 * c20 * c02 - c11 ** 2
    scale = c20 ** 2 + c02 ** 2 + c11 ** 2
    if abs(det) <= 1e-9 * scale or min(abs(c20), abs(c02)) <= 1e-9 * math.sqrt(scale):
        return 'ambiguous', None      # sign of the curvature decided by rounding
    if det < 0 or c20 > 0 or c02 > 0:
        return 'nan', None            # documented: fit has no maximum
    xm = (c01 * c11 - 2.0 * c02 * c10) / det + sx
    ym = (c10 * c11 - 2.0 * c20 * c01) / det + sy
    for t, n in ((xm, nx), (ym, ny)):
        if min(abs(t), abs(t - (n - 1))) < 1e-7:
            return 'ambiguous', None
    if not (0.0 < xm < nx - 1 and 0.0 < ym < ny - 1):
        return 'nan', None            # documented: maximum outside the image
    return 'ok', np.array([xm, ym])


def t_box(tname, b):
    return b if (tname != 'transpose' or np.isscalar(b)) else (b[1], b[0])


def check_qsearch(acc, case, seed, F):
    ny, nx = case['shape']
    dspec = case['data']
    xp0, yp0 = case['pix']
    sbox = case['sbox']
    sbox = tuple(sbox) if isinstance(sbox, (list, tuple)) else sbox
    fbox = case['fbox']
    fbox = tuple(fbox) if isinstance(fbox, (list, tuple)) else fbox
    pv, mvar = case['peakv'], case['mask']
    f = F['quad']
    d0, sup = make_sdata(ny, nx, dspec, seed)
    if pv == 'int':
        xpeak, ypeak = float(xp0), float(yp0)
    else:       # generic fractional guess that rounds to the same pixel and stays inside [0, n-1]
        xpeak = xp0 + 0.3 if xp0 < nx - 1 else xp0 - 0.3
        ypeak = yp0 - 0.3 if yp0 > 0 else yp0 + 0.3
    rx, ry = round_half_away(xpeak), round_half_away(ypeak)
    sh, fh = pair(sbox), pair(fbox)
    y0, y1 = max(ry - sh[0] // 2, 0), min(ry + sh[0] // 2 + 1, ny)
    x0, x1 = max(rx - sh[1] // 2, 0), min(rx + sh[1] // 2 + 1, nx)
    trim = ('x' if x1 - x0 < sh[1] else '') + ('y' if y1 - y0 < sh[0] else '') or 'none'

    def brightest(v):
        sub = v[y0:y1, x0:x1]
        fin = np.where(np.isfinite(sub), sub, -np.inf)
        m = fin.max()
        if not np.isfinite(m) or np.count_nonzero(fin == m) != 1:
            return None
        j = np.argwhere(fin == m)[0]
        return int(j[0]) + y0, int(j[1]) + x0

    data, mask = d0.copy(), None
    v = d0.copy()                      # NaN = pixel excluded from the calculation
    if mvar != 'none':
        b = brightest(d0)
        if b is None:
            acc.skip('qsearch: maximum in the search box not unique')
            return
        v[b] = np.nan
        if mvar == 'max-masked':
            mask = np.zeros((ny, nx), bool)
            mask[b] = True
            data[b] = 1.0e6            # arbitrary (large) value underneath the mask
        else:
            data[b] = np.nan
    st_ = brightest(v)
    if st_ is None:
        acc.skip('qsearch: maximum in the search box not unique')
        return
    sy, sx = st_
    kwm = {} if mask is None else {'mask': mask}
    kw = dict(kwm, xpeak=xpeak, ypeak=ypeak, search_boxsize=sbox, fit_boxsize=fbox)
    st, r = call(f, data, **kw)
    moved = (sy, sx) != (ry, rx)
    acc.case(nontrivial=moved or trim != 'none', sample=case if acc.evaluations % 6007 == 17 else None)
    if st != 'ok':
        acc.violation('qsearch-raises', f'trim={trim}', case, r, 'no exception', 'valid call raised')
        return
    acc.outcome((trim, moved, round(float(r[0]), 6) if np.isfinite(r[0]) else 'nan'))
    edge = sx in (0, nx - 1) or sy in (0, ny - 1)
    # (a) the search only relocates the start pixel: same result as giving the brightest pixel of the search box
    #     (found independently) as (xpeak, ypeak) without a search box -- identical arithmetic, bit-exact
    st1, r1 = call(f, data, xpeak=float(sx), ypeak=float(sy), fit_boxsize=fbox, **kwm)
    if st1 != 'ok' or not np.array_equal(r, r1, equal_nan=True):
        acc.violation('search-start-pixel', f'trim={trim}', case, r, r1,
                      f'brightest unmasked pixel of the search box rows {y0}:{y1}, cols {x0}:{x1} is (x={sx}, y={sy}); '
                      'the result differs from centroid_quadratic(xpeak=x, ypeak=y) without search_boxsize')
    # (b) documented edge rule
    if edge:
        if not np.array_equal(r, [sx, sy]):
            acc.violation('quad-edge-rule', f'search:trim={trim}', case, r, [sx, sy],
                          'start pixel on the edge: documented to return the position of that pixel')
    else:
        # (c) independent fit, only where the fit box centred on the start pixel lies inside the data
        #     (placement of a clipped fit box is not documented)
        if fh[0] // 2 <= sy < ny - fh[0] // 2 and fh[1] // 2 <= sx < nx - fh[1] // 2:
            kind, ref = ref_fit(v, sy, sx, fh)
            # tolerance: two least-squares solvers on <= 25 points, Gram condition < 1e6, vertex inside the image
            # (|vertex - start| < 9 bounds the amplification); measured worst on the unchanged tree (seeds 0-2,
            # shapes 5x5, 6x7, 7x5, 9x9): 9.5e-13 -> 1e-8
            if kind == 'nan' and not np.all(np.isnan(r)):
                acc.violation('search-fit', 'expected-nan', case, r, [np.nan, np.nan],
                              'independent fit around the start pixel has no maximum inside the image (documented NaN)')
            elif kind == 'ok' and not np.all(np.abs(r - ref) <= 1e-8):
                acc.violation('search-fit', f'trim={trim}', case, r, ref,
                              f'independent least-squares quadratic in the {fh} box centred on (x={sx}, y={sy})')
        # (d) symmetry centre: point-symmetric source whose centre pixel is the unique brightest pixel of the
        #     search box and whose (unclipped) fit box lies inside the symmetric support
        if dspec[0] == 'sym' and mvar == 'none' and (sx, sy) == (dspec[1], dspec[2]):
            hy, hx = fh[0] // 2, fh[1] // 2
            if (hy <= sy < ny - hy and hx <= sx < nx - hx and sup[sy - hy:sy + hy + 1, sx - hx:sx + hx + 1].all()):
                if not np.all(np.abs(r - (sx, sy)) <= 1e-9):
                    acc.violation('symmetry-centre', f'quad:search:trim={trim}', case, r, [sx, sy],
                                  'point-symmetric source, guess off-centre, centre pixel brightest in the search box')
    # (e) flips / transposition of the complete call (data, mask, xpeak, ypeak, box sizes)
    for tname in STRANSFORMS + (EXTREMES if case.get('tier') == 'thorough' else ()):
        kw2 = {'xpeak': None, 'ypeak': None, 'search_boxsize': t_box(tname, sbox), 'fit_boxsize': t_box(tname, fbox)}
        kw2['xpeak'], kw2['ypeak'] = [float(t) for t in map_xy(tname, (xpeak, ypeak), ny, nx)]
        if mask is not None:
            kw2['mask'] = transform(tname, mask)
        st2, r2 = call(f, transform(tname, data), **kw2)
        want = map_xy(tname, r, ny, nx)
        tsite = f'ladder:{rung_side(tname)}' if is_rung(tname) else tname
        if st2 != 'ok':
            acc.violation('commute-raises', f'quad-search:{tsite}', case, r2, want)
            continue
        # same tolerance and justification as the (generic) family: the transforms change the rounding only;
        # measured worst (seeds 0-2, shapes 5x5, 6x7, 7x5, 9x9): 1.9e-12 (symmetry-centre clause above: 8.6e-14)
        bad = ~((np.abs(r2 - want) <= 1e-9) | (np.isnan(r2) & np.isnan(want)))
        if bad.any():
            acc.violation('commutes', f'quad-search:{tsite}', case, r2, want,
                          f'{tname}: f(T(data), T(xpeak, ypeak, boxes)) != T(f(data)); search box trim={trim}')


def qsearch_data(tier, ny, nx):
    out = [['noise'], ['peaks']]
    out += [['sym', cx, cy] for cx in range(1, nx - 1) for cy in range(1, ny - 1)]
    return out


def qsearch_cases(tier, ny, nx, dspec):
    for xp in range(nx):
        for yp in range(ny):
            if dspec[0] == 'sym' and (abs(xp - dspec[1]) > 2 or abs(yp - dspec[2]) > 2):
                continue        # the largest search box cannot reach the source centre
            for sbox in SBOXES:
                for fbox in SFITS:
                    for pv in SPEAKV:
                        for mvar in SMASKS:
                            if dspec[0] == 'sym' and mvar != 'none':
                                continue    # (the next brightest pixels of a symmetric source form tied pairs)
                            yield dict({'kind': 'qsearch', 'shape': [ny, nx], 'data': list(dspec), 'pix': [xp, yp],
                                        'sbox': list(sbox) if isinstance(sbox, tuple) else sbox,
                                        'fbox': list(fbox) if isinstance(fbox, tuple) else fbox,
                                        'peakv': pv, 'mask': mvar}, **({'tier': tier} if tier == 'thorough' else {}))


# ----------------------------------------------------------------------------
# (sources) centroid_sources == centroid function on every position's cutout
IMG_SHAPE = (13, 15)
# (x, y): interior; cut by the right edge; cut by the corner; fractional (window by the ceil rule).
# The cutouts of #0 and #3 both contain XYPEAK, the other two do not (documented outcome there: NaN).
POSITIONS = ((4, 5), (13, 8), (1, 1), (6.4, 6.6))
SPECS = ('box5', 'box5x7', 'fp_cross5', 'fp_4x6')
XYPEAK = (5.0, 6.0)     # (xpeak, ypeak) in image coordinates


def scene(seed):
    ny, nx = IMG_SHAPE
    rng = rng_for(seed, 4)
    yy, xx = np.mgrid[0:ny, 0:nx]

    def g(a, x, y, s):
        return a * np.exp(-((xx - x) ** 2 + (yy - y) ** 2) / (2 * s * s))
    img = g(50, 4.3, 4.6, 1.3) + g(40, 12.8, 8.1, 1.5) + g(30, 6.7, 6.9, 1.2) + g(35, 1.2, 0.8, 1.1) + g(25, 8.2, 11.3, 1.2)
    img = img + rng.random((ny, nx))
    err = 1.0 + rng.random((ny, nx)) + 0.1 * np.sqrt(img)
    mask = np.zeros((ny, nx), bool)
    for (x, y) in ((5, 5), (13, 9), (0, 1), (7, 7), (3, 7)):
        mask[y, x] = True
    return img, err, mask


# scene variants: 'plain' (finite image) | 'nf' (one UNMASKED non-finite pixel inside every position's cutout and, when a
# mask is given, finite garbage underneath the mask) | 'nf:ma' (the same with the mask carried by a MaskedArray image
# instead of mask=)
SCENES = ('plain', 'nf', 'nf:ma')
NF_PIXELS = (((3, 4), np.nan), ((12, 7), np.inf), ((2, 2), np.nan), ((7, 6), -np.inf), ((9, 11), np.nan))    # ((x, y), value)


def scene_variant(seed, scn, use_mask):
    img, err, mask = scene(seed)
    if scn != 'plain':
        img = img.copy()
        if use_mask:
            for j, (y, x) in enumerate(np.argwhere(mask)):
                img[y, x] = (1.0e4, -2.0e3)[j % 2]
        for (x, y), v in NF_PIXELS:
            img[y, x] = v
    return img, err, mask


def footprint_of(spec):
    if spec == 'box5':
        return {'box_size': 5}, np.ones((5, 5), bool)
    if spec == 'box5x7':
        return {'box_size': (5, 7)}, np.ones((5, 7), bool)
    if spec == 'fp_cross5':
        fp = np.zeros((5, 5), bool)
        fp[2, :] = True
        fp[:, 2] = True
        fp[1:4, 1:4] = True
        return {'footprint': fp}, fp
    fp = np.ones((4, 6), bool)
    fp[0, 0] = False
    return {'footprint': fp}, fp


def window(p, n, N):
    lo = int(math.ceil(p - n / 2.0))
    hi = lo + n
    clo, chi = max(lo, 0), min(hi, N)
    return clo, chi, clo - lo, chi - lo


def expected_position(F, fname, img, err, mask, fp, pos, use_mask, extra, scn='plain'):
    """Direct call of the centroid function on this position's cutout.  In the 'nf' scenes the reference call gets
    every excluded pixel (footprint, mask, non-finite) flagged in mask= and zeros underneath."""
    x, y = pos
    y0, y1, sy0, sy1 = window(y, fp.shape[0], img.shape[0])
    x0, x1, sx0, sx1 = window(x, fp.shape[1], img.shape[1])
    cut = img[y0:y1, x0:x1]
    mcut = ~fp[sy0:sy1, sx0:sx1]
    if use_mask:
        mcut = mcut | mask[y0:y1, x0:x1]
    if scn != 'plain':
        mcut = mcut | ~np.isfinite(cut)
        cut = np.where(mcut, 0.0, cut)
    kw = {'mask': mcut}
    if extra == 'error' and fname in ('1dg', '2dg'):
        kw['error'] = err[y0:y1, x0:x1]
    if extra in ('peak', 'peaksearch') and fname == 'quad':
        kw['xpeak'] = XYPEAK[0] - x0
        kw['ypeak'] = XYPEAK[1] - y0
        if extra == 'peaksearch':
            kw['search_boxsize'] = 3
    st, r = call(F[fname], cut, **kw)
    if st != 'ok':
        if r.startswith(('ValueError', 'TypeError')):
            return np.array([np.nan, np.nan])      # documented: NaN where the centroid failed
        raise RuntimeError(f'reference call failed: {r}')
    return r + (x0, y0)


POSITIONS_THOROUGH = POSITIONS + ((8.0, 11.6),)     # + cut by the top edge, fractional


def position_lists(tier='quick'):
    idx = range(len(POSITIONS_THOROUGH if tier == 'thorough' else POSITIONS))
    out = []
    for k in ((1, 2, 3, 4) if tier == 'thorough' else (1, 2, 3)):
        out += [list(p) for p in itertools.permutations(idx, k)]
    out.append([0, 0])
    out.append([1, 0, 1])
    return out


def source_rungs(tier):
    """quick: both ends of the ladder (the wrapper passes the cutout on; the complete ladder of every centroid function
    itself is in the (generic) family); thorough: the complete ladder"""
    return ladder(tier) if tier == 'thorough' else EXTREMES


def source_ladder_lists(tier):
    n = len(POSITIONS_THOROUGH if tier == 'thorough' else POSITIONS)
    return [list(range(n)), list(range(n))[::-1]]       # every position of the alphabet, in both orders


def check_sources(acc, case, seed, F, cache=None):
    from photutils.centroids import centroid_sources
    fname, spec, use_mask, extra, plist = case['func'], case['spec'], case['mask'], case['extra'], case['positions']
    scn = case.get('scene', 'plain')
    rung = case.get('rung')           # magnitude ladder: the image times a positive factor (error map unchanged)
    img, err, mask = scene_variant(seed, scn, use_mask)
    img1 = img
    if rung is not None:
        img = scaled(img, rung)
    kwbox, fp = footprint_of(spec)
    kw = dict(kwbox)
    image = img.copy()
    if use_mask and scn == 'nf:ma':
        image = np.ma.array(image, mask=mask.copy())
    elif use_mask:
        kw['mask'] = mask.copy()
    if extra == 'error':
        kw['error'] = err.copy()
    elif extra in ('peak', 'peaksearch'):
        kw['xpeak'], kw['ypeak'] = XYPEAK
        if extra == 'peaksearch':
            kw['search_boxsize'] = 3
    cache = {} if cache is None else cache
    want = []
    for i in plist:
        k = (fname, spec, use_mask, extra, i, scn, rung)
        if k not in cache:
            cache[k] = expected_position(F, fname, img, err, mask, fp, POSITIONS_THOROUGH[i], use_mask, extra, scn)
        want.append(cache[k])
    want = np.array(want)
    xs = [POSITIONS_THOROUGH[i][0] for i in plist]
    ys = [POSITIONS_THOROUGH[i][1] for i in plist]
    acc.case(nontrivial=len(plist) >= 2, sample=case if acc.evaluations % 701 == 13 else None)
    try:
        with warnings.catch_warnings():
            warnings.simplefilter('ignore')
            gx, gy = centroid_sources(image, xs, ys, centroid_func=F[fname], **kw)
    except Exception as e:
        acc.violation('sources-raises', f'{fname}:extra={extra}', case, f'{type(e).__name__}: {e}', want.tolist())
        return
    got = np.array([np.asarray(gx, float), np.asarray(gy, float)]).T
    acc.outcome(got.tobytes())
    if got.shape != want.shape:
        acc.violation('sources-shape', fname, case, got.shape, want.shape)
        return
    # plain scene: the same arithmetic on the same cutout -> bit-exact.  'nf' scenes: the reference call excludes the same
    # pixels, but explicitly (mask=, zeros underneath) instead of automatically: bit-exact for com / quadratic (zero / NaN
    # filled sums, measured 0), fit tolerance 1e-7 for the Gaussian fits (same pixels excluded -> same fit; measured 0)
    atol = 1e-7 if (scn != 'plain' and fname in ('1dg', '2dg')) else 0.0
    bad = [k for k in range(len(plist)) if not np.allclose(got[k], want[k], rtol=0, atol=atol, equal_nan=True)]
    if bad:
        k = bad[0]
        where = ('first-position' if k == 0 else 'later-position') + ('' if scn == 'plain' else f':scene={scn}')
        kwname = {'error': 'error' if fname in ('1dg', '2dg') else 'error(ignored)',
                  'peak': 'xpeak/ypeak' if fname == 'quad' else 'xpeak/ypeak(ignored)',
                  'peaksearch': 'xpeak/ypeak/search_boxsize', 'none': 'none'}[extra]
        acc.violation('sources-per-position', f'kw={kwname}:{where}', case, got.tolist(), want.tolist(),
                      f'position #{k} of {len(plist)} differs from {fname} on its own cutout (atol {atol})')
    if rung is not None:
        # positive rescaling of the image: the same centroids as for the unscaled image (the wrapper only cuts out and adds
        # the cutout origin).  Bounds as in the (generic) family: com exact for 'p2:k' (sums scale exactly; the origin is
        # added to identical numbers), otherwise rounding of sums of <= 35 terms; quadratic 1e-9; Gaussian fits 1e-5.
        image1 = np.ma.array(img1.copy(), mask=mask.copy()) if isinstance(image, np.ma.MaskedArray) else img1.copy()
        try:
            with warnings.catch_warnings():
                warnings.simplefilter('ignore')
                ux, uy = centroid_sources(image1, xs, ys, centroid_func=F[fname], **kw)
        except Exception as e:
            acc.violation('sources-raises', f'{fname}:extra={extra}', case, f'{type(e).__name__}: {e}', 'no exception')
            return
        base = np.array([np.asarray(ux, float), np.asarray(uy, float)]).T
        atol = {'com': 0.0 if rung_exact(rung) else 1e-12, 'quad': 1e-9}.get(fname, 1e-5)
        bad = [k for k in range(len(plist)) if not np.allclose(got[k], base[k], rtol=0, atol=atol, equal_nan=True)]
        if bad:
            k = bad[0]
            acc.violation('sources-commutes', f'{fname}:ladder:{rung_side(rung)}', case, got.tolist(), base.tolist(),
                          f'image x {rung} = {rung_factor(rung):.3g}: position #{k} of {len(plist)} differs from the result on the '
                          f'unscaled image (atol {atol})')


# ----------------------------------------------------------------------------
# (nd) centroid_com on N-dimensional arrays.  Documented: "the centroid of an n-dimensional array", result "in pixel
# order (e.g. (x, y) or (x, y, z)), not numpy axis order" -- the coordinate along the LAST axis first.  The other
# functions document 2-D data; on the pinned tree they reject every non-2-D array with an exception.
ND_SHAPES_QUICK = {1: [(n,) for n in range(3, 10)],
                   2: list(itertools.product((3, 4, 5), repeat=2)),
                   3: list(itertools.product((3, 4, 5), repeat=3)),
                   4: list(itertools.product((3, 4), repeat=4)),
                   5: [(3, 4, 3, 4, 3)]}
ND_SHAPES_THOROUGH = {1: [(n,) for n in range(3, 13)],
                      2: list(itertools.product((3, 4, 5, 6), repeat=2)),
                      3: list(itertools.product((3, 4, 5, 6), repeat=3)),
                      4: list(itertools.product((3, 4, 5), repeat=4)),
                      5: list(itertools.product((3, 4), repeat=5)),
                      6: [(3, 4, 3, 4, 3, 4)]}
ND_SCALES = (('scale2', 2.0), ('scale1e-3', 1.0e-3))
NDSYM_VARIANTS = ('zero', 'masked', 'masked+nf')
ND_REJECT = '2-D-only centroid function (data documented as 2D) given a non-2-D array: rejected with an exception'


def nd_shapes(tier):
    return ND_SHAPES_THOROUGH if tier == 'thorough' else ND_SHAPES_QUICK


def call_nd(f, data, **kw):
    """like call(), without a demand on the shape of the result"""
    kw = {k: (v.copy() if isinstance(v, np.ndarray) else v) for k, v in kw.items() if v is not None}
    try:
        with warnings.catch_warnings():
            warnings.simplefilter('ignore')
            r = f(data.copy(), **kw)
        return 'ok', np.asarray(r, dtype=float)
    except Exception as e:  # decided by the caller
        return 'exc', f'{type(e).__name__}: {e}'


def nd_class(ndim):
    return 'ndim<=2' if ndim <= 2 else 'ndim>=3'


def check_nd(acc, case, seed, F):
    shape = tuple(case['shape'])
    ndim = len(shape)
    kind, mvar = case['kind2'], case['mask']
    f = F['com']
    d0 = ND.make_generic_nd(shape, kind, rng_for(seed, 6, ND.ND_KINDS.index(kind), *shape))
    built = ND.build_masked(d0, mvar)
    if built is None:
        acc.skip('nd: fewer than 6 pixels, no room for 2 masked + 2 non-finite pixels')
        return
    d, user, excl = built
    ref, tol = ND.ref_com_nd(d, excl)
    if ref is None:
        acc.skip('nd: total of the unmasked finite pixels is 0 (mean undefined)')
        return
    # non-trivial: every pair of coordinates of the centre of mass differs (an axis mix-up is visible)
    gaps = [abs(ref[i] - ref[j]) for i in range(ndim) for j in range(i)]
    st, r = call_nd(f, d, mask=user)
    acc.case(nontrivial=(not gaps or min(gaps) > 1e-6), sample=case if acc.evaluations % 61 == 7 else None)
    cls = nd_class(ndim) + ('' if mvar == 'none' else ':masked')
    if st != 'ok':
        acc.violation('generic-raises', f'com:{cls}', case, r, 'no exception', 'valid call on an n-dimensional array raised')
        return
    if r.shape != (ndim,):
        acc.violation('nd-result-shape', f'com:{nd_class(ndim)}', case, list(r.shape), [ndim],
                      'one coordinate per axis expected')
        return
    acc.outcome((ndim, round(float(r[0]), 5)))
    if not np.all(np.abs(r - ref) <= tol):
        acc.violation('com-definition', f'nd:{cls}', case, r, ref,
                      'sum(x_k d)/sum(d) over the unmasked finite pixels, coordinates in pixel order '
                      f'(last numpy axis first); tol {tol.tolist()}')
    if mvar != 'none':
        # canonical call: the clean array with every excluded pixel flagged in mask= (zero-filled sums: bit-exact)
        st3, r3 = call_nd(f, d0, mask=excl)
        if st3 != 'ok' or not np.array_equal(r, r3, equal_nan=True):
            clause = {'nan': 'nonfinite-as-masked', 'mask+nf': 'masked-and-nonfinite-as-masked'}.get(mvar, 'mask-blind')
            acc.violation(clause, f'com:nd:{nd_class(ndim)}', case, r, r3,
                          'differs from the same call with every masked / non-finite pixel flagged in mask= (clean values underneath)')
    ident = (0,) * ndim
    for perm, flips in ND.signed_perms(ndim)[1:]:
        d2 = ND.apply_sp(d, perm, flips)
        u2 = None if user is None else ND.apply_sp(user, perm, flips)
        st2, r2 = call_nd(f, d2, mask=u2)
        want = ND.map_sp(r, shape, perm, flips)
        # both results are within tol of the exact mean of their (identical) multiset of terms; + rounding of n-1-c
        t2 = 2 * ND.map_sp(tol, shape, perm, ident) + 8 * EPS * max(shape)
        ttype = ND.sp_type(perm, flips)
        if st2 != 'ok' or r2.shape != (ndim,):
            acc.violation('commute-raises', f'com:nd:{ttype}', case, r2 if st2 != 'ok' else list(r2.shape), want)
            continue
        if not np.all(np.abs(r2 - want) <= t2):
            acc.violation('commutes', f'com:nd:{nd_class(ndim)}:{ttype}', case, r2, want,
                          f'f(T(data)) != T(f(data)) for T = transpose{list(perm)} then flip of axes {list(flips)}; '
                          f'|dev|={np.abs(r2 - want).max():.3g}, tol={t2.tolist()}')
    for tname, fac in ND_SCALES + tuple((rg, rung_factor(rg)) for rg in ladder(case.get('tier', 'quick'))):
        with np.errstate(all='ignore'):
            st2, r2 = call_nd(f, d * fac, mask=user)
        exact = tname == 'scale2' or (is_rung(tname) and rung_exact(tname))       # powers of two are exact in binary
        t2 = np.zeros(ndim) if exact else 2 * tol + 8 * EPS * max(shape)
        tsite = f'ladder:{rung_side(tname)}' if is_rung(tname) else tname
        if st2 != 'ok' or r2.shape != (ndim,):
            acc.violation('commute-raises', f'com:nd:{tsite}', case, r2 if st2 != 'ok' else list(r2.shape), r, f'data x {tname}')
        elif not np.all(np.abs(r2 - r) <= t2):
            acc.violation('commutes', f'com:nd:{nd_class(ndim)}:{tsite}', case, r2, r, f'positive rescaling {tname}; tol={t2.tolist()}')


def check_ndsym(acc, case, seed, F):
    shape = tuple(case['shape'])
    ndim = len(shape)
    c2 = tuple(case['c2'])                    # doubled centre, numpy axis order
    variant = case['variant']
    c = np.array(c2[::-1]) / 2.0              # pixel order
    s, sup = ND.make_sym_nd(shape, c2, rng_for(seed, 7, *shape, *c2))
    data, mask = s, None
    if variant != 'zero':
        data = s.copy()
        rng = rng_for(seed, 8, *shape, *c2)
        for j, i in enumerate(np.argwhere(~sup)):
            data[tuple(i)] = ND.GARBAGE[(j + rng.integers(0, 6)) % 6]
        mask = ~sup
    if variant == 'masked+nf':
        # a point-symmetric PAIR of unmasked non-finite pixels inside the support
        for i in np.argwhere(sup):
            i = tuple(int(t) for t in i)
            m = ND.mirror_index(i, c2)
            if m != i:
                data[i] = np.nan
                data[m] = np.inf
                break
    cls = nd_class(ndim)
    for name in FUNC_NAMES:
        if name != 'com' and (ndim == 2 or variant == 'masked+nf'):
            continue          # 2-D inputs of the other functions: the (sym) family
        st, r = call_nd(F[name], data, mask=mask)
        if name != 'com':
            # documented as 2-D only.  Rejecting the array (any exception) is outside the statement; a function that
            # ACCEPTS an n-dimensional point-symmetric source has to return its symmetry centre like every other one.
            if st != 'ok':
                acc.skip(ND_REJECT)
                continue
            acc.case(nontrivial=True)
            if r.shape != (ndim,) or not np.all(np.abs(r - c) <= 1e-6):
                acc.violation('symmetry-centre', f'{name}:{cls}:non-2D-input-accepted', case, r, c,
                              'a non-2-D array was accepted but the symmetry centre (pixel order) was not returned')
            continue
        acc.case(nontrivial=len(set(c2)) == ndim, sample=dict(case, func=name) if acc.evaluations % 997 == 3 else None)
        if st != 'ok':
            acc.violation('sym-raises', f'com:{cls}', case, r, 'no exception', 'valid call raised')
            continue
        if r.shape != (ndim,):
            acc.violation('nd-result-shape', f'com:{cls}', case, list(r.shape), [ndim], 'one coordinate per axis expected')
            continue
        acc.outcome((ndim,) + tuple(round(float(t), 6) for t in r))
        # positive data, <= 4096 terms: rounding <= terms * eps * max coordinate ~ 1e-11 worst, measured <= 2e-15
        if not np.all(np.abs(r - c) <= 1e-10):
            acc.violation('symmetry-centre', f'com:{cls}:' + ('masked' if mask is not None else 'unmasked')
                          + ('+nonfinite' if variant == 'masked+nf' else ''), case, r, c,
                          f'point-symmetric n-dimensional source about {c.tolist()} (pixel order), |dev|={np.abs(r - c).max():.3g}')
        if mask is not None and mask.any():
            d2 = data.copy()
            for j, i in enumerate(np.argwhere(mask)):
                d2[tuple(i)] = ND.GARBAGE[(j + 3) % 6] if j % 2 else 0.125 * j
            st2, r2 = call_nd(F[name], d2, mask=mask)
            if st2 != 'ok' or not np.array_equal(r, r2, equal_nan=True):
                acc.violation('mask-blind', f'com:{cls}', case, r2, r, 'changing values of masked pixels changed the result')


# ----------------------------------------------------------------------------
def shapes(tier):
    return [(ny, nx) for ny in range(3, 10) for nx in range(3, 10)]


def gen_shapes(tier):
    if tier == 'thorough':
        return shapes(tier)
    return [(ny, nx) for (ny, nx) in shapes(tier) if (ny + nx) % 2 == 0 or ny == 3 or nx == 3]


def quad_cases(tier):
    qs = QSHAPES_THOROUGH if tier == 'thorough' else QSHAPES_QUICK
    for (ny, nx) in qs:
        for px in range(1, nx - 1):
            for py in range(1, ny - 1):
                for fx, fy in itertools.product(FRACS, repeat=2):
                    for curv in CURV:
                        for box in BOXES:
                            for mvar in QMASKS:
                                for pvar in PEAKS:
                                    yield {'kind': 'quad', 'shape': [ny, nx], 'pix': [px, py], 'frac': [fx, fy],
                                           'curv': list(curv), 'box': list(box) if isinstance(box, tuple) else box,
                                           'mask': mvar, 'peak': pvar}


AMP_FRACS = ((-0.4, 0.3), (0.0, 0.0), (0.45, -0.2))      # quick sub-lattice of the 5x5 sub-pixel vertex lattice
AMP_MASKS = ('none', 'peak')
AMP_PEAKS = ('none', 'search3')


def quad_amp_cases(tier):
    """(quadamp) exactly quadratic peaks x the magnitude ladder: ladder x shape x every interior peak pixel x vertex
    sub-lattice (quick: 3 of the 25 offsets, thorough: all 25) x curvature set x fit_boxsize x mask {none; thorough: +
    peak pixel masked over 1e6} x {whole-array maximum, (xpeak, ypeak) + search_boxsize 3}"""
    qs = QSHAPES_THOROUGH if tier == 'thorough' else QSHAPES_QUICK
    fr = list(itertools.product(FRACS, repeat=2)) if tier == 'thorough' else AMP_FRACS
    for amp in ladder(tier):
        for (ny, nx) in qs:
            for px in range(1, nx - 1):
                for py in range(1, ny - 1):
                    for fx, fy in fr:
                        for curv in CURV:
                            for box in BOXES:
                                for mvar in (AMP_MASKS if tier == 'thorough' else AMP_MASKS[:1]):
                                    for pvar in AMP_PEAKS:
                                        yield {'kind': 'quad', 'shape': [ny, nx], 'pix': [px, py], 'frac': [fx, fy],
                                               'curv': list(curv), 'box': list(box) if isinstance(box, tuple) else box,
                                               'mask': mvar, 'peak': pvar, 'amp': amp}


def source_configs():
    for fname in FUNC_NAMES:
        for spec in SPECS:
            for use_mask in (False, True):
                for extra in ('none', 'error', 'peak', 'peaksearch'):
                    if extra == 'peaksearch' and fname != 'quad':
                        continue     # search_boxsize exists only for centroid_quadratic
                    if extra == 'peak' and fname != 'quad' and spec != 'box5':
                        continue     # ignored keyword: one cutout spec is enough
                    if extra == 'error' and fname in ('com', 'quad') and spec != 'box5':
                        continue
                    yield fname, spec, use_mask, extra


def source_scene_configs():
    """the same product for the scenes with unmasked non-finite pixels ('nf:ma' needs a mask to carry)"""
    for scn in SCENES[1:]:
        for fname, spec, use_mask, extra in source_configs():
            if scn == 'nf:ma' and not (use_mask and fname in MA_FUNCS):
                continue
            yield fname, spec, use_mask, extra, scn


def plan(tier, seed):
    units = []
    for (ny, nx) in shapes(tier):
        units.append({'kind': 'sym', 'shape': [ny, nx]})
    gs = gen_shapes(tier)
    for j in range(0, len(gs), 4):
        units.append({'kind': 'generic', 'shapes': [list(s) for s in gs[j:j + 4]]})
    nq = 16
    for j in range(nq):
        units.append({'kind': 'quad', 'shard': j, 'nshards': nq})
    for cfg in source_configs():
        units.append({'kind': 'sources', 'cfg': list(cfg)})
    # appended last so that the indices of the older units stay stable
    for (ny, nx) in (SSHAPES_THOROUGH if tier == 'thorough' else SSHAPES_QUICK):
        ds = qsearch_data(tier, ny, nx)
        for j in range(0, len(ds), 3):
            units.append({'kind': 'qsearch', 'shape': [ny, nx], 'data': ds[j:j + 3]})
    for cfg in source_scene_configs():
        units.append({'kind': 'sources', 'cfg': list(cfg)})
    for ndim, shs in nd_shapes(tier).items():
        per = {1: 99, 2: 99, 3: 9, 4: 2, 5: 1, 6: 1}[ndim]       # the symmetry group has 2^n n! elements
        for j in range(0, len(shs), per):
            units.append({'kind': 'nd', 'shapes': [list(sh) for sh in shs[j:j + per]]})
        per = {1: 99, 2: 99, 3: 16, 4: 27, 5: 8, 6: 1}[ndim]
        for j in range(0, len(shs), per):
            units.append({'kind': 'ndsym', 'shapes': [list(sh) for sh in shs[j:j + per]]})
    # magnitude ladder (appended last again)
    nqa = 8 if tier == 'quick' else 32
    for j in range(nqa):
        units.append({'kind': 'quad', 'amp': True, 'shard': j, 'nshards': nqa})
    for cfg in source_configs():
        units.append({'kind': 'sources', 'cfg': list(cfg), 'ladder': True})
    return units


def run_unit(unit, tier, seed):
    acc = Acc()
    F = funcs()
    kind = unit['kind']
    if kind == 'sym':
        ny, nx = unit['shape']
        for (cx2, cy2) in sym_centres(ny, nx):
            for variant in SYM_VARIANTS:
                check_sym(acc, dict({'kind': 'sym', 'shape': [ny, nx], 'c2': [cx2, cy2], 'variant': variant}, **({'tier': tier} if tier == 'thorough' else {})), seed, F)
    elif kind == 'generic':
        for (ny, nx) in unit['shapes']:
            for k in ('signed', 'positive', 'blob'):
                for mvar, form in gen_variants():
                    if form != 'kw' and (k != 'blob' or min(ny, nx) < 5):
                        continue    # MaskedArray inputs: judged for the Gaussian fits only, which apply to blobs >= 5x5
                    check_generic(acc, {'kind': 'generic', 'shape': [ny, nx], 'kind2': k, 'mask': mvar, 'form': form, 'tier': tier}, seed, F)
    elif kind == 'quad':
        for i, case in enumerate(quad_amp_cases(tier) if unit.get('amp') else quad_cases(tier)):
            if i % unit['nshards'] == unit['shard']:
                check_quad(acc, case, seed, F)
    elif kind == 'qsearch':
        ny, nx = unit['shape']
        for dspec in unit['data']:
            for case in qsearch_cases(tier, ny, nx, dspec):
                check_qsearch(acc, case, seed, F)
    elif kind == 'nd':
        for sh in unit['shapes']:
            for k in ND.ND_KINDS:
                for mvar in ND.ND_MASKS:
                    check_nd(acc, dict({'kind': 'nd', 'shape': list(sh), 'kind2': k, 'mask': mvar}, **({'tier': tier} if tier == 'thorough' else {})), seed, F)
    elif kind == 'ndsym':
        for sh in unit['shapes']:
            for c2 in ND.sym_centres_nd(sh):
                for variant in NDSYM_VARIANTS:
                    check_ndsym(acc, {'kind': 'ndsym', 'shape': list(sh), 'c2': list(c2), 'variant': variant}, seed, F)
    elif unit.get('ladder'):
        fname, spec, use_mask, extra = unit['cfg'][:4]
        cache = {}
        for rung in source_rungs(tier):
            for plist in source_ladder_lists(tier):
                check_sources(acc, {'kind': 'sources', 'func': fname, 'spec': spec, 'mask': use_mask, 'extra': extra,
                                    'scene': 'plain', 'positions': plist, 'rung': rung}, seed, F, cache)
    else:
        fname, spec, use_mask, extra = unit['cfg'][:4]
        scn = unit['cfg'][4] if len(unit['cfg']) > 4 else 'plain'
        cache = {}
        for plist in position_lists(tier):
            check_sources(acc, {'kind': 'sources', 'func': fname, 'spec': spec, 'mask': use_mask, 'extra': extra,
                                'scene': scn, 'positions': plist}, seed, F, cache)
    return acc


def replay(case, seed):
    acc = Acc()
    F = funcs()
    kind = case['kind']
    if kind == 'sym':
        check_sym(acc, case, seed, F)
    elif kind == 'generic':
        check_generic(acc, case, seed, F)
    elif kind == 'quad':
        check_quad(acc, case, seed, F)
    elif kind == 'qsearch':
        check_qsearch(acc, case, seed, F)
    elif kind == 'nd':
        check_nd(acc, case, seed, F)
    elif kind == 'ndsym':
        check_ndsym(acc, case, seed, F)
    else:
        check_sources(acc, case, seed, F)
    return acc


def describe(tier, seed):
    return {'alphabet': {
        'sym': {'shapes': '{3..9}^2 (49)', 'centres': 'half-pixel lattice, 1 <= c <= n-2',
                'variants': ['zero', 'masked garbage (NaN, inf, -1e300, ...)', 'flat (com only)',
                             'masked garbage + point-symmetric pair of unmasked NaN / +inf pixels (first support pixel and its mirror), mask=',
                             'the same with the mask carried by a MaskedArray input (1dg, 2dg)'],
                'functions': list(FUNC_NAMES)},
        'generic': {'shapes': [list(s) for s in gen_shapes(tier)], 'kinds': ['signed', 'positive', 'blob'],
                    'mask': ['none', 'mask', 'nan instead of mask',
                             'mask+nf: mask over finite garbage (1e6, -2e3) + unmasked NaN at (ny-1, 1) and +inf at (1, nx//2)'],
                    'mask delivery': list(FORMS) + ['(MaskedArray forms: blob arrays >= 5x5, functions 1dg / 2dg)'],
                    'variants': [list(v) for v in gen_variants()],
                    'transforms': list(TRANSFORMS),
                    'magnitude ladder (mask= delivery; further positive-rescaling transforms)': list(ladder(tier))},
        'quad': {'shapes': QSHAPES_THOROUGH if tier == 'thorough' else QSHAPES_QUICK, 'frac': list(FRACS),
                 'curvatures (cxx, cyy, cxy)': [list(c) for c in CURV], 'fit_boxsize': [3, 5, [3, 5]],
                 'mask': list(QMASKS), 'xpeak/ypeak': list(PEAKS)},
        'quadamp (exactly quadratic peak x magnitude ladder)': {
            'amplitude factor': list(ladder(tier)), 'shapes': QSHAPES_THOROUGH if tier == 'thorough' else QSHAPES_QUICK,
            'peak pixel': 'every interior pixel',
            'frac': [list(t) for t in (itertools.product(FRACS, repeat=2) if tier == 'thorough' else AMP_FRACS)],
            'curvatures (cxx, cyy, cxy)': [list(c) for c in CURV], 'fit_boxsize': [3, 5, [3, 5]],
            'mask': list(AMP_MASKS if tier == 'thorough' else AMP_MASKS[:1]), 'xpeak/ypeak': list(AMP_PEAKS), 'clause': 'quad-vertex (1e-9) at every magnitude'},
        'sym ladder': {'variants': list(SYM_LADDER_VARIANTS), 'factors': list(EXTREMES),
                       'functions': list(FUNC_NAMES) if tier == 'thorough' else ['com', 'quad']},
        'qsearch': {'shapes': SSHAPES_THOROUGH if tier == 'thorough' else SSHAPES_QUICK,
                    'data': ['noise (generic positive)', 'peaks (4 sources next to the corners, sub-pixel centres)',
                             'sym (point symmetric about every interior pixel)'],
                    'guess (xpeak, ypeak)': 'every pixel of the array (sym: Chebyshev distance <= 2 of the centre)',
                    'guess kind': list(SPEAKV), 'search_boxsize': [3, 5, [3, 5], [5, 3]], 'fit_boxsize': [3, 5, [3, 5]],
                    'mask': list(SMASKS) + ['(sym: none only)'],
                    'transforms': list(STRANSFORMS) + (list(EXTREMES) if tier == 'thorough' else []),
                    'clauses': ['search-start-pixel (bit-exact)', 'quad-edge-rule', 'search-fit (1e-8)',
                                'symmetry-centre (1e-9)', 'commutes (1e-9)']},
        'sources': {'image': list(IMG_SHAPE),
                    'positions (x, y)': [list(p) for p in (POSITIONS_THOROUGH if tier == 'thorough' else POSITIONS)],
                    'lists': ('all ordered lists of 1-4 distinct positions out of 5 (205)' if tier == 'thorough' else
                              'all ordered lists of 1-3 distinct positions out of 4 (40)') + ' + [0,0] + [1,0,1]',
                    'scenes': list(SCENES), 'non-finite pixels ((x, y), value)': [[list(p), str(v)] for p, v in NF_PIXELS],
                    'garbage underneath the mask (nf scenes, mask given)': [1.0e4, -2.0e3],
                    'cutout': list(SPECS), 'mask': [False, True], 'extra': ['none', 'error', 'xpeak/ypeak', 'xpeak/ypeak/search_boxsize=3 (quad)'],
                    'functions': list(FUNC_NAMES),
                    'ladder': {'factors (image x factor, plain scene)': list(source_rungs(tier)),
                               'lists': source_ladder_lists(tier),
                               'clauses': ['sources-commutes (vs the unscaled image: com 0 / 1e-12, quad 1e-9, fits 1e-5)',
                                           'sources-per-position on the scaled image (bit-exact)']}},
        'nd (centroid_com on n-dimensional boxes)': {
            'shapes per ndim': {str(k): (f'{len(v)} shapes: ' + (str([list(x) for x in v]) if len(v) <= 9 else
                                          f'{list(v[0])} ... {list(v[-1])} (full product of the per-axis sizes)'))
                                for k, v in nd_shapes(tier).items()},
            'kinds': list(ND.ND_KINDS), 'mask': list(ND.ND_MASKS),
            'excluded pixels': 'end of the last axis in the first row, middle of the first axis, + 2 more distinct pixels (mask+nf; needs >= 6 pixels)',
            'transforms': {str(k): f'{len(ND.signed_perms(k))} = {math.factorial(k)} axis permutations x {2 ** k} flip subsets (identity = the case itself)'
                           for k in nd_shapes(tier)},
            'rescaling': [t for t, _ in ND_SCALES] + list(ladder(tier)),
            'clauses': ['nd-result-shape', 'com-definition (fsum bound)', 'nonfinite-as-masked / masked-and-nonfinite-as-masked / mask-blind (bit-exact)',
                        'commutes (2 x fsum bound + 8 eps n; x2 exact)']},
        'ndsym (n-dimensional point-symmetric sources)': {
            'shapes': 'as nd', 'centres': 'half-pixel lattice, 1 <= c <= n-2 on every axis (prod(2n-5) per shape)',
            'variants': list(NDSYM_VARIANTS),
            'functions': 'com (symmetry centre 1e-10, mask-blind bit-exact); quad / 1dg / 2dg for ndim != 2 on zero / masked: exception -> skipped, accepted -> symmetry centre'}}}
