"""C12 -- PSF photometry recovers rendered scenes and keeps its bookkeeping straight.

Shape (C): for N <= 4 sources (two overlapping at 1.7 px, one isolated and cut by the
image edge, a fourth 3.5 px from the pair) ALL N! input row orders x ALL set partitions
of the sources (Bell(N)) supplied as ``group_id`` are executed on the real
``PSFPhotometry`` for every configuration of a small product of alphabets (PSF model,
fit shape, mask, error map, local background, xy bounds, image scale) and a list of
single-axis variants (NaN pixels +- user mask, fitters, fixed/extra parameters, groupers,
label sets, scenes with a source outside the image / of negative flux, the iterative
driver, a perturbed scene).  Options that the documentation ORDERS BY PRECEDENCE are
enumerated in combination, not only as alternatives: localbkg_estimator + ``local_bkg``
column, grouper + ``group_id`` column, finder + init_params, aperture_radius + flux column
(the column / table wins each time; full product of the five overrides x driver), and every
spelling and every ordered pair of spellings of the x / y / flux (/ extra parameter) columns
of init_params ("searched in the above order, stopping at the first match"; the losing
spelling carries decoy values).  The scene is rendered by plain superposition of the PSF
model evaluated on the pixel grid (never ``make_model_image``); group expectations come
from a union-find single-linkage reference, pixel counts from a direct window count,
parameter errors / qfit / cfit from their textbook definitions.

Geometry: the image is not square (27 x 47).  The whole scene is carried through all 8 symmetries of the rectangle
(axis 'frame': identity, the three flips -- wide image -- and the four transposed frames -- tall 47 x 27 image), so the
isolated source whose fit box is cut by (scene 'base'), whose centre lies beyond (scene 'outside') or whose box is cut
by two borders at once (scene 'corner') meets each of the four borders / corners in both orientations, and interior
sources have x > ny (wide) and y > nx (tall): full product frame x scene x fit shape {5x5, 5x7, 7x5}, plus every frame
x one configuration per remaining bookkeeping clause.  Input representation (axis 'input'): the same data / mask /
1-sigma errors handed over as Quantity arrays or as one NDData whose uncertainty is a StdDevUncertainty,
VarianceUncertainty or InverseVariance, without and with units, for both drivers: the result must equal the plain-array
call with error = sigma (and Iterative(maxiters=1) == PSFPhotometry on that same representation).
"""
import itertools
import math
import os
import warnings

import numpy as np

from ..ref import psfphot as R
from ..runner import Acc
from ..snapshot import diff

PROPERTY = 'C12'
LEVEL = 'exploration'
RULE = ('for every configuration: all N! input row orders x all set partitions of the N sources (as supplied '
        'group_id; or the grouper / no grouping where the partition axis does not apply), N = 1..Nmax; cases are '
        'distinct product indices; a case is non-trivial when N >= 2 and the fitted (group-sorted) order differs '
        'from the input row order or a group has more than one member (i.e. un-grouping actually permutes or splits '
        'something); the precedence-ordered options are enumerated in combination (estimator+local_bkg column, '
        'grouper+group_id column, finder+init_params, aperture_radius+flux column: full 2^4 product x {one spelling, '
        'two spellings} x driver, the init table / column must win and the finder must not be called), and the '
        'column-name alphabet is complete: all 14 documented x/y spellings alone and all 91 ordered pairs of them '
        '(the 10 flux spellings / 45 pairs ride along cyclically; the 3 extra-parameter spellings / 3 pairs with the '
        'free-fwhm model), the later spelling filled with decoy values and placed first in the table; '
        'geometry: all 8 symmetries of the non-square image (4 wide 27x47 frames, 4 tall 47x27 frames) x {isolated source '
        'cut by a border, centred beyond a border, cut by two borders} x fit shapes {5x5, 5x7, 7x5} (full product, 72 '
        'configurations) + the 7 non-identity frames x 13 single-clause configurations (negative flux, mask, NaN+mask, '
        'bound hit, asymmetric bounds, local_bkg column / estimator / both, error ramp, fixed x, iterative driver, '
        'iterative driver with the source beyond a border, perturbed scene) + x 2 grouper configurations; '
        'input representation: 8 non-array forms (Quantity arrays; NDData with StdDev / Variance / InverseVariance '
        'uncertainty, unit-less and in Jy; NDData in Jy with a standard deviation in mJy) x {PSFPhotometry, '
        'IterativePSFPhotometry} x error map {flat, ramp} x {clean, perturbed} (+ mask and local_bkg column; no error map '
        'for the 3 forms that then differ), each compared with the plain-array call of the same driver; plus all ordered tuples of <= 4 distinct points of a 3x3 lattice x 9 '
        'separations for SourceGrouper alone')
ASSUMPTIONS = ['numpy, astropy.modeling fitters (TRF/LM/simplex), astropy.table and the PSF model classes '
               'themselves (evaluate; covered by C13) are trusted',
               'exact recovery is demanded only of groups that contain every source contributing more than 1e-9 of '
               'a member peak inside a member fit box (rule evaluated on the input truth), with an LSQ fitter, no '
               'bound closer than the initial offset and a local background known to 1e-9 of the peak',
               'N <= 4 sources, one lattice scene (+3 variants), images 27x47 and 47x27 (the 8 symmetric copies of the '
               'scene): larger groups and other aspect ratios are out of the bound; square images are not enumerated '
               '(a square image cannot distinguish the two axes)',
               'flag 2 ("the fit x and/or y position lies outside of the input data") is judged with the ambiguity of '
               'the documented wording: it must be set when a coordinate is < -0.5 or > n (outside by both readings: '
               'pixel edges and array extent) and must be clear when 0 <= coordinate <= n - 0.5 for both axes',
               'input representations: astropy.nddata uncertainty classes mean what astropy documents (variance = '
               'sigma^2, inverse variance = 1/sigma^2, unit conversion mJy -> Jy); the sigma / variance arrays are '
               'built with plain numpy; equality with the array call is demanded to 1e-9 relative (integer columns '
               'exactly, flag bit 8 excepted)',
               'precedence rules are the documented ones (PSFPhotometry docstring: "The local_bkg values in init_params '
               'override this keyword", "The group_id values in init_params override this keyword", "The (x, y) values in '
               'init_params override this keyword", "If initial flux values are present in the init_params table, they '
               'will override this keyword", "The parameter names are searched in the input table in the above order, '
               'stopping at the first match"; user guide: init_params "bypass" the finder / grouping / background steps, '
               'the iterative class uses the finder only in "subsequent iterations"); undocumented columns (e.g. a '
               'supplied id column) are not enumerated']

# --------------------------------------------------------------------------
# alphabets
# --------------------------------------------------------------------------
SHAPE = (27, 47)
# identity -> (x, y, flux); 0-1 overlap (1.7 px), 2 isolated and 1.2 px from the bottom edge (its fit box is
# cut by the edge), 3 is 3.5 px from source 1.  Fluxes from the design alphabet {100, 37, 250} (+60).
SRC = [(12.3, 11.6, 100.0), (13.75, 12.55, 37.0), (40.1, 1.2, 250.0), (16.4, 10.3, 60.0)]
# sign of (x_init - x, y_init - y) per identity: structural, so that for every seed the initial positions have
# fractional parts on both sides of .5 in x (source 0: .54-.73, source 1: .99-.18) and in y (source 0: .17-.36,
# source 1: .79-.98) -- the box-centre rounding (ceil(v - 0.5)) is exercised on both sides.
SIGN = [(1.0, -1.0), (1.0, 1.0), (-1.0, -1.0), (-1.0, 1.0)]
FLUXFAC = [0.8, 1.2, 0.9, 1.1]
GAP_LABELS = (7, 3, 12, 5)          # non-contiguous, unsorted user labels per block

# documented column spellings of init_params, in the documented search order ("stopping at the first match")
XY_SUFFIX = ['_init', 'init', '', '_0', '0', 'centroid', '_centroid', '_peak', 'cen', '_cen', 'pos', '_pos', '_fit', 'fit']
FLUX_NAMES = ['flux_init', 'fluxinit', 'flux', 'flux_0', 'flux0', 'flux_fit', 'fluxfit', 'source_sum', 'segment_flux',
              'kron_flux']
EXTRA_SUFFIX = ['_init', '', '_fit']          # extra fitted parameters (fwhm): "_init", "" (no suffix), "_fit"
XY_PAIRS = list(itertools.combinations(range(len(XY_SUFFIX)), 2))            # 91, winner index < loser index
FLUX_PAIRS = list(itertools.combinations(range(len(FLUX_NAMES)), 2))         # 45
EXTRA_PAIRS = list(itertools.combinations(range(len(EXTRA_SUFFIX)), 2))      # 3
# alias axis value: 'x<suffix>' (one spelling) or 'x<suffix>>x<suffix>' (both present: the first must win)
ALIAS_SINGLE = ['x'] + ['x' + sfx for sfx in XY_SUFFIX if sfx != '']
ALIAS_PAIR = [f'x{XY_SUFFIX[i]}>x{XY_SUFFIX[j]}' for i, j in XY_PAIRS]

AXES = {                              # first value = default
    'psf': ['cgauss', 'gauss', 'image', 'gridded'],
    'fit': ['5', '5x7', '7x5'],
    'mask': ['none', 'inbox', 'centre'],
    'err': ['none', 'flat', 'ramp'],
    # 'column+estimator': a local_bkg column AND a localbkg_estimator (the column must win); the scene is built so
    # that the annulus of the estimator sees another level than the one under the sources
    'bkg': ['none', 'column', 'estimator', 'column+estimator'],
    'bnd': ['none', '2', 'hit', 'hitx', 'asym'],
    'k': [1, 7],
    # 'corner': the isolated source sits 1.1 / 1.2 px from two borders at once (its fit box is cut by both)
    'scene': ['base', 'outside', 'neg', 'corner'],
    'nan': ['none', 'nan', 'nan+mask', 'nancentre+mask'],
    'fitter': ['trf', 'lm', 'simplex'],
    'fix': ['none', 'xy', 'x', 'freefwhm'],
    # 'given+aper': a flux column AND aperture_radius (the column must win)
    'fluxinit': ['given', 'aper', 'given+aper'],
    'labels': ['seq', 'gap'],
    # 'gid+grouper': a group_id column AND a grouper that would lump everything (the column must win)
    'mode': ['gid', 'gid+grouper', 'nogroup', 'sep1', 'sep3', 'sep6', 'sep30'],
    'driver': ['single', 'iter'],
    'noise': [0, 1],
    # 'decoy': a finder (recording; returns two positions elsewhere) AND init_params (init_params must win and
    # the finder must not be called).  The iterative driver always has it (a finder is mandatory there).
    'finder': ['none', 'decoy'],
    'alias': ALIAS_SINGLE + ALIAS_PAIR,
    # the 8 symmetries of the rectangle applied to the whole scene (truth, start values, background map, error map):
    # flips keep the 27 x 47 (wide) image, the 't*' frames transpose it to 47 x 27 (tall).  The isolated source that
    # is cut by / lies beyond the bottom border in 'id' is cut by / lies beyond each of the four borders in turn, in
    # both orientations; interior sources get x > ny (wide) and y > nx (tall).
    'frame': list(R.FRAMES),
    # how (data, mask, error) are handed over: plain arrays + keywords (default), Quantity arrays, or one NDData
    # object whose uncertainty is a StdDevUncertainty / VarianceUncertainty / InverseVariance, without and with
    # units ('mjy': data in Jy, standard deviation in mJy).  With units the init flux / local_bkg columns carry Jy.
    'input': ['arrays', 'ndd', 'ndd-var', 'ndd-ivar', 'qarr', 'ndd-unit', 'ndd-unit-var', 'ndd-unit-ivar',
              'ndd-unit-mjy'],
}
DEFAULT = {k: v[0] for k, v in AXES.items()}
PRODUCT_AXES = ['psf', 'fit', 'mask', 'err', 'bkg', 'bnd', 'k']
PRODUCT = {'psf': ['cgauss', 'gauss', 'image', 'gridded'], 'fit': ['5', '5x7'], 'mask': ['none', 'inbox', 'centre'],
           'err': ['none', 'flat'], 'bkg': ['none', 'column', 'estimator', 'column+estimator'],
           'bnd': ['none', '2', 'hit'], 'k': [1, 7]}

# precedence product: every documented "the table overrides the keyword" rule on / off, x one / two spellings of the
# columns, x driver (the iterative driver requires a finder and an aperture radius, so those two are always "on")
PREC_AXES = ['bkg', 'mode', 'finder', 'fluxinit', 'alias', 'driver']
PREC = {'bkg': ['column', 'column+estimator'], 'mode': ['gid', 'gid+grouper'], 'finder': ['none', 'decoy'],
        'fluxinit': ['given', 'given+aper'], 'alias': ['x', 'x_init>x'], 'driver': ['single', 'iter']}
PREC_ALL = {'bkg': 'column+estimator', 'mode': 'gid+grouper', 'finder': 'decoy', 'fluxinit': 'given+aper',
            'alias': 'x_init>x'}


def prec_cfgs():
    out = []
    for vals in itertools.product(*[PREC[a] for a in PREC_AXES]):
        c = dict(zip(PREC_AXES, vals))
        if c['driver'] == 'iter' and (c['finder'] != 'decoy' or c['fluxinit'] != 'given+aper'):
            continue                     # not constructible: IterativePSFPhotometry requires both
        out.append({a: v for a, v in c.items() if v != DEFAULT[a]})
    return out


# single-axis deviations from the default configuration ("star")
STAR = ([{}] + [{'psf': v} for v in ('gauss', 'image')] + [{'fit': '5x7'}] + [{'mask': v} for v in ('inbox', 'centre')]
        + [{'err': v} for v in ('flat', 'ramp')] + [{'bkg': v} for v in ('column', 'estimator', 'column+estimator')]
        + [{'bnd': v} for v in ('2', 'hit', 'hitx', 'asym')] + [{'k': 7}])
SPECIALS = ([{'scene': v} for v in ('outside', 'neg')] + [{'nan': v} for v in ('nan', 'nan+mask', 'nancentre+mask')]
            + [{'fitter': v} for v in ('lm', 'simplex')] + [{'fix': v} for v in ('xy', 'x', 'freefwhm')]
            + [{'fluxinit': 'aper'}, {'labels': 'gap'}, {'mode': 'gid+grouper'}, {'driver': 'iter'},
               {'labels': 'gap', 'fit': '5x7', 'mask': 'inbox', 'psf': 'gauss'}]
            + [{'noise': 1}, {'noise': 1, 'err': 'ramp'}, {'noise': 1, 'fit': '5x7', 'mask': 'centre'},
               {'noise': 1, 'fix': 'freefwhm'}, {'noise': 1, 'labels': 'gap', 'psf': 'image'}]
            # precedence combinations: each override alone, all at once (both drivers), and with the other value
            # of the neighbouring axes (estimator + column on a scaled image / wide box / mask; two spellings of an
            # extra parameter column; finder + init_params without a flux column)
            + [{'finder': 'decoy'}, {'fluxinit': 'given+aper'}, {'alias': 'x_init>x'}, dict(PREC_ALL),
               dict(PREC_ALL, driver='iter'), {'bkg': 'column+estimator', 'driver': 'iter'},
               {'bkg': 'column+estimator', 'k': 7, 'fit': '5x7', 'mask': 'inbox'},
               {'bkg': 'column+estimator', 'psf': 'image', 'err': 'flat'},
               {'bkg': 'column+estimator', 'fluxinit': 'aper'},
               # free fwhm: all 3 spellings (fwhm with the default alias above, fwhm_fit, fwhm_init) and all 3 ordered
               # pairs (fwhm_init>fwhm, fwhm_init>fwhm_fit, fwhm>fwhm_fit) of the extra-parameter column
               {'alias': 'x_init', 'fix': 'freefwhm'}, {'alias': 'xinit', 'fix': 'freefwhm'},
               {'alias': 'x_init>xinit', 'fix': 'freefwhm'}, {'alias': 'x_init>x', 'fix': 'freefwhm'},
               {'alias': 'x_init>x_0', 'fix': 'freefwhm'}, {'alias': 'x_init>x_0', 'fix': 'freefwhm', 'noise': 1},
               {'finder': 'decoy', 'fluxinit': 'aper'}])
# configurations where the partition axis does not apply (all N! orders only)
ORDER_ONLY = ([{'mode': m} for m in ('nogroup', 'sep1', 'sep3', 'sep6', 'sep30')]
              + [{'mode': m, 'driver': 'iter'} for m in ('sep3', 'sep30')]
              + [{'mode': 'sep6', 'noise': 1}, {'mode': 'sep3', 'fit': '5x7', 'mask': 'inbox'},
                 {'mode': 'sep6', 'psf': 'image', 'k': 7},
                 {'mode': 'sep3', 'finder': 'decoy'}, {'mode': 'sep3', 'bkg': 'column+estimator', 'alias': 'x_init>x'}])
# geometry product: all 8 frames x {isolated source cut by a border, beyond a border, cut by two borders} x all three
# fit shapes (N = 3: the isolated source is identity 2), plus every frame x one configuration per remaining bookkeeping
# clause (flag 4, flag 1 / npixfit with a mask and a NaN, flags 32 both ways, local background from the column / the
# estimator / both, error map, a fixed coordinate, the iterative driver, the perturbed scene)
FRAME_SCENES = ['base', 'outside', 'corner']
FRAME_FITS = ['5', '5x7', '7x5']
FRAME_CLAUSES = [{'scene': 'neg'}, {'mask': 'inbox'}, {'nan': 'nan+mask'}, {'bnd': 'hit'}, {'bnd': 'asym'},
                 {'bkg': 'column'}, {'bkg': 'estimator'}, {'bkg': 'column+estimator'}, {'err': 'ramp'}, {'fix': 'x'},
                 {'driver': 'iter'}, {'driver': 'iter', 'scene': 'outside'}, {'noise': 1}]
FRAME_ORDER_ONLY = [{'mode': 'sep3'}, {'mode': 'sep3', 'scene': 'outside'}]


def _nd(c):
    return {a: v for a, v in c.items() if v != DEFAULT[a]}


def frame_cfgs():
    out = []
    for fr in AXES['frame']:
        for sc in FRAME_SCENES:
            for ft in FRAME_FITS:
                out.append(_nd({'frame': fr, 'scene': sc, 'fit': ft}))
    return out


def frame_clause_cfgs():
    return [_nd(dict(c, frame=fr)) for fr in AXES['frame'][1:] for c in FRAME_CLAUSES]


def frame_order_cfgs():
    return [_nd(dict(c, frame=fr)) for fr in AXES['frame'][1:] for c in FRAME_ORDER_ONLY]


# input-form product: every non-array form x error map x driver x {clean, perturbed} scene (+ a user mask, + a supplied
# local_bkg column so that a column with units is exercised); forms that differ only in the uncertainty type collapse
# when there is no error map, so err = none runs 'ndd', 'qarr', 'ndd-unit' only.
INPUT_NOERR = ['ndd', 'qarr', 'ndd-unit']


def input_cfgs():
    out = []
    for form in AXES['input'][1:]:
        for drv in AXES['driver']:
            for err in ('flat', 'ramp'):
                for noise in (0, 1):
                    out.append(_nd({'input': form, 'driver': drv, 'err': err, 'noise': noise}))
            out.append(_nd({'input': form, 'driver': drv, 'err': 'ramp', 'noise': 1, 'mask': 'inbox', 'bkg': 'column'}))
            if form in INPUT_NOERR:
                out.append(_nd({'input': form, 'driver': drv}))
                out.append(_nd({'input': form, 'driver': drv, 'mask': 'inbox', 'noise': 1}))
    return out


# N = 4 (360 cases per configuration) in the quick tier
QUICK_N4 = [{}, {'labels': 'gap'}, {'fit': '5x7'}, {'mask': 'inbox'}, {'noise': 1}, dict(PREC_ALL)]

# --------------------------------------------------------------------------
# tolerances (soundness rule 2) -- measured with C12_CAL=1 over the complete thorough space (43 600 photometry
# calls, seed 0; quick space seeds 0-2) on the tree with the four proposed C12 repairs, then >= x10 margin or
# the floor explained here.
#  * recovery (10 158 well-posed cases): worst |x_fit - x| = 2.4e-10 px, worst |flux_fit/flux - 1| = 4.3e-10.
#    The TRF/LM fitters stop at a relative step / cost change of 1e-7..1e-8 (astropy default acc = 1e-7), so a
#    tolerance below that would test the optimiser's stopping rule, not the bookkeeping: 1e-6 px, 1e-6 relative.
#  * residual image: worst 4.7e-10 of the brightest pixel -> 1e-6 (same floor).
#  * contamination rule: a source outside the group contributing <= 1e-9 of a member's peak to a member's fit
#    box moves the solution by O(1e-8) at most (linear response, condition number of these blends <~ 30).
# --------------------------------------------------------------------------
TOL_POS = 1e-6
TOL_FLUX = 1e-6
TOL_RESID = 1e-6
CONTAM = 1e-9
# order invariance on the perturbed scene (same least-squares problem with permuted parameter / pixel order):
# measured worst relative deviation 1.8e-11 (fit values), 7.5e-11 (errors, qfit, cfit).  A mis-assigned row
# differs by >= 30 % (fluxes 100/37/250/60); 1e-6 / 1e-5 leave four orders of magnitude on the safe side.
TOL_INV_FIT = 1e-6
TOL_INV_ERR = 1e-5
# textbook parameter errors recomputed from the output parameters with a finite-difference Jacobian: measured
# worst 1.6e-3 relative (the fitter's Jacobian belongs to its last iterate, whose gradient is ~1e-3, not 0) ->
# 2e-2.  qfit / cfit recomputed from the output parameters: 1e-9 relative + 1e-12 absolute measured -> 1e-6.
TOL_ERRREF = 2e-2
TOL_QC = 1e-6
# input representations: the array call gets sigma, the NDData forms sigma / sigma^2 / 1/sigma^2 / 1000 sigma mJy, which
# the implementation has to convert back: the weights may differ in the last bit (sqrt(1/(1/s^2)), 1e-3 * (1e3 s)), which
# moves a converged least-squares solution by O(cond * 1e-16); measured worst |a - b| / (|b| + 1) over the quick space
# (C12_CAL=1, seed 0): 6.1e-12 (form ndd-unit-mjy; 0 for the std / var forms) -> 1e-9 (x160).  A wrong conversion
# (variance taken for sigma) changes the parameter errors by the factor sigma (2 for the flat map, 1.9..3.5 under the
# sources for the ramp) and, on the perturbed scene, the fitted values by ~1e-3.
TOL_INPUT = 1e-9
INPUT_EXACT_COLS = ('id', 'group_id', 'group_size', 'iter_detected', 'npixfit', 'flags')

CAL = os.environ.get('C12_CAL')


def full_cfg(c):
    out = dict(DEFAULT)
    out.update(c or {})
    return out


def cfg_tag(cfg, keys=('scene', 'nan', 'fitter', 'fix', 'fluxinit', 'mode', 'driver', 'bkg', 'bnd', 'mask', 'noise',
                       'finder')):
    t = [f'{k}={cfg[k]}' for k in keys if cfg[k] != DEFAULT[k]]
    if cfg['frame'] != 'id':                      # 7 frames share two sites: same orientation / transposed (tall)
        t.append('frame=transposed' if cfg['frame'].startswith('t') else 'frame=flipped')
    if cfg['input'] != 'arrays':                  # 8 forms share three sites
        t.append('input=' + ('quantity-arrays' if cfg['input'] == 'qarr' else
                             'nddata-units' if 'unit' in cfg['input'] else 'nddata'))
    if cfg['alias'] != DEFAULT['alias']:          # 104 spellings / pairs share two sites
        t.append('alias=two-spellings' if '>' in cfg['alias'] else 'alias=other-spelling')
    return ','.join(t) or 'default'


def alias_columns(alias, with_extra):
    """(winning names, losing names or None) for x, y, flux[, fwhm] of one value of the alias axis.  The flux and
    extra-parameter spellings follow the x/y one cyclically, so that the 14 + 91 values of the axis cover all 10 + 45
    flux and all 3 + 3 extra-parameter spellings / ordered pairs as well."""
    sfx = [a[1:] for a in alias.split('>')]
    idx = [XY_SUFFIX.index(v) for v in sfx]
    if len(idx) == 1:
        i = idx[0]
        win = ['x' + XY_SUFFIX[i], 'y' + XY_SUFFIX[i], FLUX_NAMES[i % len(FLUX_NAMES)]]
        if with_extra:
            win.append('fwhm' + EXTRA_SUFFIX[(i + 2) % len(EXTRA_SUFFIX)])      # 'x' -> 'fwhm'
        return win, None
    i, j = idx
    assert i < j
    rank = XY_PAIRS.index((i, j))
    fi, fj = FLUX_PAIRS[rank % len(FLUX_PAIRS)]
    win = ['x' + XY_SUFFIX[i], 'y' + XY_SUFFIX[i], FLUX_NAMES[fi]]
    lose = ['x' + XY_SUFFIX[j], 'y' + XY_SUFFIX[j], FLUX_NAMES[fj]]
    if with_extra:
        ei, ej = EXTRA_PAIRS[rank % len(EXTRA_PAIRS)]
        win.append('fwhm' + EXTRA_SUFFIX[ei])
        lose.append('fwhm' + EXTRA_SUFFIX[ej])
    return win, lose


# --------------------------------------------------------------------------
# scene construction (independent renderer: plain superposition on the pixel grid)
# --------------------------------------------------------------------------
_GEN = {}


def gen(seed):
    """The generic real numbers the seed is allowed to choose."""
    if seed not in _GEN:
        rng = np.random.default_rng(1000 + seed)
        jit = rng.uniform(-0.03, 0.03, size=(4, 2))
        mag = rng.uniform(0.27, 0.4, size=(4, 2))       # |init - truth| in (0.27, 0.4): "within a pixel", > 'hit' bound
        noise = rng.normal(size=SHAPE)
        _GEN[seed] = {'jit': jit, 'off': np.array(SIGN) * mag, 'noise': noise}
    return _GEN[seed]


def _gauss_img(n, osamp, fwhm):
    s = fwhm / 2.3548200450309493 * osamp
    y, x = np.mgrid[0:n, 0:n] - (n - 1) / 2
    a = np.exp(-(x * x + y * y) / (2 * s * s))
    return a / a.sum() * osamp * osamp


_PSF = {}


def make_psf(name, shape=None):
    from astropy.nddata import NDData
    from photutils.psf import CircularGaussianPRF, GaussianPRF, GriddedPSFModel, ImagePSF
    shape = tuple(shape or SHAPE)
    key = (name, shape if name == 'gridded' else None)
    if key not in _PSF:
        if name == 'cgauss':
            m = CircularGaussianPRF(fwhm=2.7)
        elif name == 'gauss':
            m = GaussianPRF(x_fwhm=2.4, y_fwhm=3.1, theta=0.0)
        elif name == 'image':
            m = ImagePSF(_gauss_img(51, 2, 2.7), oversampling=2)
        elif name == 'gridded':
            ny, nx = shape
            pos = [(0, 0), (nx - 1, 0), (0, ny - 1), (nx - 1, ny - 1)]
            arr = np.array([_gauss_img(51, 2, f) for f in (2.5, 2.8, 3.0, 2.6)])
            m = GriddedPSFModel(NDData(arr, meta={'grid_xypos': pos, 'oversampling': 2}))
        else:
            raise KeyError(name)
        _PSF[key] = m
    return _PSF[key].copy()


def source_image(psf, x, y, flux, extra=None, shape=None):
    m = psf.copy()
    m.x_0 = x
    m.y_0 = y
    m.flux = flux
    for k, v in (extra or {}).items():
        setattr(m, k, v)
    shape = shape or SHAPE
    yy, xx = np.mgrid[0:shape[0], 0:shape[1]]
    return np.asarray(m(xx, yy), float)


def model_at(psf, pix, x, y, flux, extra=None):
    m = psf.copy()
    m.x_0 = x
    m.y_0 = y
    m.flux = flux
    for k, v in (extra or {}).items():
        setattr(m, k, v)
    py = np.array([p[0] for p in pix], float)
    px = np.array([p[1] for p in pix], float)
    return np.asarray(m(px, py), float)


_SCN = {}


def scenario(cfg, N, seed):
    """Everything of a case that does not depend on row order / partition."""
    key = (seed, N) + tuple(cfg[k] for k in sorted(AXES) if k not in ('labels', 'mode', 'driver', 'finder', 'alias', 'fluxinit', 'input'))
    if key in _SCN:
        return _SCN[key]
    g = gen(seed)
    frame = cfg['frame']
    shape = R.frame_shape(frame, SHAPE)
    psf = make_psf(cfg['psf'], shape)
    k = cfg['k']
    truth = []
    for i in range(N):
        x, y, f = SRC[i]
        x, y = x + g['jit'][i, 0], y + g['jit'][i, 1]
        if cfg['scene'] == 'outside' and i == 2:
            y = -1.3 + g['jit'][i, 1]          # centre outside the image; two rows of its fit box are inside
        if cfg['scene'] == 'corner' and i == 2:
            x = SHAPE[1] - 1 - 1.1 + g['jit'][i, 0]     # 1.1 px from the right border as well: box cut by two borders
        if cfg['scene'] == 'neg' and i == 1:
            f = -f
        truth.append((x, y, f * k))
    # everything below up to the start values is laid out in the base frame (27 x 47) and then carried to the frame
    # of the case by the symmetry: coordinates by R.frame_point, maps by R.frame_array
    # background: uniform for the estimator; for the supplied column a step (5k left of x = 28, 8k right of it:
    # the pair/cluster and the isolated source get different local_bkg values, no fit box touches the step).
    # column + estimator: the step only on "islands" (|dx|, |dy| <= 4.5 px around every source: every fit box of a
    # start within 0.4 px lies inside, pixel centres <= 3 + 0.5 + 0.4 px away) and 11k elsewhere, so the annulus
    # (9..12 px) of the estimator measures ~11k: using the wrong source of local_bkg is off by >= 3k per pixel.
    bmap = np.zeros(SHAPE)
    step = np.where(np.arange(SHAPE[1]) < 28, 5.0 * k, 8.0 * k)
    if cfg['bkg'] == 'estimator':
        bmap += 5.0 * k
    elif cfg['bkg'] == 'column':
        bmap += step[None, :]
    elif cfg['bkg'] == 'column+estimator':
        yy, xx = np.mgrid[0:SHAPE[0], 0:SHAPE[1]]
        island = np.zeros(SHAPE, bool)
        for x, y, _ in truth:
            island |= (np.abs(xx - x) <= 4.5) & (np.abs(yy - y) <= 4.5)
        bmap += np.where(island, step[None, :] * np.ones(SHAPE), 11.0 * k)
    if cfg['bkg'] in ('column', 'column+estimator'):
        bsrc = [float(step[min(max(int(round(t[0])), 0), SHAPE[1] - 1)]) for t in truth]
    else:
        bsrc = [float(bmap[0, 0])] * N
    init = []
    for i, (x, y, f) in enumerate(truth):
        ox, oy = g['off'][i]
        if cfg['scene'] == 'outside' and i == 2:
            oy = abs(oy)                       # towards the image: two rows of the fit box stay inside
        if cfg['fix'] == 'xy':
            ox = oy = 0.0
        elif cfg['fix'] == 'x':
            ox = 0.0
        init.append((x + ox, y + oy, f * FLUXFAC[i]))
    yy, xx = np.mgrid[0:SHAPE[0], 0:SHAPE[1]]
    error = {'none': None, 'flat': np.full(SHAPE, 2.0), 'ramp': 1.0 + 0.05 * xx + 0.03 * yy}[cfg['err']]
    far = (SHAPE[1] - 1, 0)                        # base-frame pixel far from every fit box
    # ---- carry the layout to the frame of the case ----
    truth = [R.frame_point(frame, t[0], t[1], SHAPE) + (t[2],) for t in truth]
    init = [R.frame_point(frame, t[0], t[1], SHAPE) + (t[2],) for t in init]
    far = R.frame_point(frame, far[0], far[1], SHAPE)
    bmap = R.frame_array(frame, bmap)
    noise = R.frame_array(frame, g['noise'])
    if error is not None:
        error = R.frame_array(frame, error)
    imgs = [source_image(psf, *t, shape=shape) for t in truth]
    peaks = [np.abs(im).max() for im in imgs]
    data = np.sum(imgs, axis=0) + bmap
    if cfg['noise']:
        data = data + 0.03 * min(peaks) * noise
    fit_shape = {'5': (5, 5), '5x7': (5, 7), '7x5': (7, 5)}[cfg['fit']]
    # masks / bad pixels are attached to source identity 0 (present for every N)
    cx0 = R.centre_pixels(init[0][0])[0]
    cy0 = R.centre_pixels(init[0][1])[0]
    umask = None
    if cfg['mask'] != 'none' or cfg['nan'] in ('nan+mask', 'nancentre+mask'):
        umask = np.zeros(shape, bool)
    if cfg['mask'] == 'inbox':
        umask[cy0 + 1, cx0 - 2] = True
    elif cfg['mask'] == 'centre':
        umask[cy0, cx0] = True
    if cfg['nan'] == 'nan+mask':
        umask[cy0 + 2, cx0] = True
    elif cfg['nan'] == 'nancentre+mask':
        umask[far[1], far[0]] = True           # far from every fit box
    if umask is not None:
        data = np.where(umask, 1.0e5, data)     # garbage under the mask: the mask must be honoured
    nanmask = np.zeros(shape, bool)
    if cfg['nan'] in ('nan', 'nan+mask'):
        nanmask[cy0 - 1, cx0 + 1] = True
    elif cfg['nan'] == 'nancentre+mask':
        nanmask[cy0, cx0] = True
    data = np.where(nanmask, np.nan, data)
    bad = nanmask if umask is None else (nanmask | umask)
    s = {'shape': shape, 'psf': psf, 'truth': truth, 'imgs': imgs, 'peaks': peaks, 'data': data, 'bmap': bmap, 'bsrc': bsrc, 'init': init,
         'fit_shape': fit_shape, 'umask': umask, 'bad': bad, 'error': error}
    if len(_SCN) > 64:
        _SCN.clear()
    _SCN[key] = s
    return s


# --------------------------------------------------------------------------
# recording fitters (public extension point: the ``fitter`` argument)
# --------------------------------------------------------------------------
def _leaf_names(model):
    n = model.n_submodels
    if n == 1:
        return [int(model.name)]
    return [int(model[i].name) for i in range(n)]


_FITTERS = {}


def make_fitter(kind):
    from astropy.modeling import fitting
    if not _FITTERS:
        class RecTRF(fitting.TRFLSQFitter):
            def __call__(self, model, x, y, z=None, weights=None, maxiter=100, **kw):
                out = super().__call__(model, x, y, z, weights=weights, maxiter=maxiter, **kw)
                self.calls.append((_leaf_names(model), len(x), self.fit_info.get('param_cov') is not None))
                return out

        class RecLM(fitting.LMLSQFitter):
            def __call__(self, model, x, y, z=None, weights=None, maxiter=100, **kw):
                out = super().__call__(model, x, y, z, weights=weights, maxiter=maxiter, **kw)
                self.calls.append((_leaf_names(model), len(x), self.fit_info.get('param_cov') is not None))
                return out

        class RecSimplex(fitting.SimplexLSQFitter):
            def __call__(self, model, x, y, z=None, weights=None, maxiter=100, **kw):
                out = super().__call__(model, x, y, z, weights=weights, maxiter=maxiter, **kw)
                self.calls.append((_leaf_names(model), len(x), self.fit_info.get('param_cov') is not None))
                return out
        _FITTERS.update(trf=RecTRF, lm=RecLM, simplex=RecSimplex)
    f = _FITTERS[kind]()
    f.calls = []
    return f


DECOY_XY = [(5.0, 20.0), (30.0, 14.0)]     # inside the image, far from every source


class DecoyFinder:
    """Recording finder.  With init_params (and one iteration) the finder step is bypassed: it must never be
    called; if it is, or if its table is used, the rows of the result are not the init rows."""

    def __init__(self):
        self.calls = 0

    def __call__(self, data, mask=None):
        from astropy.table import Table
        self.calls += 1
        t = Table()
        t['xcentroid'] = [p[0] for p in DECOY_XY]
        t['ycentroid'] = [p[1] for p in DECOY_XY]
        return t

    def __deepcopy__(self, memo):            # IterativePSFPhotometry deep-copies its PSFPhotometry: keep one counter
        return self


def build_phot(cfg, s, driver, aper=False):
    from photutils.background import LocalBackground
    from photutils.psf import IterativePSFPhotometry, PSFPhotometry, SourceGrouper
    psf = s['psf'].copy()
    if cfg['fix'] in ('xy', 'x'):
        psf.x_0.fixed = True
    if cfg['fix'] == 'xy':
        psf.y_0.fixed = True
    if cfg['fix'] == 'freefwhm':
        psf.fwhm.fixed = False
    grouper = None
    if cfg['mode'].startswith('sep'):
        grouper = SourceGrouper(float(cfg['mode'][3:]))
    elif cfg['mode'] == 'gid+grouper':
        grouper = SourceGrouper(100.0)       # would lump everything; a supplied group_id must win
    bnd = {'none': None, '2': 2.0, 'hit': 0.2, 'hitx': (0.2, None), 'asym': (2.0, 0.2)}[cfg['bnd']]
    kw = dict(grouper=grouper, fitter=make_fitter(cfg['fitter']), xy_bounds=bnd,
              localbkg_estimator=LocalBackground(9, 12) if cfg['bkg'] in ('estimator', 'column+estimator') else None,
              aperture_radius=3.0 if (cfg['fluxinit'] in ('aper', 'given+aper') or driver == 'iter' or aper) else None)
    finder = DecoyFinder() if (cfg['finder'] == 'decoy' or driver == 'iter') else None
    if driver == 'iter':
        return IterativePSFPhotometry(psf, s['fit_shape'], finder, maxiters=1, **kw), kw['fitter'], finder
    return PSFPhotometry(psf, s['fit_shape'], finder=finder, **kw), kw['fitter'], finder


def build_init(cfg, s, perm, part):
    from astropy.table import Table
    rows = [s['init'][i] for i in perm]
    t = Table()
    # columns: [x, y, flux, fwhm] under the spelling(s) of the alias axis.  With two spellings the one that is later in
    # the documented search order comes FIRST in the table and holds decoys (x + 3, y + 2, flux x 5, fwhm 4: still
    # inside the image, but another fit box / another start), the earlier one holds the real start values.
    vals = [[r[0] for r in rows], [r[1] for r in rows], [r[2] for r in rows], [2.5] * len(rows)]
    decoy = [[r[0] + 3.0 for r in rows], [r[1] + 2.0 for r in rows], [r[2] * 5.0 for r in rows], [4.0] * len(rows)]
    use = [True, True, cfg['fluxinit'] != 'aper', cfg['fix'] == 'freefwhm']
    win, lose = alias_columns(cfg['alias'], with_extra=True)
    for names, data in ((lose, decoy), (win, vals)):
        if names is None:
            continue
        for nm, v, u_ in zip(names, data, use):
            if u_:
                t[nm] = v
    labels = None
    if cfg['mode'] in ('gid', 'gid+grouper'):
        lab = (lambda b: b + 1) if cfg['labels'] == 'seq' else (lambda b: GAP_LABELS[b])
        labels = [lab(part[i]) for i in perm]
        t['group_id'] = labels
    if cfg['bkg'] in ('column', 'column+estimator'):
        t['local_bkg'] = [s['bsrc'][i] for i in perm]
    if has_units(cfg):
        # "If data is a Quantity array, then the initial flux values in this table must also have compatible units",
        # "If data has units, then the local_bkg values must have the same units"
        import astropy.units as u
        from astropy.table import QTable
        t = QTable(t)
        for nm in t.colnames:
            if nm in FLUX_NAMES or nm == 'local_bkg':
                t[nm] = np.asarray(t[nm], float) * u.Jy
    return t, labels


def has_units(cfg):
    return cfg['input'] == 'qarr' or 'unit' in cfg['input']


def call_phot(ph, cfg, s, init, form=None):
    """Call the photometry object with (data, mask, error) in the representation ``form`` of the 'input' axis.  The
    conversions sigma -> variance -> inverse variance are written out here with plain numpy."""
    form = form or cfg['input']
    data = s['data'].copy()
    mask = None if s['umask'] is None else s['umask'].copy()
    error = None if s['error'] is None else s['error'].copy()
    if form == 'arrays':
        return ph(data, mask=mask, error=error, init_params=init.copy())
    import astropy.units as u
    if form == 'qarr':
        return ph(data * u.Jy, mask=mask, error=None if error is None else error * u.Jy, init_params=init.copy())
    from astropy.nddata import InverseVariance, NDData, StdDevUncertainty, VarianceUncertainty
    unit = u.Jy if 'unit' in form else None
    unc = None
    if error is not None:
        if form.endswith('-var'):
            unc = VarianceUncertainty(error * error, unit=None if unit is None else unit ** 2)
        elif form.endswith('-ivar'):
            unc = InverseVariance(1.0 / (error * error), unit=None if unit is None else unit ** -2)
        elif form.endswith('-mjy'):
            unc = StdDevUncertainty(error * 1000.0, unit=u.mJy)
        else:
            unc = StdDevUncertainty(error, unit=unit)
    return ph(NDData(data, mask=mask, uncertainty=unc, unit=unit), init_params=init.copy())


def _f(v):
    """plain float (units stripped)"""
    return float(getattr(v, 'value', v))


def _col(tbl, name):
    return [_f(v) for v in tbl[name]]


def _r(v, nd=10):
    """rounded for the violation record (replay signatures must not depend on the last bits)"""
    if isinstance(v, (list, tuple)):
        return [_r(x, nd) for x in v]
    if isinstance(v, float):
        return float(f'{v:.{nd}g}') if math.isfinite(v) else repr(v)
    return v


# --------------------------------------------------------------------------
# the oracle
# --------------------------------------------------------------------------
def run_case(acc, case, seed, cache=None):
    cfg = full_cfg(case.get('cfg'))
    N = case['N']
    perm = list(case['perm'])
    part = list(case['part']) if case.get('part') is not None else None
    s = scenario(cfg, N, seed)
    tag = cfg_tag(cfg)
    init, labels = build_init(cfg, s, perm, part)
    win, _ = alias_columns(cfg['alias'], with_extra=True)
    xin, yin = list(init[win[0]]), list(init[win[1]])
    truth_rows = [s['truth'][i] for i in perm]

    # ---- expected grouping (restricted-growth string over rows) -------------
    if labels is not None:
        cands = {R.first_appearance(labels)}
    elif cfg['mode'] == 'nogroup':
        cands = {tuple(range(N))}
    else:
        cands = R.linkage_candidates(xin, yin, float(cfg['mode'][3:]))
    exp_rgs = sorted(cands)[0]
    # group-sorted fit order differs from row order, or a real group exists
    if labels is not None:
        sort_key = labels
    else:
        sort_key = list(exp_rgs)
    nontrivial = N >= 2 and (sorted(range(N), key=lambda r: (sort_key[r], r)) != list(range(N))
                             or len(set(sort_key)) < N)
    acc.case(nontrivial=nontrivial, sample=case if acc.evaluations % 997 == 3 else None)

    ph, fitter, finder = build_phot(cfg, s, cfg['driver'])
    data = s['data'].copy()
    shp = s['shape']             # image shape of this case (27 x 47 or, in the transposed frames, 47 x 27)
    try:
        with warnings.catch_warnings():
            warnings.simplefilter('ignore')
            res = call_phot(ph, cfg, s, init)
    except Exception as e:       # the property says these calls succeed (all inputs are documented-valid)
        acc.violation('raises', f'{tag}:{type(e).__name__}', case, repr(e)[:300], 'a result table')
        return None
    if res is None:
        acc.violation('raises', f'{tag}:returned-None', case, None, 'a result table')
        return None
    acc.outcome((tuple(int(v) for v in res['group_id']), tuple(int(v) for v in res['flags'])))

    # ---- (0) init_params given: the finder step is bypassed ("The (x, y) values in init_params override this
    #      keyword"; the iterative class uses the finder in "subsequent iterations" only, and maxiters = 1) ----------
    if finder is not None:
        fres = getattr(ph, 'finder_results', None)
        if finder.calls or (cfg['driver'] == 'single' and fres is not None):
            acc.violation('finder-bypass', f'driver={cfg["driver"]}', case,
                          {'finder_calls': finder.calls, 'finder_results': str(fres)[:200]},
                          {'finder_calls': 0, 'finder_results': None},
                          'init_params supplies the positions: the finder must not run')
            return None          # ids / row order below would only restate this defect

    # ---- (a) rows in input order, ids 1..N ----------------------------------
    if len(res) != N or [int(v) for v in res['id']] != list(range(1, N + 1)):
        acc.violation('ids', tag, case, [int(v) for v in res['id']], list(range(1, N + 1)))
        return None
    got_init = [_col(res, 'x_init'), _col(res, 'y_init')]
    if got_init != [[float(v) for v in xin], [float(v) for v in yin]]:
        acc.violation('row-order', f'{tag}:x_init/y_init', case, _r(got_init), _r([xin, yin]),
                      'output rows are not the input rows in input order')
        return None
    if cfg['fluxinit'] != 'aper' and _col(res, 'flux_init') != [_f(v) for v in init[win[2]]]:
        acc.violation('row-order', f'flux_init:fluxinit={cfg["fluxinit"]},driver={cfg["driver"]}', case,
                      _r(_col(res, 'flux_init')), _r([_f(v) for v in init[win[2]]]),
                      'flux_init is the supplied flux column (first spelling in the documented order; it overrides '
                      'aperture_radius)')
        return None

    # ---- (b) groups: group_id, group_size and what was actually fitted together
    got_gid = [int(v) for v in res['group_id']]
    got_size = [int(v) for v in res['group_size']]
    calls = sorted(sorted(c[0]) for c in fitter.calls)
    ok = None
    for rgs in sorted(cands):
        if labels is not None:
            e_gid = list(labels)
        else:
            e_gid = [b + 1 for b in rgs]
        e_size = [list(rgs).count(b) for b in rgs]
        e_calls = sorted(sorted(r + 1 for r in range(N) if rgs[r] == b) for b in set(rgs))
        if got_gid == e_gid and got_size == e_size and calls == e_calls:
            ok = rgs
            break
    if ok is None:
        site = {'gid': 'supplied-group_id', 'gid+grouper': 'supplied-group_id'}.get(cfg['mode'], cfg['mode'])
        acc.violation('groups', site, case,
                      {'group_id': got_gid, 'group_size': got_size, 'fitted_together': calls},
                      {'group_id': e_gid, 'group_size': e_size, 'fitted_together': e_calls},
                      'group_id/group_size columns and the sets of source ids passed to the fitter in one call')
        return None          # everything below would only restate this defect
    rgs = ok
    blocks = {}
    for r in range(N):
        blocks.setdefault(rgs[r], []).append(r)

    # ---- (c) npixfit ----------------------------------------------------------
    area = s['fit_shape'][0] * s['fit_shape'][1]
    boxes, cens, npix_ok = [], [], True
    got_npix = [int(v) for v in res['npixfit']]
    for r in range(N):
        opts = []
        for cx in R.centre_pixels(xin[r]):
            for cy in R.centre_pixels(yin[r]):
                opts.append(R.box_pixels(xin[r], yin[r], s['fit_shape'], shp, s['bad'], cx, cy))
        pick = [o for o in opts if len(o[0]) == got_npix[r]] or opts[:1]
        boxes.append(pick[0][0])
        cens.append(pick[0][1])
        if got_npix[r] not in [len(o[0]) for o in opts]:
            npix_ok = False
    if not npix_ok:
        acc.violation('npixfit', tag, case, got_npix, [len(b) for b in boxes],
                      'fit-box pixels inside the image that are neither masked nor non-finite')
        return None
    percall = sorted((sorted(c[0]), c[1]) for c in fitter.calls)
    e_percall = sorted((sorted(r + 1 for r in rows), sum(len(boxes[r]) for r in rows)) for rows in blocks.values())
    if percall != e_percall:
        acc.violation('npixfit', f'{tag}:pixels-per-fit-call', case, percall, e_percall)
        return None

    # ---- (d) flags ------------------------------------------------------------
    flags = [int(v) for v in res['flags']]
    xf, yf, ff = _col(res, 'x_fit'), _col(res, 'y_fit'), _col(res, 'flux_fit')
    lsq = cfg['fitter'] != 'simplex'
    bnd = {'none': (None, None), '2': (2.0, 2.0), 'hit': (0.2, 0.2), 'hitx': (0.2, None), 'asym': (2.0, 0.2)}[cfg['bnd']]
    free = {'x': cfg['fix'] not in ('xy', 'x'), 'y': cfg['fix'] != 'xy', 'flux': True}
    for r in range(N):
        fl = flags[r]
        if fl & ~63:
            acc.violation('flags', f'{tag}:unknown-bit', case, fl, '< 64')
        e1 = len(boxes[r]) < area
        if bool(fl & 1) != e1:
            acc.violation('flag1', tag, case, {'row': r, 'flags': fl, 'npixfit': got_npix[r]},
                          f'bit 1 {"set" if e1 else "clear"} (box area {area})')
        ny, nx = shp
        must = xf[r] < -0.5 or yf[r] < -0.5 or xf[r] > nx or yf[r] > ny
        mustnot = 0 <= xf[r] <= nx - 0.5 and 0 <= yf[r] <= ny - 0.5
        if (must and not fl & 2) or (mustnot and fl & 2):
            # site: a predicate on the case (which way the bit is wrong, image orientation), not the configuration
            border = ('left' if xf[r] < -0.5 else 'right' if xf[r] > nx else 'bottom' if yf[r] < -0.5 else 'top')
            site2 = (f'missing:beyond-{border}' if must else 'spurious:inside') + (',wide' if nx > ny else ',tall')
            acc.violation('flag2', site2, case, {'row': r, 'flags': fl, 'x_fit': _r(xf[r]), 'y_fit': _r(yf[r])},
                          'bit 2 iff the fitted position is outside the image')
        if bool(fl & 4) != (ff[r] <= 0):
            acc.violation('flag4', tag, case, {'row': r, 'flags': fl, 'flux_fit': _r(ff[r])}, 'bit 4 iff flux_fit <= 0')
        # 16: no covariance returned.  simplex never returns one; an LSQ fitter that produced finite errors did.
        hascov = {tuple(sorted(c[0])): c[2] for c in fitter.calls}[tuple(sorted(q + 1 for q in blocks[rgs[r]]))]
        if bool(fl & 16) != (not hascov):
            acc.violation('flag16', f'fitter={cfg["fitter"]}', case, {'row': r, 'flags': fl, 'fitter_returned_cov': hascov},
                          'bit 16 iff the fitter returned no parameter covariance for the fit of this source')
        # 32: at the bound.  dist <= 1e-8: must be set; > 1e-6: must be clear; between: either.  (trust-region
        # fitters keep iterates strictly inside the bounds and stop within ~1e-12 of an active bound; measured
        # worst 3e-10 on the unchanged tree.)
        dist = math.inf
        for v0, v1, b_, fr in ((xin[r], xf[r], bnd[0], free['x']), (yin[r], yf[r], bnd[1], free['y'])):
            if b_ is not None and fr:
                dist = min(dist, abs(v1 - (v0 - b_)), abs(v1 - (v0 + b_)))
                if abs(v1 - v0) > b_ + 1e-9:
                    acc.violation('bounds', tag, case, {'row': r, 'init': _r(v0), 'fit': _r(v1)}, f'|fit - init| <= {b_}')
        if CAL and dist < 1e-3:
            _cal('bound-dist', dist, case)
        if (dist <= 1e-8 and not fl & 32) or (dist > 1e-6 and fl & 32):
            acc.violation('flag32', 'at-bound' if dist <= 1e-8 else 'not-at-bound', case,
                          {'row': r, 'flags': fl, 'distance_to_bound': _r(dist, 3)},
                          'bit 32 iff the fitted x or y is at the bounded value')
        # cfit is NaN iff the centre pixel of the box is masked / outside (LSQ fitters)
        if lsq:
            cen_in = tuple(cens[r]) in set(boxes[r])
            if math.isnan(_f(res['cfit'][r])) == cen_in and ff[r] != 0:
                acc.violation('cfit-nan', tag, case, {'row': r, 'cfit': _r(_f(res['cfit'][r])), 'centre_pixel_fitted': cen_in},
                              'cfit is NaN iff the central pixel was masked')

    # ---- (e) fixed parameters keep their initial value; their errors are NaN ----
    for nm, v0, v1 in (('x', xin, xf), ('y', yin, yf)):
        if not free[nm]:
            errs = _col(res, f'{nm}_err')
            if v1 != [float(v) for v in v0] or not all(math.isnan(e) for e in errs):
                acc.violation('fixed', f'{nm}:{tag}', case, {'fit': _r(v1), 'err': _r(errs)}, {'fit': _r(list(v0)), 'err': 'NaN'})
    extra = None
    if cfg['fix'] == 'freefwhm':
        extra = _col(res, 'fwhm_fit')
        if _col(res, 'fwhm_init') != [2.5] * N:
            acc.violation('row-order', f'{tag}:fwhm_init', case, _col(res, 'fwhm_init'), [2.5] * N)

    # ---- (f) local background column ------------------------------------------
    lb = _col(res, 'local_bkg')
    bkg_exact = True
    if cfg['bkg'] in ('column', 'none', 'column+estimator'):
        # no estimator: zeros; a supplied column is used as it is, whether or not an estimator exists ("If local_bkg
        # is input, those values will be used and the localbkg_estimator will be ignored")
        if lb != [s['bsrc'][i] for i in perm]:
            acc.violation('local_bkg', f'bkg={cfg["bkg"]}', case, _r(lb), [s['bsrc'][i] for i in perm],
                          'local_bkg column: the supplied values (they override the estimator), zeros without either')
            return None          # recovery / residual below would only restate this defect
    else:
        # any (clipped) median of annulus pixels lies between the smallest and the largest annulus pixel; the
        # annulus (9..12 px, enlarged by 1 px for the pixel-centre rule) sees b + PSF wings of all sources.
        yy, xx = np.mgrid[0:shp[0], 0:shp[1]]
        for r in range(N):
            rr = np.hypot(xx - xin[r], yy - yin[r])
            ann = (rr >= 8.0) & (rr <= 13.0) & ~s['bad']
            vals = s['data'][ann]
            b0 = s['bsrc'][perm[r]]
            lo, hi = vals.min() - 1e-9 * abs(b0), vals.max() + 1e-9 * abs(b0)
            if not lo <= lb[r] <= hi:
                acc.violation('local_bkg', tag, case, {'row': r, 'local_bkg': _r(lb[r])}, _r([float(lo), float(hi)]))
            if max(abs(vals.max() - b0), abs(vals.min() - b0)) > CONTAM * s['peaks'][perm[r]]:
                bkg_exact = False

    # ---- (g) well-posedness on the INPUT, then exact recovery ---------------------
    wellposed = {}
    for b_, rows in blocks.items():
        members = {perm[r] for r in rows}
        wp = lsq and not cfg['noise'] and bkg_exact
        for r in rows:
            if not wp:
                break
            # bounds closer than the initial offset (or fixed coordinates away from the truth)
            for v0, vt, bb, fr in ((xin[r], truth_rows[r][0], bnd[0], free['x']), (yin[r], truth_rows[r][1], bnd[1], free['y'])):
                if fr and bb is not None and abs(v0 - vt) > bb - 0.02:
                    wp = False
                if not fr and v0 != vt:
                    wp = False
            # identifiable from its own box: >= 2 rows, >= 2 columns and at least twice as many pixels as unknowns
            if (len(boxes[r]) < 2 * (3 + (extra is not None)) or len({p[0] for p in boxes[r]}) < 2
                    or len({p[1] for p in boxes[r]}) < 2):
                wp = False
            other = [s['imgs'][j] for j in range(N) if j not in members]
            if other and boxes[r]:
                tot = np.abs(np.sum(other, axis=0))
                c = max(tot[p] for p in boxes[r])
                if c > CONTAM * s['peaks'][perm[r]]:
                    wp = False
        wellposed[b_] = wp
    worst = {'pos': 0.0, 'flux': 0.0}
    for r in range(N):
        if not wellposed[rgs[r]]:
            continue
        tx, ty, tf = truth_rows[r]
        ex, ey, ef = abs(xf[r] - tx), abs(yf[r] - ty), abs(ff[r] - tf) / abs(tf)
        worst['pos'] = max(worst['pos'], ex, ey)
        worst['flux'] = max(worst['flux'], ef)
        if ex > TOL_POS or ey > TOL_POS or ef > TOL_FLUX or not all(map(math.isfinite, (ex, ey, ef))):
            acc.violation('recover', f'{tag}:group_size={len(blocks[rgs[r]])}', case,
                          {'row': r, 'x_fit': _r(xf[r]), 'y_fit': _r(yf[r]), 'flux_fit': _r(ff[r])},
                          {'x': _r(tx), 'y': _r(ty), 'flux': _r(tf)},
                          f'errors {ex:.2e} {ey:.2e} px, {ef:.2e} relative; group fitted with every overlapping source')
        if extra is not None and abs(extra[r] - 2.7) > TOL_POS:
            acc.violation('recover', f'{tag}:fwhm', case, {'row': r, 'fwhm_fit': _r(extra[r])}, 2.7)
    if CAL and worst['pos']:
        _cal('recover-pos', worst['pos'], case)
        _cal('recover-flux', worst['flux'], case)
    acc.counters['rows_recovery_demanded'] += sum(1 for r in range(N) if wellposed[rgs[r]])

    # ---- (h) residual image ~ 0 when every group is well posed ---------------------
    if all(wellposed.values()) and cfg['driver'] == 'single':
        try:
            rdata = data
            if has_units(cfg):
                import astropy.units as u
                rdata = data * u.Jy
            resid = ph.make_residual_image(rdata, psf_shape=None if cfg['psf'] in ('image', 'gridded') else 31)
        except Exception as e:
            acc.violation('raises', f'make_residual_image:{tag}:{type(e).__name__}', case, repr(e)[:300], 'an image')
            resid = None
        if resid is not None:
            good = ~s['bad']
            dev = np.abs((np.asarray(getattr(resid, 'value', resid)) - s['bmap'])[good]).max() / np.abs((s['data'] - s['bmap'])[good]).max()
            if CAL:
                _cal('residual', dev, case)
            if not dev <= TOL_RESID:
                acc.violation('residual', tag, case, _r(float(dev), 3), f'<= {TOL_RESID} of the brightest pixel')

    # ---- (i) perturbed scene: textbook errors, qfit, cfit from the OUTPUT parameters -----
    out = {'x_fit': xf, 'y_fit': yf, 'flux_fit': ff, 'npixfit': got_npix, 'flags': [f & ~8 for f in flags]}
    if lsq:
        for c in ('x_err', 'y_err', 'flux_err', 'qfit', 'cfit'):
            out[c] = _col(res, c)
        if extra is not None:
            out['fwhm_fit'] = extra
            out['fwhm_err'] = _col(res, 'fwhm_err')
    if cfg['noise'] and lsq:
        _check_metrics(acc, case, cfg, s, tag, blocks, boxes, cens, out, lb, free, extra)

    # ---- (j) iterative driver with one iteration == PSFPhotometry ---------------------
    if cfg['driver'] == 'iter':
        ph1, _, _ = build_phot(cfg, s, 'single', aper=True)
        try:
            with warnings.catch_warnings():
                warnings.simplefilter('ignore')
                res1 = call_phot(ph1, cfg, s, init)        # the very same input representation
        except Exception as e:       # the iterative driver accepted this input: PSFPhotometry must as well
            acc.violation('raises', f'{cfg_tag(dict(cfg, driver="single"))}:{type(e).__name__}', case, repr(e)[:300],
                          'a result table')
            return None
        if [c for c in res.colnames if c != 'iter_detected'] != list(res1.colnames):
            acc.violation('iter-equiv', 'columns', case, res.colnames, res1.colnames)
        else:
            for c in res1.colnames:
                d = diff(np.asarray(res[c]), np.asarray(res1[c]))
                if d:
                    acc.violation('iter-equiv', c, case, d, 'identical columns')
            if [int(v) for v in res['iter_detected']] != [1] * N:
                acc.violation('iter-equiv', 'iter_detected', case, list(res['iter_detected']), [1] * N)

    # ---- (k) input representation: Quantity arrays / NDData (uncertainty as standard deviation, variance or
    #      inverse variance, with or without units) == the plain-array call with error = sigma, same driver ---------
    if cfg['input'] != 'arrays':
        cfg0 = dict(cfg, input='arrays')
        init0, _ = build_init(cfg0, s, perm, part)
        ph0, _, _ = build_phot(cfg0, s, cfg['driver'])
        try:
            with warnings.catch_warnings():
                warnings.simplefilter('ignore')
                res0 = call_phot(ph0, cfg0, s, init0)
        except Exception as e:
            acc.violation('raises', f'{cfg_tag(cfg0)}:{type(e).__name__}', case, repr(e)[:300], 'a result table')
            return None
        site = f'{cfg["input"]},driver={cfg["driver"]}'
        if list(res.colnames) != list(res0.colnames):
            acc.violation('input-form', f'columns:{site}', case, res.colnames, res0.colnames)
        else:
            worst = 0.0
            for c in res0.colnames:
                a, b = _col(res, c), _col(res0, c)
                if c == 'flags':             # bit 8 (fitter convergence message) is not a statement about the input
                    bad = [int(v) & ~8 for v in a] != [int(v) & ~8 for v in b]
                elif c in INPUT_EXACT_COLS:
                    bad = a != b
                else:
                    dev = [0.0 if (math.isnan(v) and math.isnan(w)) or v == w else abs(v - w) / (TOL_INPUT * abs(w) + TOL_INPUT)
                           for v, w in zip(a, b)]
                    bad = not all(d <= 1.0 for d in dev)
                    worst = max([worst] + [d * TOL_INPUT for d in dev if math.isfinite(d)])
                if bad:
                    acc.violation('input-form', site, case, {c: _r(a)}, {c: _r(b)},
                                  'same data, mask and 1-sigma errors handed over in another representation: the '
                                  'result differs from the plain-array call (first differing column shown)')
                    break
            if CAL and worst:
                _cal('input-form', worst, case)
    return {'rows_by_identity': {perm[r]: {k: v[r] for k, v in out.items()} for r in range(N)}}


def _check_metrics(acc, case, cfg, s, tag, blocks, boxes, cens, out, lb, free, extra):
    psf = s['psf']
    names = [n for n in ('x', 'y') if free[n]]
    for b_, rows in blocks.items():
        pix = [p for r in rows for p in boxes[r]]               # concatenated boxes (duplicates kept)
        seg = np.cumsum([0] + [len(boxes[r]) for r in rows])
        dat = np.concatenate([[s['data'][p] - lb[r] for p in boxes[r]] for r in rows])
        w = np.ones(len(pix)) if s['error'] is None else np.array([1.0 / s['error'][p] for p in pix])
        layout = []
        p0 = []
        for r in rows:                       # parameter order: model order (flux, x_0, y_0[, fwhm]) per source
            for nm in ('flux', 'x', 'y'):
                if free[nm]:
                    layout.append((r, nm))
                    p0.append(out[f'{nm}_fit'][r])
            if extra is not None:
                layout.append((r, 'fwhm'))
                p0.append(extra[r])

        def resid(p, rows=rows, pix=pix, dat=dat, w=w, layout=layout):
            val = {(r, nm): out[f'{nm}_fit'][r] for r in rows for nm in ('flux', 'x', 'y')}
            for (r, nm), v in zip(layout, p):
                val[(r, nm)] = v
            tot = np.zeros(len(pix))
            for r in rows:
                ex = {'fwhm': val[(r, 'fwhm')]} if (r, 'fwhm') in val else None
                tot += model_at(psf, pix, val[(r, 'x')], val[(r, 'y')], val[(r, 'flux')], ex)
            return (tot - dat) * w
        r0 = resid(np.array(p0))
        try:
            errs = R.lsq_param_errors(resid, p0, s['error'] is not None)
        except np.linalg.LinAlgError:
            errs = None
        for j, r in enumerate(rows):
            sl = slice(seg[j], seg[j + 1])
            q_ref = np.abs(r0[sl]).sum() / out['flux_fit'][r]
            if abs(out['qfit'][r] - q_ref) > TOL_QC * abs(q_ref) + 1e-12:
                acc.violation('qfit', tag, case, {'row': r, 'qfit': _r(out['qfit'][r])}, _r(float(q_ref)),
                              'sum |residual| over the pixels fitted for this source / flux_fit')
            if tuple(cens[r]) in set(boxes[r]):
                ci = boxes[r].index(tuple(cens[r]))
                c_ref = -r0[sl][ci] / out['flux_fit'][r]
                if abs(out['cfit'][r] - c_ref) > TOL_QC * abs(c_ref) + 1e-12:
                    acc.violation('cfit', tag, case, {'row': r, 'cfit': _r(out['cfit'][r])}, _r(float(c_ref)),
                                  'residual (data - model) in the central pixel of the fit box / flux_fit')
        if errs is not None:
            for (r, nm), e in zip(layout, errs):
                got = out[f'{nm}_err'][r]
                dev = abs(got - e) / e
                if CAL:
                    _cal('errref', dev, case)
                if not dev <= TOL_ERRREF:
                    acc.violation('param-errors', f'{tag}:{nm}_err', case, {'row': r, f'{nm}_err': _r(got)}, _r(float(e)),
                                  'sqrt(diag(inv(J^T J) [* sum r^2 / dof when no pixel errors are given])) of the group fit, J by finite differences')


def _cal(what, value, case):
    os.makedirs('/tmp/c12/cal', exist_ok=True)
    with open(f'/tmp/c12/cal/{os.getpid()}.txt', 'a') as fh:
        fh.write(f'{what} {value:.3e} {case}\n')


INV_COLS_FIT = ('x_fit', 'y_fit', 'flux_fit', 'fwhm_fit')
INV_COLS_ERR = ('x_err', 'y_err', 'flux_err', 'fwhm_err', 'qfit', 'cfit')


def check_invariance(acc, case, ref, got):
    """Same partition, other row order / labels: every source must get the same row."""
    if ref is None or got is None:
        return
    cfg = full_cfg(case.get('cfg'))
    tag = cfg_tag(cfg)
    for ident, row in got['rows_by_identity'].items():
        r0 = ref['rows_by_identity'][ident]
        for c, v in row.items():
            w = r0[c]
            if c in ('npixfit', 'flags'):
                bad = v != w
            else:
                if isinstance(v, float) and isinstance(w, float) and math.isnan(v) and math.isnan(w):
                    continue
                tol = TOL_INV_FIT if c in INV_COLS_FIT else TOL_INV_ERR
                scale = abs(w) if c not in ('x_fit', 'y_fit') else 1.0
                bad = not abs(v - w) <= tol * scale + (1e-9 if not cfg['noise'] else 0.0)
                if CAL and scale and cfg['noise']:
                    _cal('inv-' + ('fit' if c in INV_COLS_FIT else 'err'), abs(v - w) / scale, case)
            if bad:
                acc.violation('order-invariance', f'{tag}:{c}', case, {'source': ident, c: _r(v)}, _r(w),
                              'same sources, same partition, other input row order: the row of a source changed')


def invariance_applies(cfg, part, N):
    """Order invariance is demanded on the perturbed scene (where errors, qfit and cfit are far from 0) with an
    LSQ fitter.  Only for partitions that keep the overlapping pair 0-1 (and 1-3) together: a partition that fits
    overlapping sources separately is ill conditioned and its result may legitimately depend on rounding."""
    if not cfg['noise'] or cfg['fitter'] == 'simplex':
        return False
    if part is None:
        return True
    if N >= 2 and part[0] != part[1]:
        return False
    if N >= 4 and part[3] != part[1]:
        return False
    return True


# --------------------------------------------------------------------------
# SourceGrouper alone
# --------------------------------------------------------------------------
GROUPER_SEPS = [0.5, 1.0, 1.2, math.sqrt(2.0), 1.5, 2.0, 2.5, 3.0, 0.999]


def run_grouper(acc, seed, nmax, only=None):
    from photutils.psf import SourceGrouper
    g = gen(seed)
    ox, oy = 10.0 + g['jit'][0]
    lattice = [(float(i), float(j)) for j in range(3) for i in range(3)]
    for n in range(1, nmax + 1):
        for pts in itertools.permutations(range(9), n):
            for sep in GROUPER_SEPS:
                for frame in ('int', 'shifted'):
                    case = {'grouper': True, 'points': list(pts), 'sep': sep, 'frame': frame}
                    if only is not None and case != only:
                        continue
                    dx, dy = (0.0, 0.0) if frame == 'int' else (ox, oy)
                    x = [lattice[p][0] * 1.0 + dx for p in pts]
                    y = [lattice[p][1] * 1.0 + dy for p in pts]
                    cands = R.linkage_candidates(x, y, sep)
                    acc.case(nontrivial=n >= 2, sample=case if acc.evaluations % 20011 == 5 else None)
                    try:
                        got = SourceGrouper(sep)(np.array(x), np.array(y))
                    except Exception as e:
                        acc.violation('grouper', f'raises:{type(e).__name__}', case, repr(e), 'group ids')
                        continue
                    got = [int(v) for v in got]
                    acc.outcome(tuple(got))
                    if tuple(v - 1 for v in got) not in cands:
                        acc.violation('grouper', 'single-linkage-first-appearance' if len(cands) == 1 else 'tie', case, got,
                                      [[b + 1 for b in c] for c in sorted(cands)],
                                      'single-linkage clusters at min_separation, ids numbered from 1 in order of first appearance')


# --------------------------------------------------------------------------
# plan / run / replay
# --------------------------------------------------------------------------
def product_cfgs(tier):
    out = []
    for vals in itertools.product(*[PRODUCT[a] for a in PRODUCT_AXES]):
        c = {a: v for a, v in zip(PRODUCT_AXES, vals) if v != DEFAULT[a]}
        out.append(c)
    return out


def alias_cfgs():
    return [{'alias': a} for a in AXES['alias'] if a != DEFAULT['alias']]


def plan(tier, seed):
    units = []
    nmax = 4 if tier == 'thorough' else 3
    seen = {}

    def add(kind, cfg, ns):
        key = (kind, tuple(sorted(cfg.items())))
        ns = [n for n in ns if n not in seen.setdefault(key, set())]      # never run a case twice
        if not ns:
            return
        seen[key].update(ns)
        units.append({'kind': kind, 'cfg': cfg, 'Ns': list(ns)})
    if tier == 'quick':
        for c in QUICK_N4:
            add('partitions', c, [4])
        for c in STAR + SPECIALS:
            add('partitions', c, [1, 2, 3])
        for c in prec_cfgs():
            add('partitions', c, [1, 2])
        for c in alias_cfgs():
            add('partitions', c, [2])
        for c in ORDER_ONLY + frame_order_cfgs():
            add('orders', c, [1, 2, 3, 4])
        for c in frame_cfgs() + frame_clause_cfgs():
            add('partitions', c, [3])
        for c in input_cfgs():
            add('partitions', c, [1, 2])
    else:
        for c in STAR + SPECIALS:
            add('partitions', c, [4])
        for c in product_cfgs(tier) + STAR + SPECIALS + prec_cfgs() + alias_cfgs():
            add('partitions', c, [1, 2, 3])
        for c in ORDER_ONLY + frame_order_cfgs():
            add('orders', c, [1, 2, 3, 4])
        for c in frame_cfgs():
            add('partitions', c, [4])
        for c in frame_cfgs() + frame_clause_cfgs() + input_cfgs():
            add('partitions', c, [1, 2, 3])
    # long units first (load balance), but the default and the single-axis configurations with N <= 3 lead (short
    # units), so that the first recorded case of a violation key is a smallest one
    units.sort(key=lambda u: (not (u['cfg'] == {} and u['kind'] == 'partitions' and max(u['Ns']) == 3),
                              not (len(u['cfg']) <= 1 and u['kind'] == 'partitions' and min(u['Ns']) == 1),
                              -max(u['Ns'])))
    units.append({'kind': 'grouper', 'nmax': 4 if tier == 'thorough' else 3})
    return units


def cases_of(unit):
    for N in unit['Ns']:
        parts = R.set_partitions(N) if unit['kind'] == 'partitions' else [None]
        for part in parts:
            for perm in itertools.permutations(range(N)):       # identity first
                yield {'N': N, 'perm': list(perm), 'part': None if part is None else list(part), 'cfg': unit['cfg']}


def run_unit(unit, tier, seed):
    acc = Acc()
    if unit['kind'] == 'grouper':
        run_grouper(acc, seed, unit['nmax'])
        return acc
    cfg = full_cfg(unit['cfg'])
    ref = None
    for case in cases_of(unit):
        got = run_case(acc, case, seed)
        if invariance_applies(cfg, case['part'], case['N']):
            if case['perm'] == sorted(case['perm']):
                ref = got
            else:
                check_invariance(acc, case, ref, got)
    return acc


def replay(case, seed):
    acc = Acc()
    if case.get('grouper'):
        run_grouper(acc, seed, len(case['points']), only=case)
        return acc
    got = run_case(acc, case, seed)
    cfg = full_cfg(case.get('cfg'))
    if invariance_applies(cfg, case['part'], case['N']) and case['perm'] != sorted(case['perm']):
        ident = dict(case, perm=sorted(case['perm']))
        ref = run_case(Acc(), ident, seed)
        check_invariance(acc, case, ref, got)
    return acc


def describe(tier, seed):
    nmax = 4 if tier == 'thorough' else 3
    per = {n: math.factorial(n) * R.BELL[n] for n in (1, 2, 3, 4)}
    return {'alphabet': {'sources': SRC, 'image_shape': list(SHAPE), 'axes': AXES,
                         'product_axes(N<=3, thorough)': PRODUCT, 'star': STAR, 'specials': SPECIALS,
                         'order_only': ORDER_ONLY, 'quick_N4': QUICK_N4,
                         'precedence_product': {'axes': PREC, 'configurations': len(prec_cfgs()),
                                                'N': '1..3' if tier == 'thorough' else '1..2 (+ each override alone, '
                                                     'all at once for both drivers at N <= 3, all at once at N = 4)',
                                                'rule': 'the init_params column / table wins; the finder is not called'},
                         'column_spellings': {'xy_suffixes_in_documented_order': XY_SUFFIX, 'flux_names': FLUX_NAMES,
                                              'extra_parameter_suffixes': EXTRA_SUFFIX,
                                              'values': f'{len(ALIAS_SINGLE)} single spellings + {len(ALIAS_PAIR)} '
                                                        'ordered pairs (winner real, loser decoy, loser first in the '
                                                        'table)', 'N': '1..3' if tier == 'thorough' else '2'},
                         'geometry': {'frames': AXES['frame'], 'image_shapes': [list(SHAPE), list(SHAPE[::-1])],
                                      'product': {'frame': AXES['frame'], 'scene': FRAME_SCENES, 'fit': FRAME_FITS,
                                                  'configurations': len(frame_cfgs()),
                                                  'N': '1..4' if tier == 'thorough' else '3 (the isolated source is identity 2)'},
                                      'per_frame_clause_configurations': FRAME_CLAUSES,
                                      'per_frame_grouper_configurations': FRAME_ORDER_ONLY,
                                      'N_clause': '1..3' if tier == 'thorough' else '3'},
                         'input_representation': {'forms': AXES['input'], 'drivers': AXES['driver'],
                                                  'configurations': len(input_cfgs()),
                                                  'N': '1..3' if tier == 'thorough' else '1..2',
                                                  'oracle': 'equals the plain-array call (error = sigma) of the same '
                                                            'driver; integer columns exactly, floats to 1e-9',
                                                  'tolerance': TOL_INPUT},
                         'grouper': {'lattice': '3x3 unit lattice, integer and generic origin', 'seps': GROUPER_SEPS,
                                     'tuples': f'all ordered tuples of <= {nmax} distinct points'}},
            'bound': {'N': '1..4', 'orders_x_partitions_per_configuration': per,
                      'N=4 configurations': 'star + specials (thorough), QUICK_N4 (quick)'}}
