"""C11 -- Background2D maps are full-size, finite, mask-blind and equivariant;
mesh values equal the estimator on the sigma-clipped unmasked box pixels.

Shape (C): three full Cartesian products executed on the real ``Background2D``:

* structural product: image shape x box size x edge method x mask x data kind
  (all finite / unmasked NaN, +inf, -inf pixels) x coverage mask x
  exclude_percentile x interpolator (default estimators, default 3-sigma clip,
  default 3x3 mesh filter).  mask x data kind x coverage is a full product, so
  every branch of the mask combination ({no mask, mask only, coverage only,
  both} x {finite data, non-finite pixels outside / under the given masks}) is
  reached;
* estimator product on 4 representative structures (one of them: coverage mask
  only + non-finite data): background estimator x RMS estimator x sigma clip x
  filter_size x filter_threshold x data representation (float64, float32,
  Quantity);
* degenerate-statistic product (box CONTENT is the enumerated object): one image
  that holds, one per 3x3 box, every multiset of m = 0 .. 9 good pixels over a
  three-letter value alphabet {0, 1, 7} (220 boxes; thorough also the four
  letters {0, 2, 5, 7}, 715 boxes; values level + quantum * letter, the other
  9 - m pixels masked) x background estimator x RMS estimator x sigma clip x
  filter_size (x interpolator x exclude_percentile x representation in the
  thorough tier).  This enumerates the boxes on which the estimators' special
  cases live and that generic noise never produces: constant boxes (std == MAD
  == 0), boxes with at least half (not all) of the pixels equal to the median
  (MAD == 0, std > 0), ties at the median, two-valued boxes, 1-/2-/3-pixel
  boxes and boxes that become any of these through sigma clipping (class of
  every clipped box counted in the evidence).  Every clause, the magnitude
  ladder included, is applied; mesh violations are keyed by the class of the box.

Every ``Background2D`` call receives its own fresh *copies* of the mask and
coverage-mask arrays; the oracle judges with the harness's pristine (read-only)
arrays, never with an array object that was handed to photutils (an
implementation that combines masks in place would otherwise rewrite the truth
the maps are judged against).

Magnitude ladder (shift constant c and scale factor k are axes, not one
moderate constant each): besides the generic c = 16 / k = 2.5 applied to every
case, the shift relation is executed for c in {0.5, 2^10, 2^20, 2^30, -10,
-2^30} and the scale relation for k in {2, 2^-10, 2^-30, 2^20} (more in the
thorough tier), for the background AND the RMS map, in full product with
(a) shape x box x edge x mask x exclude_percentile x interpolator of the
structural product (the cells without coverage mask and with finite data) and
(b) every float64 / no-filter-threshold case of the estimator product (all
estimators x RMS estimators x sigma clips x filter sizes, both interpolators,
coverage mask and non-finite pixels included).  All constants are dyadic and
the ladder image is rounded to multiples of 2^-20 first, so data + c and
data * k are formed without any rounding and the tolerance is the arithmetic
of the implementation alone: 16 (n + 8) eps (scale + |c|) for the shift, 0
(granted: 1e-12 k scale) for powers of two.  Where the configured filter is 1x1
the mesh of the shifted / scaled image is also compared with the reference
estimator of each box.  This reaches the scales on which a hidden absolute or
relative tolerance of the implementation (allclose / isclose defaults 1e-8 and
1e-5, "tiny" cut-offs, single-precision or one-pass arithmetic) sits.

All products are run twice: with the optional ``bottleneck`` accelerator
importable, and with it blocked.  Blocking is done the only sound way: the
unit is executed in a dedicated fresh interpreter in which
``sys.modules['bottleneck'] = None`` is set *before* photutils (and astropy)
are imported, so ``photutils.utils._stats`` binds the numpy functions at import
time exactly as on a machine without bottleneck (rebinding names afterwards
would miss the ``from ... import nanmedian`` copies in core.py/biweight.py).

Oracles: (1) an independent plain-Python reference of the mesh
(``mcphot/ref/bkg2d.py``: box slicing, sigma clipping, the nine estimators, the
documented exclusion rule, the documented median filter); (2) relations that
need no reference: shape, finiteness, fill value on exactly the coverage
pixels, bit-exact blindness to the values stored under ``mask`` /
``coverage_mask``, automatically masked non-finite pixels == the same pixels
given through ``mask``, constant image, shift and scale equivariance,
clipped-spline range.
"""
import itertools
import os
import pickle
import subprocess
import sys
from fractions import Fraction

import numpy as np

from ..ref import bkg2d as ref
from ..runner import Acc

PROPERTY = 'C11'
LEVEL = 'exploration'
RULE = ('three full Cartesian products (see alphabet), each executed with bottleneck present and blocked; cases are '
        'distinct product indices; a case is non-trivial when the reference mesh has at least two included boxes '
        'with different values (so the full-size map is not a constant and every stage - box statistics, '
        'exclusion, fill, filter, interpolation - can change the result).  In the structural product mask kind x '
        'data kind (finite / unmasked NaN,+inf,-inf pixels) x coverage kind is a full product; every Background2D '
        'call gets fresh copies of mask and coverage_mask and all clauses are judged with the harness\'s own '
        'read-only originals.  The shift constant c and the scale factor k of the equivariance clauses are axes '
        '(magnitude ladder, dyadic values up to 2^30 / down to 2^-30, both signs of c) in full product with '
        'shape x box x edge x mask x exclude_percentile x interpolator (structural cells without coverage mask and '
        'non-finite pixels) and with every float64, threshold-free case of the estimator product; every other '
        'float64 threshold-free case gets the moderate c = 16 and k = 2.5 only.  Degenerate-statistic product: the '
        'enumerated objects are the pixel samples of a box - every multiset of 0..9 good pixels over a 3-letter '
        '(thorough: also a 4-letter) value alphabet in a 3x3 box, all 220 (715) in one image, one per mesh cell - in '
        'full product with bkg estimator x rms estimator x sigma clip x filter size (thorough: x exclude_percentile x '
        'representation, and x interpolator on the 3-letter image); all clauses incl. the ladder apply; a mesh-value '
        'violation is keyed by the class of the clipped box (constant / MAD==0,ptp>0 / MAD>0)')
ASSUMPTIONS = ['numpy arithmetic, sorting and scipy.ndimage.zoom / cKDTree are trusted; the photutils estimator classes, '
               'astropy SigmaClip, the bottleneck/numpy nan-statistics dispatch and the mesh filter are NOT trusted '
               '(re-derived in mcphot/ref/bkg2d.py)',
               'images are at most 9x9 and boxes at most 4x5 (or the whole image): defects that need a larger frame '
               'are out of the bound',
               'the exclusion rule is the documented one (a box is excluded when MORE than exclude_percentile percent '
               'of its padded pixels are masked or clipped, or when it has no good pixel); where the float threshold '
               'is not exactly representable the boundary is judged either way',
               'blocked-bottleneck units run in a fresh interpreter with sys.modules["bottleneck"] = None',
               'non-finite data pixels are "automatically masked" (documented warning text): they count as masked '
               'pixels of their box and must give the same maps as the same pixels passed through mask',
               'the clause "fill_value on exactly the coverage pixels" is asserted in its "nowhere else" direction '
               'only when fill_value lies outside [min, max] of the interpolated mesh (both interpolators produce '
               'values inside that range: clipped spline / positive-weight mean), counted in '
               'counters.maps_checked_fill_only_on_coverage vs maps_fill_inside_mesh_range',
               'magnitude ladder: the image is rounded to multiples of 2^-20 and c, k are dyadic, so data + c and data * k '
               'are exact (asserted at run time); shift tolerance 16 (n + 8) eps (max|data| + |c|), n = pixels per box '
               '(bound on naive summation + estimator amplification <= 5 + spline gain <= 3; observed <= 16 eps M, '
               'histogram in counters); power-of-two scaling commutes with IEEE arithmetic, expected deviation 0 '
               '(observed 0), granted 1e-12 k max|data|.  A shift is judged only where the input is well-posed for the '
               'discontinuous steps: the reference\'s smallest |pixel - clipping bound| and the distance from the '
               'SExtractor branch switch must exceed 4x the worst-case perturbation of the bounds at that magnitude '
               '(else counted in ladder_shift_ill_posed_not_judged); values |c| > 2^30, |k| outside [2^-60, 2^40], '
               'non-dyadic large constants and subnormal / overflowing images are outside the bound',
               'the mesh-vs-reference clause on shifted / scaled images is applied where the configured filter is 1x1 '
               '(one third of the estimator-product ladder cases); with a 3x3 / 1x3 filter the transformed image is '
               'judged through the relation with the (reference-checked) untransformed one',
               'degenerate-statistic product: box statistics are functions of the multiset of good pixel values (one fixed '
               'arrangement per box: ascending values at row-major positions rotated by the box number; arrangements are '
               'the business of the other two products); values are level + quantum * letter with seed-chosen dyadic '
               'level in [4, 12) and quantum in [1, 3); letters {0,1,7} and {0,2,5,7} were searched so that for the clips '
               '(3, 10) and (2, 3) no multiset has a pixel within 1e-3 quanta of a clipping bound or of the SExtractor '
               'branch switch (asserted at run time; most other small alphabets contain exact ties, e.g. {0,1,5}: '
               '[0,1x7,5] has 5 == median + 3 std) - boxes ON such a tie are therefore outside the bound; the boxes '
               'are exact multiples of the 3x3 box (no padded edge boxes here), exclude_percentile 90 (thorough: and 50), '
               'quick: float64 and BkgZoomInterpolator only (the IDW fill of the all-masked box is always exercised); '
               'integer input dtypes are not explored',
               'equal-valued samples do not enter the clipping well-posedness margin: their median is exact and '
               'std >= 0, so every pixel is kept at any offset / scale',
               'mask / coverage_mask are passed as fresh writable bool ndarrays (copies); aliasing of one caller '
               'array passed as both mask and coverage_mask is not explored; mutation of the caller\'s arrays is '
               'not judged here (that is property C10), only its effect on the returned maps']

FILL = -7.25          # fill_value used in the structural product (non-default, exactly representable)
_IN_BLOCKED_CHILD = False

# ---------------------------------------------------------------- alphabets
SHAPES_QUICK = [(6, 6), (7, 9), (5, 8)]
SHAPES_THOROUGH = SHAPES_QUICK + [(9, 4), (4, 4), (8, 5), (9, 9), (6, 7), (4, 7), (5, 5), (6, 9), (7, 4), (7, 7),
                                  (8, 8), (9, 6), (8, 9)]
BOXES = [(2, 2), (3, 3), (2, 3), (4, 5), 'image', 'larger']
EDGES = ['pad', 'crop']
MASKS = ['none', 'single', 'fullbox', 'checker', 'allbutone']
DATAK = ['finite', 'nonfinite']      # 'nonfinite': NaN at the centre, +inf top-right, -inf bottom-left (not in mask
#                                      unless the mask kind happens to cover them; 'lastrow' / 'corner' coverage
#                                      cover the -inf / the +inf respectively, the NaN is never coverage-masked)
COVS = ['none', 'lastrow', 'corner']
EPS = [0, 10, 50, 100]
EPS_THOROUGH = [0, 10, 25, 50, 90, 100]
INTERPS = ['zoom', 'idw']

BKG_EST = ['Mean', 'Median', 'Mode', 'MMM', 'SExtractor', 'BiweightLocation']
RMS_EST = ['Std', 'MADStd', 'BiweightScale']
CLIPS = [None, (3.0, 10), (2.0, 3)]
FSIZES = [(1, 1), (3, 3), (1, 3)]
FTHRS = [None, 'mid']
REPRS = ['float64', 'float32', 'quantity']
# Degenerate-statistic product: box CONTENT is the enumerated object.  Every multiset of m = 0 .. 9 good pixels over a
# small value alphabet ("letters", realised as level + quantum * letter) in a 3x3 box, all in one image (one box per
# mesh cell, see ref.multiset_image).  This is where std == 0, MAD == 0 with a non-constant box (at least half of the
# pixels equal the median), ties at the median, two-valued boxes, one-/two-/three-pixel boxes and boxes that BECOME
# degenerate through sigma clipping live; generic noise reaches none of them.  The letters are chosen (searched,
# probe in DESIGN notes) so that no multiset has a pixel on a clipping bound or sits on the SExtractor branch switch
# for the clips of CLIPS: smallest |pixel - bound| 4.1e-3 / 1.2e-3 quanta, branch margin 7.7e-3 / 3.3e-3 quanta
# ((0,1,7) / (0,2,5,7)); (0,1,7) also contains |x - median| == 6 MAD exactly (the |u| == 1 edge of the biweight
# location weights: weight 0 either way).
DEG_LETTERS_QUICK = [(0, 1, 7)]
DEG_LETTERS_THOROUGH = [(0, 1, 7), (0, 2, 5, 7)]
DEG_BOX = (3, 3)
DEG_EP_QUICK = [90]                  # 90: every box with >= 1 good pixel is included (8 of 9 masked = 88.9 %)
DEG_EP_THOROUGH = [90, 50]           # 50: boxes with <= 4 good pixels left after clipping are excluded and filled
DEG_FSIZES = [(1, 1), (3, 3)]
# interpolator: the box statistics do not depend on it, and BkgIDWInterpolator costs 20 ms per map on these images
# (10x the rest of a call): quick runs the zoom interpolator only (the IDW *fill* of the excluded all-masked box is
# part of every call); thorough adds BkgIDWInterpolator on the (0,1,7) image
DEG_INTERPS_QUICK = {(0, 1, 7): ['zoom']}
DEG_INTERPS_THOROUGH = {(0, 1, 7): ['zoom', 'idw'], (0, 2, 5, 7): ['zoom']}
DEG_REPRS_QUICK = ['float64']
DEG_REPRS_THOROUGH = REPRS
DEG_MARGIN = 1e-3                    # quanta; >> every rounding of the bounds (1e-15 relative; ladder: 4e-5 at 2^30)
DEG_JUNK = -100.0                    # value stored under the mask of the unused pixels of a box


def deg_letters(tier):
    return DEG_LETTERS_THOROUGH if tier == 'thorough' else DEG_LETTERS_QUICK


def deg_interps(tier, letters):
    return (DEG_INTERPS_THOROUGH if tier == 'thorough' else DEG_INTERPS_QUICK)[tuple(letters)]


def deg_eps(tier):
    return DEG_EP_THOROUGH if tier == 'thorough' else DEG_EP_QUICK


def deg_reprs(tier):
    return DEG_REPRS_THOROUGH if tier == 'thorough' else DEG_REPRS_QUICK


def degenerate_level(seed):
    """'some level, some quantum': dyadic (multiples of 2^-8, so level + quantum * letter, the ladder shifts and
    the float32 representation are all exact), level in [4, 12), quantum in [1, 3)"""
    rng = np.random.default_rng(7001 + 13 * seed)
    return 4.0 + int(rng.integers(0, 8 * 256)) / 256.0, 1.0 + int(rng.integers(0, 2 * 256)) / 256.0


_REF_CACHE = {}


def reference_mesh(data, good, box, edge, ep, clip, bkg_name, rms_name, classify=False, cached=False):
    """ref.reference_mesh; ``cached``: memoised on the complete argument values (a pure function: the cases of the
    degenerate product that differ only in filter size / interpolator / representation ask for the same meshes; the
    returned arrays are never written to)"""
    if not cached:
        return ref.reference_mesh(data, good, box, edge, ep, clip, bkg_name, rms_name, classify=classify)
    key = (data.shape, data.tobytes(), good.tobytes(), tuple(box), edge, ep, clip, bkg_name, rms_name, classify)
    if key not in _REF_CACHE:
        if len(_REF_CACHE) >= 40:
            _REF_CACHE.clear()
        _REF_CACHE[key] = ref.reference_mesh(data, good, box, edge, ep, clip, bkg_name, rms_name, classify=classify)
    return _REF_CACHE[key]


def degenerate_image(letters, seed):
    level, quantum = degenerate_level(seed)
    data, mask, boxes, _ = ref.multiset_image(tuple(letters), DEG_BOX, level, quantum, DEG_JUNK)
    mask.setflags(write=False)
    return data, mask, boxes


# Magnitude axes of the shift / scale relations ("ladder").  All values are dyadic so that the transformed image is
# formed WITHOUT rounding: the ladder data are first rounded to multiples of 2**-20 (QGRID), |data| <= 128, hence
# data + c is exact for every c that is a multiple of 2**-20 with |c| <= 2**30, and data * 2**e is always exact.
# The relation is then a statement about the implementation's arithmetic alone.  The ladder spans the absolute and
# the relative scale on which a hidden tolerance (isclose / allclose defaults atol 1e-8, rtol 1e-5, "tiny" cut-offs)
# can sit: relative spread of the mesh 2 / 2**30 = 2e-9, absolute size of the scaled data 10 * 2**-30 = 1e-8 with
# mesh differences of 1e-9, and 2**-60 in the thorough tier; negative c moves the level to ~0 (mixed signs) and to
# a large negative level.
QGRID = 2.0 ** 20
SHIFTS_QUICK = [0.5, 1024.0, 2.0 ** 20, 2.0 ** 30, -10.0, -2.0 ** 30]
SHIFTS_THOROUGH = SHIFTS_QUICK + [2.0 ** 10 + 2.0 ** -20, 2.0 ** 25, -3.0, -2.0 ** 20]
SCALES_QUICK = [2.0, 2.0 ** -10, 2.0 ** -30, 2.0 ** 20]
SCALES_THOROUGH = SCALES_QUICK + [0.5, 2.0 ** -60, 2.0 ** 40]
EPSF = float(np.finfo(float).eps)


def shifts(tier):
    return SHIFTS_THOROUGH if tier == 'thorough' else SHIFTS_QUICK


def scales(tier):
    return SCALES_THOROUGH if tier == 'thorough' else SCALES_QUICK


def mag_label(x):
    """'2^30', '-2^30', '2^-10' for pure powers of two beyond 2**+-9, else repr"""
    m, e = np.frexp(abs(x))
    if m == 0.5 and abs(e - 1) >= 10:
        return f'{"-" if x < 0 else ""}2^{int(e) - 1}'
    return repr(float(x))


# representative structures of the estimator product: shape, box, edge, mask, coverage, exclude_percentile, interpolator
STRUCTS = [
    {'shape': (6, 6), 'box': (3, 3), 'edge': 'pad', 'mask': 'none', 'cov': 'none', 'ep': 10, 'interp': 'zoom'},
    {'shape': (7, 8), 'box': (2, 3), 'edge': 'pad', 'mask': 'mixed', 'cov': 'none', 'ep': 70, 'interp': 'zoom'},
    {'shape': (9, 12), 'box': (4, 5), 'edge': 'pad', 'mask': 'single', 'cov': 'block', 'ep': 80, 'interp': 'idw'},
    {'shape': (6, 7), 'box': (3, 3), 'edge': 'pad', 'mask': 'none', 'cov': 'lastrow', 'ep': 50, 'interp': 'zoom',
     'nonfinite': True},
    # thorough only:
    {'shape': (7, 9), 'box': (3, 4), 'edge': 'crop', 'mask': 'single', 'cov': 'lastrow', 'ep': 50, 'interp': 'zoom'},
    {'shape': (6, 7), 'box': 'image', 'edge': 'pad', 'mask': 'single', 'cov': 'none', 'ep': 20, 'interp': 'zoom'},
]


def structs(tier):
    return STRUCTS if tier == 'thorough' else STRUCTS[:4]


def shapes(tier):
    return SHAPES_THOROUGH if tier == 'thorough' else SHAPES_QUICK


def eps(tier):
    return EPS_THOROUGH if tier == 'thorough' else EPS


def box_of(shape, box):
    if box == 'image':
        return tuple(shape)
    if box == 'larger':            # documented: a box larger than the image is reset to the image
        return (shape[0] + 3, shape[1] + 2)
    return tuple(box)


def eff_box(shape, box):
    b = box_of(shape, box)
    return (min(b[0], shape[0]), min(b[1], shape[1]))


# ---------------------------------------------------------------- realisation
def make_data(shape, seed):
    """'some noise image': generic reals; one strong unmasked outlier so that
    sigma clipping rejects something in boxes of more than ~11 pixels."""
    rng = np.random.default_rng(1000 * seed + 37 * shape[0] + shape[1])
    d = rng.normal(10.0, 2.0, size=shape)
    d[1, 1] = 100.0
    if shape[0] > 4 and shape[1] > 5:
        d[4, 5] = -60.0
    return d


def nonfinite_pixels(shape):
    """data kind 'nonfinite': one NaN, one +inf, one -inf pixel"""
    ny, nx = shape
    return [((ny // 2, nx // 2), np.nan), ((0, nx - 1), np.inf), ((ny - 1, 0), -np.inf)]


def make_mask(kind, shape, box, edge):
    """-> mask (read-only: the harness's pristine original) or None"""
    ny, nx = shape
    by, bx = box
    m = np.zeros(shape, bool)
    if kind == 'none':
        return None
    if kind == 'single':
        m[ny // 2, nx // 2] = True
    elif kind == 'fullbox':
        my, mx = ref.mesh_shape(shape, box, 'pad')
        i = min(1, mx - 1)
        m[0:by, i * bx:(i + 1) * bx] = True
    elif kind == 'checker':
        yy, xx = np.mgrid[0:ny, 0:nx]
        m = (yy + xx) % 2 == 1
    elif kind == 'allbutone':
        m[:] = True
        m[0:by, 0:bx] = False
    elif kind == 'mixed':
        m[0, :2] = True
        m[ny - 1, 0] = True
        m[2:4, 3:6] = True          # one full 2x3 box of structure 1
        m[5, 1] = True
    else:
        raise ValueError(kind)
    m.setflags(write=False)
    return m


def make_cov(kind, shape):
    if kind == 'none':
        return None
    c = np.zeros(shape, bool)
    if kind == 'lastrow':
        c[-1, :] = True
    elif kind == 'corner':
        c[:2, -2:] = True
    elif kind == 'block':
        c[:2, :2] = True
    else:
        raise ValueError(kind)
    c.setflags(write=False)         # the harness's pristine original; photutils only ever sees copies
    return c


def _phot():
    from astropy.stats import SigmaClip
    import astropy.units as u
    import photutils.background as pb
    return pb, SigmaClip, u


def _bn_state():
    import photutils.utils._optional_deps as od
    import photutils.utils._stats as st
    return bool(od.HAS_BOTTLENECK), (st.nanmedian is np.nanmedian)


def assert_mode(bn):
    has, plain = _bn_state()
    if bn == 'present' and (not has or plain or 'bottleneck' not in sys.modules):
        raise RuntimeError('bottleneck-present unit, but photutils.utils._stats is not using bottleneck '
                           f'(HAS_BOTTLENECK={has}, numpy functions bound={plain})')
    if bn == 'blocked' and (has or not plain):
        raise RuntimeError('bottleneck-blocked unit, but photutils sees bottleneck')


def estimators(pb, bkg, rms):
    b = {'Mean': pb.MeanBackground, 'Median': pb.MedianBackground, 'Mode': pb.ModeEstimatorBackground,
         'MMM': pb.MMMBackground, 'SExtractor': pb.SExtractorBackground,
         'BiweightLocation': pb.BiweightLocationBackground}[bkg]
    r = {'Std': pb.StdBackgroundRMS, 'MADStd': pb.MADStdBackgroundRMS,
         'BiweightScale': pb.BiweightScaleBackgroundRMS}[rms]
    return b(), r()


def val(x):
    """plain ndarray of a possibly-Quantity result"""
    return np.asarray(getattr(x, 'value', x))


def impl_excluded(b):
    """Which mesh cells the implementation excluded (public, deprecated
    ``background_mesh_masked``: NaN where excluded; private fallback)."""
    try:
        return np.isnan(val(b.background_mesh_masked))
    except Exception:
        return np.asarray(b._mesh_nan_mask)


class Built:
    pass


def build(acc, case, data, box, kw, site):
    """Construct and read everything once, in the conventional order
    (background before RMS: the reverse order with filter_threshold is a C09
    matter).  -> Built or the string 'allboxes' or None (violation recorded).

    ``mask`` / ``coverage_mask`` are handed over as fresh writable copies on
    every call: whatever the implementation does to the arrays it receives can
    neither leak into the next call nor into the arrays the oracle uses."""
    pb = _phot()[0]
    kw = dict(kw)
    for k in ('mask', 'coverage_mask'):
        if kw.get(k) is not None:
            kw[k] = np.array(kw[k], dtype=bool, copy=True)
    try:
        b = pb.Background2D(data, box, **kw)
    except ValueError as e:
        if 'All boxes contain' in str(e):
            return 'allboxes'
        acc.violation('raises', f'{site}:ValueError', case, repr(e), 'no exception')
        return None
    except Exception as e:
        acc.violation('raises', f'{site}:{type(e).__name__}', case, repr(e), 'no exception')
        return None
    r = Built()
    try:
        r.obj = b
        r.bkg = b.background
        r.rms = b.background_rms
        r.mesh = b.background_mesh
        r.rmesh = b.background_rms_mesh
        r.npix = np.asarray(b.npixels_mesh)
        r.median = b.background_median
    except Exception as e:
        acc.violation('raises', f'{site}:read:{type(e).__name__}', case, repr(e), 'no exception')
        return None
    return r


def float_threshold_exact(box_npix, ep):
    """Is the natural float evaluation of the good-pixel threshold exactly the
    rational (1 - ep/100) * npix?  If not, a box exactly on the boundary may be
    judged either way by a correct implementation (soundness rule 1)."""
    thr = (1 - (ep / 100.0)) * box_npix
    return Fraction(thr) == Fraction(100 - Fraction(ep), 100) * box_npix


# ---------------------------------------------------------------- the oracle for one configuration
def check_config(acc, case, seed, *, shape, box, edge, mask_kind, cov_kind, ep, interp, bkg_name='SExtractor',
                 rms_name='Std', clip=(3.0, 10), fsize=(3, 3), fthr=None, rep='float64', fill=FILL,
                 relations=True, tier='quick', nonfinite=False, ladder=False, degenerate=None):
    pb, SigmaClip, u = _phot()
    if degenerate is not None:            # degenerate-statistic product: the image IS the enumeration of the boxes
        base, mask, deg_boxes = degenerate_image(degenerate, seed)
        shape, box = base.shape, DEG_BOX
    shape = tuple(shape)
    ebox = eff_box(shape, box)
    rbox = box_of(shape, box)
    if mask_kind == 'nonfinite':          # spelling of replay files written before 'data kind' became an axis
        mask_kind, nonfinite = 'none', True
    if degenerate is None:
        base = make_data(shape, seed)
        mask = make_mask(mask_kind, shape, ebox, edge)
    nonfinite = nonfinite_pixels(shape) if nonfinite else []
    cov = make_cov(cov_kind, shape)
    for (p, v) in nonfinite:
        base[p] = v
    if rep == 'float32':
        base = base.astype(np.float32)
    good = np.isfinite(base)
    if mask is not None:
        good &= ~mask
    if cov is not None:
        good &= ~cov
    data64 = base.astype(float)

    # float32: the statistics are evaluated in single precision (eps 6e-8; the mode estimators amplify by 5 and
    # values reach 100) -> 1e-5 of the value scale; float64: summation-order rounding is < 1e-13 of the scale, any
    # wrong pixel-set membership moves a value by > 1e-4 for generic noise -> 1e-10 (validated by probe p22).
    rtol = 1e-5 if rep == 'float32' else 1e-10
    scale = float(np.max(np.abs(data64[good]))) if good.any() else 1.0
    tol = rtol * scale

    deg = degenerate is not None
    R = reference_mesh(data64, good, ebox, edge, ep, clip, bkg_name, rms_name, classify=deg, cached=deg)
    if degenerate is not None:
        # well-posedness of the discontinuous steps on this (quantised) input: the letters are chosen so that no
        # pixel of any box lies on or near a clipping bound / the SExtractor branch switch (soundness rule 1: such
        # ties would be undecidable); this is a property of the enumeration, so a failure is a harness error
        q = degenerate_level(seed)[1]
        if not (R['clip_margin'] > DEG_MARGIN * q and R['branch_margin'] > DEG_MARGIN * q):
            raise RuntimeError(f'harness: degenerate letters {degenerate} put a pixel within {DEG_MARGIN} quanta of a '
                               f'clipping bound / branch switch (clip {R["clip_margin"]!r}, branch {R["branch_margin"]!r})')
        for c_ in ('constant', 'MAD==0,ptp>0', 'MAD>0'):
            acc.counters[f'degenerate_boxes_after_clipping:{c_}'] += int((R['cls'] == c_).sum())
    exact_thr = float_threshold_exact(ebox[0] * ebox[1], ep)
    doc_incl = R['incl'].copy()
    sure_incl = R['incl'] & ~R['boundary']
    # boundary cells are ambiguous in both directions when the float threshold is inexact
    amb = R['boundary'].copy() if not exact_thr else np.zeros_like(R['boundary'])
    must_incl = doc_incl & ~amb
    inc_vals = R['bkg'][sure_incl | (R['boundary'] & R['incl'])]
    nontrivial = inc_vals.size >= 2 and float(np.ptp(inc_vals)) > 0
    acc.case(nontrivial=bool(nontrivial), sample=case if acc.evaluations % 1499 == 3 else None)
    acc.counters['pixels_clipped_in_reference'] += int(R['nclipped'])
    acc.counters['cells_excluded_in_reference'] += int((~doc_incl).sum())
    acc.counters['cells_on_exclusion_boundary'] += int(R['boundary'].sum())

    def sc():
        return None if clip is None else SigmaClip(sigma=clip[0], maxiters=clip[1])

    def interp_obj():
        return pb.BkgIDWInterpolator() if interp == 'idw' else pb.BkgZoomInterpolator()

    def kwargs(fs, ft):
        be, re_ = estimators(pb, bkg_name, rms_name)
        return dict(mask=mask, coverage_mask=cov, fill_value=fill, exclude_percentile=ep, filter_size=fs,
                    filter_threshold=ft, edge_method=edge, sigma_clip=sc(), bkg_estimator=be,
                    bkgrms_estimator=re_, interpolator=interp_obj())

    def present(d):
        return d * u.adu if rep == 'quantity' else d

    # ---- 1. unfiltered object: mesh values against the reference ----------------------------------
    b1 = build(acc, case, present(base.copy()), rbox, kwargs(1, None), 'Background2D(filter_size=1)')
    if b1 is None:
        return
    if b1 == 'allboxes':
        acc.counters['raised_all_boxes'] += 1
        if not must_incl.any():
            acc.skip('every box has too few good pixels (documented ValueError)')
        elif (must_incl & ~R['boundary']).any():
            acc.violation('raises', 'all-boxes-excluded:box-with-fewer-masked-than-exclude_percentile', case,
                          'ValueError: All boxes contain <= N good pixels',
                          f'{int((must_incl & ~R["boundary"]).sum())} boxes have strictly less than {ep}% masked pixels')
        else:
            acc.violation('exclusion-rule', 'masked-fraction==exclude_percentile', case,
                          'ValueError: All boxes contain <= N good pixels',
                          f'{int(doc_incl.sum())} boxes have exactly {ep}% masked pixels (not more): documented as included',
                          'documentation: a box is excluded if it has MORE than exclude_percentile percent masked pixels; '
                          'exclude_percentile=0 keeps boxes without masked pixels')
        return
    acc.outcome(val(b1.bkg).tobytes()[:64])
    m1, r1, np1 = val(b1.mesh).astype(float), val(b1.rmesh).astype(float), b1.npix
    if m1.shape != R['bkg'].shape or r1.shape != R['bkg'].shape or np1.shape != R['bkg'].shape:
        acc.violation('mesh-shape', f'edge={edge}', case, [m1.shape, r1.shape, np1.shape], R['bkg'].shape)
        return
    exc = impl_excluded(b1.obj)
    if not (doc_incl | amb).any():
        acc.violation('exclusion-rule', 'no-box-qualifies-but-no-error', case, m1.tolist(), 'ValueError (all boxes excluded)')
        return
    inc_impl_vals = m1[~exc]
    inc_impl_rms = r1[~exc]
    for j in range(m1.shape[0]):
        for i in range(m1.shape[1]):
            cell = f'cell({j},{i})'
            kind = _cell_kind(shape, ebox, j, i) if degenerate is None else f'box-{R["cls"][j, i]}'
            if amb[j, i]:
                must_inc = must_exc = False
            else:
                must_inc, must_exc = bool(doc_incl[j, i]), not bool(doc_incl[j, i])
            if must_inc and exc[j, i]:
                if R['boundary'][j, i]:
                    acc.violation('exclusion-rule', 'masked-fraction==exclude_percentile', case,
                                  f'{cell} excluded ({int(R["npix"][j, i])} good of {ebox[0] * ebox[1]})',
                                  f'included: exactly {ep}% masked, not more',
                                  'documentation: a box is excluded if it has MORE than exclude_percentile percent masked pixels')
                else:
                    acc.violation('exclusion-rule', f'excluded-with-enough-good-pixels:{kind}', case,
                                  f'{cell} excluded ({int(R["npix"][j, i])} good of {ebox[0] * ebox[1]}, ep={ep})', 'included')
                continue
            if must_exc and not exc[j, i]:
                acc.violation('exclusion-rule', f'included-with-too-few-good-pixels:{kind}', case,
                              f'{cell} included ({int(R["npix"][j, i])} good of {ebox[0] * ebox[1]}, ep={ep})', 'excluded')
                continue
            if not exc[j, i]:
                acc.counters['cells_compared'] += 1
                what = '' if degenerate is None else f' box letters {list(deg_boxes[j * m1.shape[1] + i])}'
                if not abs(m1[j, i] - R['bkg'][j, i]) <= tol:
                    acc.violation('mesh-value', f'background:{bkg_name}:{kind}', case, f'{cell} {m1[j, i]!r}{what}',
                                  repr(R['bkg'][j, i]))
                if not abs(r1[j, i] - R['rms'][j, i]) <= tol:
                    acc.violation('mesh-value', f'rms:{rms_name}:{kind}', case, f'{cell} {r1[j, i]!r}{what}', repr(R['rms'][j, i]))
                if int(np1[j, i]) != int(R['npix'][j, i]):
                    acc.violation('mesh-value', f'npixels:{kind}', case, f'{cell} {int(np1[j, i])}', int(R['npix'][j, i]))
            else:
                acc.counters['cells_filled'] += 1
                # IDW fill = convex combination of included cells (weights > 0): a few ulp of slack
                for nm, arr, incv in (('background', m1, inc_impl_vals), ('rms', r1, inc_impl_rms)):
                    lo, hi = incv.min(), incv.max()
                    if not (np.isfinite(arr[j, i]) and lo - 1e-12 * scale <= arr[j, i] <= hi + 1e-12 * scale):
                        acc.violation('filled-mesh-range', nm, case, f'{cell} {arr[j, i]!r}', [float(lo), float(hi)])

    # ---- 2. the configured object (filter) ----------------------------------------------------------
    thr = None
    if fthr == 'mid':
        s = np.sort(inc_vals)
        if s.size >= 2:
            k = s.size // 2
            # strictly between two reference mesh values, and not their midpoint (the IDW fill of an excluded
            # cell between two equidistant included cells IS the midpoint: that tie is undecidable in float32)
            thr = float(s[k - 1] + 0.37 * (s[k] - s[k - 1]))
        else:
            thr = float(s[0]) - 1.0
    kw = kwargs(fsize, thr)
    if tuple(fsize) == (1, 1) and thr is None:
        b = b1
    else:
        b = build(acc, case, present(base.copy()), rbox, kw, 'Background2D')
        if b is None:
            return
        if b == 'allboxes':
            acc.violation('raises', 'all-boxes-excluded:depends-on-filter', case, 'ValueError', 'as with filter_size=1')
            return
    mesh, rmesh = val(b.mesh).astype(float), val(b.rmesh).astype(float)
    # the filter is a median of already computed mesh values: exact up to the one addition/halving of an even
    # window (identical operands) -> 1e-13 of the scale is generous; float32 meshes are compared in float32 steps
    ftol = (1e-6 if rep == 'float32' else 1e-13) * scale
    for nm, got, unf in (('background', mesh, m1), ('rms', rmesh, r1)):
        want = ref.median_filter(unf, m1, fsize, thr)
        if got.shape != want.shape or not np.all(np.abs(got - want) <= ftol):
            acc.violation('mesh-filter', f'{nm}:filter_size={fsize[0]}x{fsize[1]}:threshold={"None" if thr is None else "mid"}',
                          case, got.tolist(), want.tolist())
    med = float(val(b.median))
    if not abs(med - ref.median(mesh.ravel())) <= ftol:
        acc.violation('background-median', 'background_median', case, med, ref.median(mesh.ravel()))

    ok = check_maps(acc, case, b, shape, cov, fill, interp)
    if rep == 'quantity':
        for nm, x in (('background', b.bkg), ('background_rms', b.rms), ('background_mesh', b.mesh),
                      ('background_rms_mesh', b.rmesh), ('background_median', b.median)):
            if getattr(x, 'unit', None) != u.adu:
                acc.violation('units', nm, case, str(getattr(x, 'unit', None)), 'adu')
        bp = build(acc, case, base.copy(), rbox, kw, 'Background2D(plain)')
        if isinstance(bp, Built):
            for nm in ('bkg', 'rms', 'mesh', 'rmesh'):
                if not np.array_equal(val(getattr(b, nm)), val(getattr(bp, nm)), equal_nan=True):
                    acc.violation('units', f'value-differs-from-unitless:{nm}', case, None, None)
    if not ok or not relations:
        return

    # ---- 3. blindness to the values stored under mask / coverage_mask (bit-exact) ---------------------
    hidden = np.zeros(shape, bool)
    if mask is not None:
        hidden |= mask
    if cov is not None:
        hidden |= cov
    if hidden.any():
        for tag, fillers in (('+-1e9', (1e9, -1e9)), ('nan', (np.nan, np.nan)), ('inf', (np.inf, -np.inf))):
            d2 = base.copy()
            if mask is not None:
                d2[mask] = fillers[0]
            if cov is not None:
                d2[cov] = fillers[1]
            b2 = build(acc, case, present(d2), rbox, kw, f'Background2D(hidden={tag})')
            if not isinstance(b2, Built):
                if b2 == 'allboxes':
                    acc.violation('mask-blind', f'raises:{tag}', case, 'ValueError all boxes', 'same as base')
                continue
            if not check_maps(acc, case, b2, shape, cov, fill, interp):
                continue
            for nm in ('bkg', 'rms', 'mesh', 'rmesh', 'npix'):
                if not np.array_equal(val(getattr(b2, nm)), val(getattr(b, nm)), equal_nan=(nm != 'npix')):
                    which = 'mask' if mask is not None and cov is None else ('coverage' if mask is None else 'mask+coverage')
                    acc.violation('mask-blind', f'{nm}:{which}', case, f'hidden pixels := {tag}',
                                  'bit-identical result', _first_diff(val(getattr(b2, nm)), val(getattr(b, nm))))
                    break
    # ---- 3b. automatically masked non-finite pixels == the same pixels given through ``mask`` -------------
    # (documented: invalid values are "automatically masked"; together with blindness to the value stored under
    # ``mask`` the two calls reduce to the same good-pixel set holding the same values -> bit-identical)
    auto = ~np.isfinite(base) & ~hidden
    if auto.any():
        acc.counters['cases_with_nonfinite_pixels_outside_given_masks'] += 1
        which = ('none' if mask is None else 'mask') + '+' + ('none' if cov is None else 'coverage')
        kw6 = dict(kw, mask=auto if mask is None else (mask | auto))
        b6 = build(acc, case, present(base.copy()), rbox, kw6, 'Background2D(nonfinite-in-mask)')
        if b6 == 'allboxes':
            acc.violation('mask-blind', f'nonfinite-vs-explicit-mask:raises:{which}', case, 'ValueError all boxes', 'same as base')
        elif isinstance(b6, Built) and check_maps(acc, case, b6, shape, cov, fill, interp):
            for nm in ('bkg', 'rms', 'mesh', 'rmesh', 'npix'):
                if not np.array_equal(val(getattr(b6, nm)), val(getattr(b, nm)), equal_nan=(nm != 'npix')):
                    acc.violation('mask-blind', f'nonfinite-vs-explicit-mask:{nm}:{which}', case,
                                  'non-finite pixels added to mask', 'bit-identical result',
                                  _first_diff(val(getattr(b6, nm)), val(getattr(b, nm))))
                    break
    if rep != 'float64':
        return

    vis = np.ones(shape, bool) if cov is None else ~cov
    any_filled = bool(exc.any())
    # ---- 4. constant image ---------------------------------------------------------------------------
    for const in ((3.5, -2.0) if tier == 'thorough' else (3.5,)):
        d3 = np.full(shape, const)
        for (p, v) in nonfinite:
            d3[p] = v
        b3 = build(acc, case, present(d3), rbox, kw, 'Background2D(constant)')
        if not isinstance(b3, Built):
            if b3 == 'allboxes':
                acc.violation('constant', 'raises', case, 'ValueError all boxes', 'as base')
            continue
        if not check_maps(acc, case, b3, shape, cov, fill, interp):
            continue
        g = val(b3.bkg)[vis]
        # estimators of n copies of a dyadic constant are exact; only an IDW fill of excluded boxes
        # (sum(w*c)/sum(w)) may round: 4 ulp there, exact otherwise.  RMS: weighted means of zeros are 0.
        slack = 4 * np.spacing(abs(const)) if any_filled else 0.0
        if not np.all(np.abs(g - const) <= slack):
            acc.violation('constant', 'background', case, _extreme(g, const), const)
        if not np.all(val(b3.rms)[vis] == 0):
            acc.violation('constant', 'rms', case, float(np.max(np.abs(val(b3.rms)[vis]))), 0.0)
    # ---- 5. shift / scale ----------------------------------------------------------------------------
    if fthr is not None:
        return       # an absolute filter threshold is not equivariant by definition
    bk, br = val(b.bkg), val(b.rms)
    for cshift in ((16.0, -3.0) if tier == 'thorough' else (16.0,)):
        b4 = build(acc, case, present(base + cshift), rbox, kw, 'Background2D(shift)')
        if isinstance(b4, Built) and check_maps(acc, case, b4, shape, cov, fill, interp):
            # data + c rounds every pixel by <= ulp(scale + c): the statistics move by that order; 1e-10 relative
            t = 1e-10 * (scale + abs(cshift))
            if not np.all(np.abs(val(b4.bkg)[vis] - (bk[vis] + cshift)) <= t):
                acc.violation('shift', 'background', case, _maxdev(val(b4.bkg)[vis], bk[vis] + cshift), f'<= {t}')
            if not np.all(np.abs(val(b4.rms)[vis] - br[vis]) <= t):
                acc.violation('shift', 'rms', case, _maxdev(val(b4.rms)[vis], br[vis]), f'<= {t}')
        elif b4 == 'allboxes':
            acc.violation('shift', 'raises', case, 'ValueError all boxes', 'as base')
    kmul = 2.5
    b5 = build(acc, case, present(base * kmul), rbox, kw, 'Background2D(scale)')
    if isinstance(b5, Built) and check_maps(acc, case, b5, shape, cov, fill, interp):
        t = 1e-10 * scale * kmul
        if not np.all(np.abs(val(b5.bkg)[vis] - kmul * bk[vis]) <= t):
            acc.violation('scale', 'background', case, _maxdev(val(b5.bkg)[vis], kmul * bk[vis]), f'<= {t}')
        if not np.all(np.abs(val(b5.rms)[vis] - kmul * br[vis]) <= t):
            acc.violation('scale', 'rms', case, _maxdev(val(b5.rms)[vis], kmul * br[vis]), f'<= {t}')
    elif b5 == 'allboxes':
        acc.violation('scale', 'raises', case, 'ValueError all boxes', 'as base')
    if not ladder:
        return

    # ---- 6. magnitude ladder of the shift / scale relations (and the mesh clause on the transformed data) ----
    npb = ebox[0] * ebox[1]
    unfiltered = tuple(fsize) == (1, 1)          # then background_mesh IS the box statistic: compare with the reference
    exc_b = impl_excluded(b.obj)

    def mesh_clause(bx, Rx, tolx, tag):
        mx_, rx_, ex_ = val(bx.mesh).astype(float), val(bx.rmesh).astype(float), impl_excluded(bx.obj)
        sure = Rx['incl'] & ~Rx['boundary'] & ~ex_
        acc.counters['ladder_cells_compared_with_reference'] += int(sure.sum())
        for nm, got, want, est in (('background', mx_, Rx['bkg'], bkg_name), ('rms', rx_, Rx['rms'], rms_name)):
            bad = sure & ~(np.abs(got - want) <= tolx)
            if bad.any():
                j, i = (int(x) for x in np.argwhere(bad)[0])
                acc.violation('mesh-value', f'{nm}:{est}:{tag}', case, f'cell({j},{i}) {got[j, i]!r}', repr(want[j, i]),
                              f'tolerance {tolx!r}')
        if np.any(sure & (np.asarray(bx.npix) != Rx['npix'])):
            acc.violation('mesh-value', f'npixels:{tag}', case, np.asarray(bx.npix).tolist(), Rx['npix'].tolist())

    # 6a. shift.  The ladder image dq is the data rounded to multiples of 2**-20, so dq + c is formed exactly
    # (asserted) and B(dq + c) - c vs B(dq) measures nothing but the implementation's arithmetic at magnitude
    # M = scale + |c|: the mean of n <= npb numbers of size M carries <= n*u*M (u = eps/2; naive summation), the
    # median <= u*M, the std <= the error of the mean (two-pass), 3 med - 2 mean / 2.5 med - 1.5 mean amplify by <= 5,
    # MADStd/biweight by O(1), the IDW fill and IDW map are convex combinations (+ few u*M), the cubic-spline
    # prefilter has gain <= 3 in 2-D and the B-spline weights are a convex combination.  Bound ~ (3n + 30) eps M;
    # tolerance 16 (n + 8) eps M (calibrated on the unchanged tree: histogram of the observed deviation in units of
    # eps M in counters ladder_shift_dev_in_units_of_eps_M:*).  The discontinuous steps (keep/reject of the sigma clipping,
    # SExtractor's median / 2.5 med - 1.5 mean switch) are judged only where the INPUT is well-posed: the
    # reference's smallest |pixel - clip bound| must exceed 4 (1 + sigma) delta and the branch margin 4 * 2.3 delta,
    # delta = n eps M being twice the bound on the error of mean/median/std (else counted as ill-posed, not judged).
    dq = np.round(base * QGRID) / QGRID
    Rq = reference_mesh(dq, good, ebox, edge, ep, clip, bkg_name, rms_name, cached=deg)
    if not np.array_equal(Rq['npix'], R['npix']):
        acc.counters['ladder_quantisation_changed_clipping'] += 1        # measure-zero: rounding by 5e-7 flipped a clip
        return
    bq = build(acc, case, present(dq.copy()), rbox, kw, 'Background2D(quantised)')
    if bq == 'allboxes':
        acc.violation('shift', 'raises:quantised', case, 'ValueError all boxes', 'as base')
    if isinstance(bq, Built) and check_maps(acc, case, bq, shape, cov, fill, interp):
        bqk, bqr = val(bq.bkg), val(bq.rms)
        fin = np.isfinite(dq)
        for c in shifts(tier):
            lab = mag_label(c)
            M = scale + abs(c)
            delta = npb * EPSF * M
            sig = 0.0 if clip is None else clip[0]
            if Rq['clip_margin'] <= 4 * (1 + sig) * delta or Rq['branch_margin'] <= 4 * 2.3 * delta:
                acc.counters['ladder_shift_ill_posed_not_judged'] += 1
                continue
            dc = dq + c
            if not np.array_equal((dc - c)[fin], dq[fin]):
                raise RuntimeError(f'harness: dq + {c!r} is not exact')
            t = 16 * (npb + 8) * EPSF * M
            b4 = build(acc, case, present(dc), rbox, kw, f'Background2D(shift {lab})')
            if b4 == 'allboxes':
                acc.violation('shift', f'raises:c={lab}', case, 'ValueError all boxes', 'as base')
                continue
            if not isinstance(b4, Built) or not check_maps(acc, case, b4, shape, cov, fill, interp):
                continue
            acc.counters['ladder_shift_relations'] += 1
            if not np.array_equal(impl_excluded(b4.obj), exc_b):
                acc.violation('shift', f'excluded-boxes:c={lab}', case, impl_excluded(b4.obj).tolist(), exc_b.tolist())
                continue
            for nm, got, want in (('background', val(b4.bkg)[vis], bqk[vis] + c), ('rms', val(b4.rms)[vis], bqr[vis])):
                dev = float(np.max(np.abs(got - want))) if got.size else 0.0
                acc.counters[_bucket('ladder_shift_dev_in_units_of_eps_M', dev / (EPSF * M))] += 1
                if not dev <= t:
                    acc.violation('shift', f'{nm}:c={lab}', case, f'max deviation {dev!r} (map spread '
                                  f'{float(np.ptp(got)) if got.size else 0.0!r}, expected spread {float(np.ptp(want)) if got.size else 0.0!r})',
                                  f'<= {t!r} = 16 (n + 8) eps (scale + |c|), n = {npb}')
            if unfiltered:
                mesh_clause(b4, reference_mesh(dc, good, ebox, edge, ep, clip, bkg_name, rms_name, cached=deg), t, f'shifted:c={lab}')

    # 6b. scale by powers of two.  data * 2**e is exact and commutes with every IEEE operation (+ - * / sqrt,
    # comparisons) as long as nothing under/overflows (|values| between 2**-60 * 1e-7 and 2**40 * 100, squares
    # included: far inside the double range), so a homogeneous implementation gives B(k d) == k B(d) BIT FOR BIT
    # (observed on the unchanged tree: counters ladder_scale_dev_in_units_of_eps_k_scale:*).  The tolerance 1e-12 k scale
    # (4500 ulp) only leaves room for an implementation whose operation order depends on the magnitude; a wrong
    # branch or a flattened map moves a value by a fraction of the mesh spread (> 1e-3 scale).
    for k in scales(tier):
        lab = mag_label(k)
        dk = base * k
        if not np.array_equal((dk / k)[good], base[good]):
            raise RuntimeError(f'harness: data * {k!r} is not exact')
        b5 = build(acc, case, present(dk), rbox, kw, f'Background2D(scale {lab})')
        if b5 == 'allboxes':
            acc.violation('scale', f'raises:k={lab}', case, 'ValueError all boxes', 'as base')
            continue
        if not isinstance(b5, Built) or not check_maps(acc, case, b5, shape, cov, fill, interp):
            continue
        acc.counters['ladder_scale_relations'] += 1
        if not np.array_equal(impl_excluded(b5.obj), exc_b):
            acc.violation('scale', f'excluded-boxes:k={lab}', case, impl_excluded(b5.obj).tolist(), exc_b.tolist())
            continue
        t = 1e-12 * scale * k
        for nm, got, want in (('background', val(b5.bkg)[vis], k * bk[vis]), ('rms', val(b5.rms)[vis], k * br[vis])):
            dev = float(np.max(np.abs(got - want))) if got.size else 0.0
            acc.counters[_bucket('ladder_scale_dev_in_units_of_eps_k_scale', dev / (EPSF * scale * k))] += 1
            if not dev <= t:
                acc.violation('scale', f'{nm}:k={lab}', case, f'max deviation {dev!r} = {dev / k!r} k (map spread '
                              f'{float(np.ptp(got)) / k if got.size else 0.0!r} k, expected spread '
                              f'{float(np.ptp(want)) / k if got.size else 0.0!r} k)', f'<= {t!r} = 1e-12 k scale')
        if unfiltered:
            mesh_clause(b5, reference_mesh(dk, good, ebox, edge, ep, clip, bkg_name, rms_name, cached=deg), rtol * scale * k,
                        f'scaled:k={lab}')


def _bucket(name, x):
    """histogram counter name (counters of the units are summed, so a maximum is kept as a histogram)"""
    if not x > 0:
        return f'{name}:==0'
    if not np.isfinite(x):
        return f'{name}:non-finite'
    return f'{name}:<=4^{max(0, int(np.ceil(np.log2(x) / 2)))}'


def _cell_kind(shape, box, j, i):
    """core / extra-row / extra-column / corner (the four code paths of the box statistics)"""
    ny, nx = shape
    by, bx = box
    row = (j + 1) * by > ny
    col = (i + 1) * bx > nx
    return 'corner-box' if row and col else 'extra-row-box' if row else 'extra-column-box' if col else 'core-box'


def _first_diff(a, b):
    a, b = np.asarray(a), np.asarray(b)
    if a.shape != b.shape:
        return f'shape {a.shape} vs {b.shape}'
    bad = ~((a == b) | (np.isnan(a.astype(float)) & np.isnan(b.astype(float))))
    idx = np.argwhere(bad)
    if idx.size == 0:
        return 'nan pattern'
    p = tuple(int(x) for x in idx[0])
    return f'first difference at {p}: {a[p]!r} vs {b[p]!r} ({int(bad.sum())} pixels)'


def _maxdev(a, b):
    return f'max deviation {float(np.max(np.abs(a - b)))!r}'


def _extreme(g, const):
    k = int(np.argmax(np.abs(g - const)))
    return repr(float(g.ravel()[k]))


def check_maps(acc, case, b, shape, cov, fill, interp):
    """``cov`` must be the harness's pristine coverage mask (never an array that was passed to photutils)."""
    ok = True
    bk, br = val(b.bkg), val(b.rms)
    vis = np.ones(shape, bool) if cov is None else ~cov
    for nm, a, mesh in (('background', bk, val(b.mesh)), ('rms', br, val(b.rmesh))):
        if a.shape != tuple(shape):
            acc.violation('map-shape', nm, case, a.shape, tuple(shape))
            ok = False
            continue
        if not np.all(np.isfinite(a)):
            acc.violation('finite', f'{nm}:{interp}', case, f'{int((~np.isfinite(a)).sum())} non-finite pixels', 'all finite')
            ok = False
        if cov is not None and not np.all(a[cov] == fill):
            acc.violation('fill-value', nm, case, a[cov][:4].tolist(), fill)
            ok = False
        # "fill_value exactly on the coverage pixels": nowhere else.  Decidable when fill_value is outside the range
        # of the mesh that is interpolated: the clipped spline is clipped to that range and the IDW map is a
        # positive-weight mean of mesh values (inside the range up to a few ulp), so no pixel outside the coverage
        # mask can legitimately be bit-equal to fill_value.  (mesh finite: checked by the caller / above.)
        if np.all(np.isfinite(mesh)) and not (mesh.min() <= fill <= mesh.max()):
            acc.counters['maps_checked_fill_only_on_coverage'] += 1
            stray = vis & (a == fill)
            if stray.any():
                p = tuple(int(x) for x in np.argwhere(stray)[0])
                acc.violation('fill-value', f'{nm}:outside-coverage_mask:{"no-coverage_mask" if cov is None else "coverage_mask-given"}',
                              case, f'{int(stray.sum())} pixels outside the coverage mask == fill_value, first {p}',
                              f'fill_value {fill} only on the {0 if cov is None else int(cov.sum())} coverage pixels '
                              f'(mesh range [{float(mesh.min())!r}, {float(mesh.max())!r}])')
                ok = False
        else:
            acc.counters['maps_fill_inside_mesh_range'] += 1
    if ok and interp == 'zoom':
        # np.clip to [min(mesh), max(mesh)] of the very mesh that is interpolated: exact
        for nm, a, mesh in (('background', bk, val(b.mesh)), ('rms', br, val(b.rmesh))):
            if a[vis].size and (a[vis].min() < mesh.min() or a[vis].max() > mesh.max()):
                acc.violation('zoom-range', nm, case, [float(a[vis].min()), float(a[vis].max())],
                              [float(mesh.min()), float(mesh.max())])
                ok = False
    return ok


# ---------------------------------------------------------------- cases
def struct_case_dict(shape, box, edge, mk, dk, ck, ep, interp, bn):
    return {'product': 'structural', 'shape': list(shape), 'box': box if isinstance(box, str) else list(box),
            'edge': edge, 'mask': mk, 'data_kind': dk, 'coverage': ck, 'exclude_percentile': ep,
            'interpolator': interp, 'bottleneck': bn}


def run_case(acc, case, seed, tier):
    assert_mode(case['bottleneck'])
    if case['product'] == 'structural':
        box = case['box'] if isinstance(case['box'], str) else tuple(case['box'])
        check_config(acc, case, seed, shape=tuple(case['shape']), box=box, edge=case['edge'], mask_kind=case['mask'],
                     cov_kind=case['coverage'], ep=case['exclude_percentile'], interp=case['interpolator'], tier=tier,
                     nonfinite=case.get('data_kind', 'finite') == 'nonfinite',
                     ladder=case['coverage'] == 'none' and case.get('data_kind', 'finite') == 'finite')
    elif case['product'] == 'degenerate':
        check_config(acc, case, seed, shape=None, box=DEG_BOX, edge='pad', mask_kind='degenerate', cov_kind='none',
                     ep=case['exclude_percentile'], interp=case['interpolator'], bkg_name=case['bkg_estimator'],
                     rms_name=case['bkgrms_estimator'],
                     clip=None if case['sigma_clip'] is None else tuple(case['sigma_clip']),
                     fsize=tuple(case['filter_size']), fthr=None, rep=case['data'], fill=0.0, tier=tier,
                     ladder=True, degenerate=tuple(case['letters']))
    else:
        st = STRUCTS[case['structure']]
        check_config(acc, case, seed, shape=st['shape'], box=st['box'], edge=st['edge'], mask_kind=st['mask'],
                     cov_kind=st['cov'], ep=st['ep'], interp=st['interp'], bkg_name=case['bkg_estimator'],
                     rms_name=case['bkgrms_estimator'],
                     clip=None if case['sigma_clip'] is None else tuple(case['sigma_clip']),
                     fsize=tuple(case['filter_size']), fthr=case['filter_threshold'], rep=case['data'],
                     fill=0.0, tier=tier, nonfinite=bool(st.get('nonfinite', False)), ladder=True)


def plan(tier, seed):
    units = []
    for bn in ('present', 'blocked'):
        for si, shape in enumerate(shapes(tier)):
            for bi, box in enumerate(BOXES):
                units.append({'kind': 'structural', 'shape': si, 'box': bi, 'bn': bn})
        for k in range(len(structs(tier))):
            for ci in range(len(CLIPS)):
                units.append({'kind': 'estimator', 'structure': k, 'clip': ci, 'bn': bn})
        for li in range(len(deg_letters(tier))):
            for ci in range(len(CLIPS)):
                units.append({'kind': 'degenerate', 'letters': li, 'clip': ci, 'bn': bn})
    # blocked units each start an interpreter: schedule them first so that their start-up overlaps
    units.sort(key=lambda u_: u_['bn'] != 'blocked')
    return units


def unit_cases(unit, tier):
    bn = unit['bn']
    if unit['kind'] == 'structural':
        shape = shapes(tier)[unit['shape']]
        box = BOXES[unit['box']]
        for edge, mk, dk, ck, ep, interp in itertools.product(EDGES, MASKS, DATAK, COVS, eps(tier), INTERPS):
            yield dict(struct_case_dict(shape, box, edge, mk, dk, ck, ep, interp, bn), tier=tier)
    elif unit['kind'] == 'degenerate':
        clip = CLIPS[unit['clip']]
        # filter size / interpolator / representation innermost: those cases share their reference meshes (cache)
        letters = deg_letters(tier)[unit['letters']]
        for be, re_, ep, fs, interp, rep in itertools.product(BKG_EST, RMS_EST, deg_eps(tier), DEG_FSIZES,
                                                              deg_interps(tier, letters), deg_reprs(tier)):
            yield {'product': 'degenerate', 'letters': list(letters), 'bkg_estimator': be,
                   'bkgrms_estimator': re_, 'sigma_clip': None if clip is None else list(clip),
                   'exclude_percentile': ep, 'filter_size': list(fs), 'interpolator': interp, 'data': rep,
                   'bottleneck': bn, 'tier': tier}
    else:
        clip = CLIPS[unit['clip']]
        for be, re_, fs, ft, rep in itertools.product(BKG_EST, RMS_EST, FSIZES, FTHRS, REPRS):
            yield {'product': 'estimator', 'structure': unit['structure'], 'bkg_estimator': be, 'bkgrms_estimator': re_,
                   'sigma_clip': None if clip is None else list(clip), 'filter_size': list(fs), 'filter_threshold': ft,
                   'data': rep, 'bottleneck': bn, 'tier': tier}


def run_unit(unit, tier, seed):
    if unit['bn'] == 'blocked' and not _IN_BLOCKED_CHILD:
        return _in_child({'what': 'unit', 'unit': unit, 'tier': tier, 'seed': seed})
    acc = Acc()
    for case in unit_cases(unit, tier):
        run_case(acc, case, seed, tier)
    return acc


def replay(case, seed):
    if case['bottleneck'] == 'blocked' and not _IN_BLOCKED_CHILD:
        return _in_child({'what': 'case', 'case': case, 'seed': seed})
    acc = Acc()
    run_case(acc, case, seed, case.get('tier', 'quick'))
    return acc


# ---------------------------------------------------------------- fresh interpreter without bottleneck
_CHILD = ('import sys, pickle\n'
          'sys.modules["bottleneck"] = None\n'
          'import warnings; warnings.simplefilter("ignore")\n'
          'import mcphot.props.c11 as m\n'
          'm._IN_BLOCKED_CHILD = True\n'
          'req = pickle.load(sys.stdin.buffer)\n'
          'import photutils, os\n'
          'root = os.path.realpath(os.environ.get("VERIF_REPO", "/repo"))\n'
          'assert os.path.realpath(photutils.__file__).startswith(root + os.sep), photutils.__file__\n'
          'acc = m.run_unit(req["unit"], req["tier"], req["seed"]) if req["what"] == "unit" else m.replay(req["case"], req["seed"])\n'
          'sys.stdout.buffer.write(b"ACC" + pickle.dumps(acc)); sys.stdout.buffer.flush()\n')


def _in_child(req):
    verif = os.path.dirname(os.path.dirname(os.path.dirname(os.path.abspath(__file__))))
    env = dict(os.environ)
    repo = env.get('VERIF_REPO', '/repo')
    env['PYTHONPATH'] = os.pathsep.join([repo, verif] + [p for p in env.get('PYTHONPATH', '').split(os.pathsep) if p])
    r = subprocess.run([sys.executable, '-W', 'ignore', '-c', _CHILD], input=pickle.dumps(req), capture_output=True,
                       env=env, cwd=verif)
    k = r.stdout.rfind(b'ACC')
    if r.returncode != 0 or k < 0:
        raise RuntimeError(f'blocked-bottleneck child failed (rc={r.returncode}):\n{r.stderr.decode(errors="replace")[-3000:]}')
    return pickle.loads(r.stdout[k + 3:])


def describe(tier, seed):
    ns = len(shapes(tier))
    nstruct = ns * len(BOXES) * len(EDGES) * len(MASKS) * len(DATAK) * len(COVS) * len(eps(tier)) * len(INTERPS)
    nest = len(structs(tier)) * len(BKG_EST) * len(RMS_EST) * len(CLIPS) * len(FSIZES) * len(FTHRS) * len(REPRS)
    nladder = 2 * (ns * len(BOXES) * len(EDGES) * len(MASKS) * len(eps(tier)) * len(INTERPS)
                   + len(structs(tier)) * len(BKG_EST) * len(RMS_EST) * len(CLIPS) * len(FSIZES))
    ndeg = sum(len(BKG_EST) * len(RMS_EST) * len(CLIPS) * len(deg_eps(tier)) * len(DEG_FSIZES) * len(deg_interps(tier, L))
               * len(deg_reprs(tier)) for L in deg_letters(tier))
    nladder += 2 * sum(len(BKG_EST) * len(RMS_EST) * len(CLIPS) * len(deg_eps(tier)) * len(DEG_FSIZES) * len(deg_interps(tier, L))
                       for L in deg_letters(tier))
    return {'alphabet': {
        'degenerate_statistic_product': {
            'boxes': 'every multiset of m = 0..9 good pixel values over the letters, one per 3x3 box of ONE image '
                     '(mesh cell b holds multiset b, ordered by m then lexicographically; 9 - m pixels masked)',
            'letters': {str(list(L)): {'boxes': len(ref.multiset_boxes(L, DEG_BOX[0] * DEG_BOX[1])),
                                       'interpolator': deg_interps(tier, L)} for L in deg_letters(tier)},
            'value': 'level + quantum * letter (dyadic, seed-chosen: level, quantum = %r)' % (degenerate_level(seed),),
            'bkg_estimator': BKG_EST, 'bkgrms_estimator': RMS_EST,
            'sigma_clip(sigma,maxiters)': [None if c is None else list(c) for c in CLIPS],
            'filter_size': [list(f) for f in DEG_FSIZES], 'exclude_percentile': deg_eps(tier), 'data': deg_reprs(tier),
            'box_classes_reached': 'counters degenerate_boxes_after_clipping:{constant, MAD==0,ptp>0, MAD>0}',
            'configurations': ndeg},
        'structural_product': {'shape': [list(s) for s in shapes(tier)], 'box': [b if isinstance(b, str) else list(b) for b in BOXES],
                               'edge_method': EDGES, 'mask': MASKS,
                               'data_kind': {'finite': 'generic noise + 2 outliers',
                                             'nonfinite': 'same with NaN at (ny//2, nx//2), +inf at (0, nx-1), -inf at '
                                                          '(ny-1, 0); not added to mask (crossed with every mask and '
                                                          'coverage kind: the pixels fall outside and under them)'},
                               'coverage_mask': COVS, 'exclude_percentile': eps(tier),
                               'interpolator': INTERPS, 'fill_value': FILL, 'configurations': nstruct},
        'estimator_product': {'structures': [{k: (list(v) if isinstance(v, tuple) else v) for k, v in s.items()} for s in structs(tier)],
                              'bkg_estimator': BKG_EST, 'bkgrms_estimator': RMS_EST,
                              'sigma_clip(sigma,maxiters)': [None if c is None else list(c) for c in CLIPS],
                              'filter_size': [list(f) for f in FSIZES], 'filter_threshold': FTHRS, 'data': REPRS,
                              'configurations': nest},
        'bottleneck': ['present', 'blocked (fresh interpreter, sys.modules["bottleneck"]=None before import)'],
        'magnitude_ladder': {'shift_c': [mag_label(c) for c in shifts(tier)], 'scale_k': [mag_label(k) for k in scales(tier)],
                             'data': 'rounded to multiples of 2^-20 for the shift ladder (data + c exact); data * 2^e exact',
                             'applied_to': 'structural product cells with coverage none and finite data (full product with '
                                           'shape x box x edge x mask x exclude_percentile x interpolator) and every float64 / '
                                           'filter_threshold=None case of the estimator product; background and RMS maps; '
                                           'mesh vs reference on the transformed image where filter_size is 1x1',
                             'ladder_configurations': nladder,
                             'relations_per_ladder_configuration': len(shifts(tier)) + len(scales(tier)),
                             'tolerances': 'shift: 16 (n + 8) eps (max|data| + |c|); scale by 2^e: 1e-12 k max|data| (expected 0)'},
        'relations_per_configuration': 'mesh vs reference (filter_size=1 twin), filter vs reference, shape, finite, '
                                       'fill_value on the coverage pixels and (fill_value outside the mesh range) on no '
                                       'other pixel, zoom range, hidden pixels := +-1e9 / NaN / +-inf, unmasked non-finite '
                                       'pixels moved into mask, constant image(s), shift c=16 (thorough: and -3), scale '
                                       'k=2.5; ladder configurations additionally every c and k of magnitude_ladder',
        'array_handling': 'every Background2D call receives fresh writable copies of mask / coverage_mask; the oracle '
                          'uses the read-only originals',
        'total_configurations': 2 * (nstruct + nest + ndeg)}}
