"""C05 -- SegmentationImage attributes always describe the current label array.

Shape (A): explicit-state BFS over histories of public mutators and attribute
reads executed on the real ``SegmentationImage``; reference model = a plain
ndarray transformed by the documented set-theoretic effect of each operation
plus, for deblended roots, the pixel sets of the original children.
"""
import warnings

import numpy as np

from ..explorer import explore, build
from ..runner import Acc
from ..snapshot import key as state_key, digest, diff, short

PROPERTY = 'C05'
LEVEL = 'model_checking'
RULE = ('BFS over histories (ops = every public mutator with arguments drawn from the current labels, '
        'every public lazy attribute read, data assignment, copy) from each root label array; a history is '
        'non-trivial when it contains at least one mutator; states are distinct digests of the complete '
        'instance __dict__ (data, every cached attribute with its value, deblend map)')
ASSUMPTIONS = ['numpy, scipy.ndimage.find_objects, rasterio.features.shapes and shapely are trusted',
               'a state is the instance __dict__; equal digests have equal futures',
               'label arguments are drawn from the (at most 3) smallest current labels plus one fresh label']

READS = ['shape', 'labels', 'nlabels', 'max_label', 'slices', 'bbox', 'areas', 'segments', 'polygons',
         'missing_labels', 'is_consecutive', 'background_area', 'data_ma', '_raw_slices',
         'deblended_labels', 'deblended_labels_map', 'deblended_labels_inverse_map']

DOC = np.array([[1, 1, 0, 0, 4, 4], [0, 0, 0, 0, 0, 4], [0, 0, 3, 3, 0, 0],
                [7, 0, 0, 0, 0, 5], [7, 7, 0, 5, 5, 5], [7, 7, 0, 0, 5, 5]])


def _scene():
    yy, xx = np.mgrid[0:24, 0:36]

    def g(a, x, y, s):
        return a * np.exp(-((xx - x) ** 2 + (yy - y) ** 2) / (2 * s * s))
    return g(50, 10, 10, 2.5) + g(40, 17, 11, 2.5) + g(30, 29, 6, 1.5) + g(35, 27, 17, 2.0) + g(30, 31, 19, 2.0)


ROOTS = {
    'doc': lambda: DOC.copy(),
    'disconnected': lambda: np.array([[1, 1, 0, 0, 1], [0, 0, 0, 0, 1], [2, 2, 0, 0, 0], [2, 0, 0, 3, 3]]),
    'nobackground': lambda: np.array([[1, 1, 2], [3, 3, 2], [3, 4, 4]]),
    'zeros': lambda: np.zeros((3, 4), dtype=int),
    'gap_int16': lambda: np.array([[3, 3, 0, 0], [0, 0, 0, 7], [0, 7, 7, 7]], dtype=np.int16),
    'doc_uint8': lambda: DOC.astype(np.uint8),
    'doc_int32': lambda: DOC.astype(np.int32),
    'single': lambda: np.array([[0, 0, 0], [0, 5, 0], [0, 0, 0]], dtype=np.int64),
}
SPECIAL_ROOTS = ['detect', 'deblend', 'deblend_norelabel']
QUICK_D3 = ['doc', 'deblend']


_ROOT_CACHE = {}


def _make_root(name):
    """-> (SegmentationImage, child_pixels dict or {}).

    The detect/deblend roots are expensive to produce (20 ms); they are produced
    once per process and every later request gets an independent clone by a
    pickle round trip, which is asserted to reproduce the instance __dict__
    (data, pre-seeded caches, deblend map) digest-identically."""
    import pickle
    from photutils.segmentation import SegmentationImage
    if name in ROOTS:
        return SegmentationImage(ROOTS[name]()), {}
    if name not in _ROOT_CACHE:
        obj, cp = _make_special(name)
        blob = pickle.dumps((obj, cp))
        clone, _ = pickle.loads(blob)
        if digest(dict(clone.__dict__)) != digest(dict(obj.__dict__)):
            raise RuntimeError('pickle clone of the root is not faithful')
        _ROOT_CACHE[name] = blob
    return pickle.loads(_ROOT_CACHE[name])


def _make_special(name):
    from photutils.segmentation import detect_sources, deblend_sources
    img = _scene()
    segm = detect_sources(img, 1.0, 5)
    if name == 'detect':
        return segm, {}
    deb = deblend_sources(img, segm, 5, nlevels=16, contrast=0.001, progress_bar=False,
                          relabel=(name == 'deblend'))
    cp = {}
    for parent, children in deb.deblended_labels_inverse_map.items():
        cp[int(parent)] = np.isin(deb.data, children)
    assert cp, 'deblend root has no deblended sources'
    return deb, cp


class State:
    __slots__ = ('s', 'ref', 'child_pixels', 'dtype')


def _labels(a):
    return np.unique(a[a != 0])


def _relabel(a, start=1):
    labs = _labels(a)
    out = np.zeros_like(a)
    for i, l in enumerate(labs):
        out[a == l] = i + start
    return out


def _masks(ref):
    """Deterministic mask alphabet for remove_masked_labels."""
    labs = _labels(ref)
    m0 = np.zeros(ref.shape, bool)
    out = [('empty', m0)]
    if len(labs):
        l = labs[0]
        ys, xs = np.nonzero(ref == l)
        m1 = m0.copy()
        m1[ys[0], xs[0]] = True
        out.append(('onepix', m1))
        out.append(('cover', ref == labs[-1]))
    return out


class System:
    def __init__(self, root, tier):
        self.root = root
        self.tier = tier
        self.nlab = 3 if tier == 'thorough' else 2

    # ---------------------------------------------------------------- build
    def initial(self):
        st = State()
        st.s, cp = _make_root(self.root)
        st.ref = st.s.data.copy()
        st.child_pixels = {k: v.copy() for k, v in cp.items()}
        st.dtype = st.ref.dtype
        return st

    def canon(self, st):
        return state_key(dict(st.s.__dict__))

    # ------------------------------------------------------------------ ops
    def ops(self, st):
        ref = st.ref
        labs = [int(x) for x in _labels(ref)]
        L = labs[:self.nlab]
        fresh = (max(labs) if labs else 0) + 3
        ops = [('read', r) for r in READS]
        for l in L:
            others = [x for x in labs if x != l][:1]
            for new in others + [fresh]:
                for rl in (False, True):
                    ops.append(('reassign_label', l, new, rl))
            for rl in (False, True):
                ops.append(('remove_label', l, rl))
                ops.append(('keep_label', l, rl))
        if len(labs) >= 2:
            pair = (labs[0], labs[-1])
            for rl in (False, True):
                ops.append(('reassign_labels', pair, fresh, rl))
                ops.append(('remove_labels', pair, rl))
                ops.append(('keep_labels', pair, rl))
            if len(labs) >= 3:
                ops.append(('reassign_labels', pair, labs[1], False))
        ops.append(('remove_labels', (), False))
        ops.append(('remove_labels', (), True))
        for start in (1, 2, 5):
            ops.append(('relabel_consecutive', start))
        widths = [w for w in (0, 1) if w < min(ref.shape) / 2]
        for w in widths:
            for po in (True, False):
                for rl in (False, True):
                    ops.append(('remove_border_labels', w, po, rl))
        for name, _ in _masks(ref):
            for po in (True, False):
                for rl in (False, True):
                    ops.append(('remove_masked_labels', name, po, rl))
        ops.append(('set_data', 'flip'))
        ops.append(('set_data', 'zeros'))
        ops.append(('set_data', 'grow'))      # a new array of a DIFFERENT shape (one more row and column)
        ops.append(('set_data', 'transpose'))  # different shape for non-square arrays
        ops.append(('copy',))
        return ops

    def nontrivial(self, hist):
        return any(op[0] not in ('read',) for op in hist)

    def outcome(self, st):
        return st.s.data.tobytes()

    # ---------------------------------------------------------------- apply
    def apply(self, st, op, report):
        s, ref = st.s, st.ref
        name = op[0]
        try:
            with warnings.catch_warnings():
                warnings.simplefilter('ignore')
                if name == 'read':
                    val = getattr(s, op[1])
                    self._check_attr(st, op[1], val, report, site=f'read:{op[1]}')
                    return True
                if name == 'reassign_label':
                    _, l, new, rl = op
                    s.reassign_label(l, new, relabel=rl)
                    ref = ref.copy()
                    ref[ref == l] = new
                    if rl:
                        ref = _relabel(ref)
                elif name == 'reassign_labels':
                    _, ls, new, rl = op
                    s.reassign_labels(list(ls), new, relabel=rl)
                    ref = ref.copy()
                    ref[np.isin(ref, ls)] = new
                    if rl:
                        ref = _relabel(ref)
                elif name in ('remove_label', 'remove_labels'):
                    ls = op[1]
                    rl = op[2]
                    getattr(s, name)(ls if name == 'remove_label' else list(ls), relabel=rl)
                    ref = ref.copy()
                    ref[np.isin(ref, np.atleast_1d(ls))] = 0
                    if rl:
                        ref = _relabel(ref)
                elif name in ('keep_label', 'keep_labels'):
                    ls = op[1]
                    rl = op[2]
                    getattr(s, name)(ls if name == 'keep_label' else list(ls), relabel=rl)
                    ref = ref.copy()
                    ref[~np.isin(ref, np.atleast_1d(ls))] = 0
                    if rl:
                        ref = _relabel(ref)
                elif name == 'relabel_consecutive':
                    s.relabel_consecutive(start_label=op[1])
                    if len(_labels(ref)):
                        ref = _relabel(ref, op[1])
                elif name == 'remove_border_labels':
                    _, w, po, rl = op
                    s.remove_border_labels(w, partial_overlap=po, relabel=rl)
                    mask = np.zeros(ref.shape, bool)
                    if w > 0:
                        mask[:w, :] = True
                        mask[-w:, :] = True
                        mask[:, :w] = True
                        mask[:, -w:] = True
                    ref = self._remove_masked(ref, mask, po, rl)
                elif name == 'remove_masked_labels':
                    _, mname, po, rl = op
                    mask = dict(_masks(ref))[mname]
                    mcopy = mask.copy()
                    s.remove_masked_labels(mask, partial_overlap=po, relabel=rl)
                    if not np.array_equal(mask, mcopy):
                        report('caller-mask-modified', 'remove_masked_labels', None, None)
                    ref = self._remove_masked(ref, mask, po, rl)
                elif name == 'set_data':
                    if op[1] == 'flip':
                        new = ref[::-1, ::-1].copy()
                    elif op[1] == 'grow':
                        new = np.zeros((ref.shape[0] + 1, ref.shape[1] + 1), dtype=ref.dtype)
                        new[1:, :-1] = ref
                    elif op[1] == 'transpose':
                        new = ref.T.copy()
                    else:
                        new = np.zeros_like(ref)
                    s.data = new
                    ref = new.copy()
                    st.child_pixels = {}
                elif name == 'copy':
                    before = digest(dict(s.__dict__))
                    s2 = s.copy()
                    if digest(dict(s2.__dict__)) != before:
                        report('copy-differs', 'copy', None, None, 'copy() is not a faithful deep copy')
                    if s2.data is s.data or np.shares_memory(s2.data, s.data):
                        report('copy-aliases', 'copy', None, None)
                    st.s = s2
                else:  # pragma: no cover
                    raise AssertionError(op)
        except Exception as e:  # a valid public call must not raise
            report('op-raises', f'{name}:{type(e).__name__}', f'{type(e).__name__}: {e}', 'no exception',
                   'a valid operation raised')
            return False
        st.ref = ref
        # the label array itself: the documented set-theoretic effect
        d = st.s.data
        if d.dtype != st.dtype:
            report('dtype-changed', name, str(d.dtype), str(st.dtype))
        if d.shape != ref.shape or not np.array_equal(d, ref):
            report('data-effect', self._site(op), d.tolist() if d.size <= 64 else short(d), ref.tolist() if ref.size <= 64 else short(ref),
                   'label array differs from the documented effect of the operation')
            return False
        return True

    @staticmethod
    def _site(op):
        name = op[0]
        if name == 'remove_border_labels':
            return f'{name}:width={op[1]}'
        if name in ('reassign_label', 'reassign_labels'):
            return f'{name}:relabel={op[3]}'
        if name in ('remove_label', 'remove_labels', 'keep_label', 'keep_labels'):
            return f'{name}:relabel={op[2]}'
        return name

    @staticmethod
    def _remove_masked(ref, mask, po, rl):
        rm = set(_labels(ref[mask]).tolist())
        if not po:
            rm -= set(_labels(ref[~mask]).tolist())
        ref = ref.copy()
        if rm:
            ref[np.isin(ref, list(rm))] = 0
        if rl:
            ref = _relabel(ref)
        return ref

    # ------------------------------------------------------------ invariant
    def _expected(self, st):
        ref = st.ref
        labs = _labels(ref)
        exp = {'labels': labs, 'nlabels': len(labs), 'max_label': int(labs.max()) if len(labs) else 0}
        sl, areas = [], []
        for l in labs:
            ys, xs = np.nonzero(ref == l)
            sl.append((slice(int(ys.min()), int(ys.max()) + 1), slice(int(xs.min()), int(xs.max()) + 1)))
            areas.append(len(ys))
        exp['slices'] = sl
        exp['areas'] = np.array(areas, dtype=int)
        exp['background_area'] = int(np.count_nonzero(ref == 0))
        exp['is_consecutive'] = bool(len(labs) and np.array_equal(labs, np.arange(1, len(labs) + 1)))
        mx = exp['max_label']
        exp['missing_labels'] = np.array(sorted(set(range(1, mx + 1)) - set(labs.tolist())), dtype=int)
        # deblend bookkeeping (exact model: labels found on the original child pixels)
        inv = {}
        for p, pix in st.child_pixels.items():
            ch = _labels(ref[pix]) if pix.shape == ref.shape else np.array([], int)
            if len(ch):
                inv[p] = ch
        exp['deblend_inverse'] = inv
        return exp

    def _check_attr(self, st, attr, val, report, site, exp=None):
        exp = exp or self._expected(st)
        ref = st.ref

        def bad(clause, obs, want, detail=''):
            report(clause, site if site else attr, obs, want, detail)

        if attr == 'shape':
            if tuple(val) != tuple(ref.shape):
                bad('attr-shape', val, ref.shape)
        elif attr == 'labels':
            if not np.array_equal(val, exp['labels']):
                bad('attr-labels', val, exp['labels'])
            elif np.asarray(val).dtype != ref.dtype:
                bad('attr-labels-dtype', np.asarray(val).dtype, ref.dtype)
        elif attr in ('nlabels', 'max_label', 'background_area', 'is_consecutive'):
            if val != exp[attr] or isinstance(val, np.ndarray):
                bad(f'attr-{attr}', val, exp[attr])
        elif attr == 'slices':
            if list(val) != exp['slices']:
                bad('attr-slices', val, exp['slices'])
        elif attr == '_raw_slices':
            got = [x for x in val if x is not None]
            if got != exp['slices']:
                bad('attr-raw-slices', got, exp['slices'])
        elif attr == 'bbox':
            got = [(b.iymin, b.iymax, b.ixmin, b.ixmax) for b in val]
            want = [(s[0].start, s[0].stop, s[1].start, s[1].stop) for s in exp['slices']]
            if got != want:
                bad('attr-bbox', got, want)
        elif attr == 'areas':
            if not np.array_equal(val, exp['areas']):
                bad('attr-areas', val, exp['areas'])
        elif attr == 'missing_labels':
            if not np.array_equal(val, exp['missing_labels']):
                bad('attr-missing_labels', val, exp['missing_labels'])
        elif attr == 'data_ma':
            if not (np.array_equal(np.ma.getmaskarray(val), ref == 0) and np.array_equal(np.ma.getdata(val), ref)):
                bad('attr-data_ma', short(val), 'masked where data == 0')
        elif attr == 'segments':
            labs = exp['labels']
            if len(val) != len(labs):
                bad('attr-segments-count', len(val), len(labs), 'one segment entry per label')
            else:
                for seg, l, sl, ar in zip(val, labs, exp['slices'], exp['areas']):
                    if seg.label != l or seg.area != ar or tuple(seg.slices) != sl \
                            or not np.array_equal(seg.data, np.where(ref[sl] == l, l, 0)):
                        bad('attr-segments', (seg.label, seg.area, seg.slices), (l, ar, sl))
                        break
                    if seg.polygon is not None and abs(seg.polygon.area - ar) > 1e-9:
                        bad('attr-segments-polygon', seg.polygon.area, ar)
                        break
        elif attr == 'polygons':
            labs = exp['labels']
            if len(val) != len(labs):
                bad('attr-polygons-count', len(val), len(labs), 'one polygon entry per label')
            else:
                for poly, l, ar in zip(val, labs, exp['areas']):
                    if abs(poly.area - ar) > 1e-9:
                        bad('attr-polygons-area', poly.area, ar, f'label {l}')
                        break
                    # registration: centroid of the polygon equals the mean pixel centre
                    ys, xs = np.nonzero(ref == l)
                    c = poly.centroid
                    if abs(c.x - xs.mean()) > 1e-9 or abs(c.y - ys.mean()) > 1e-9:
                        bad('attr-polygons-position', (c.x, c.y), (xs.mean(), ys.mean()), f'label {l}')
                        break
        elif attr in ('deblended_labels', 'deblended_labels_map', 'deblended_labels_inverse_map'):
            self._check_deblend(st, attr, val, exp, bad)

    def _check_deblend(self, st, attr, val, exp, bad):
        labs = set(exp['labels'].tolist())
        inv = exp['deblend_inverse']
        if attr == 'deblended_labels':
            got = [int(x) for x in np.asarray(val).tolist()]
            absent = [x for x in got if x not in labs]
            if absent:
                bad('deblend-names-absent-label', got, sorted(labs), f'deblended_labels names {absent}, not in the array')
                return
            want = sorted(int(x) for ch in inv.values() for x in ch)
            if sorted(set(got)) != sorted(set(want)) or got != sorted(got):
                bad('deblend-map-tracks', got, want)
        elif attr == 'deblended_labels_inverse_map':
            got = {int(k): sorted(int(x) for x in np.atleast_1d(v)) for k, v in val.items()}
            absent = [x for v in got.values() for x in v if x not in labs]
            if absent:
                bad('deblend-names-absent-label', got, sorted(labs), f'inverse map names {absent}, not in the array')
                return
            got = {k: sorted(set(v)) for k, v in got.items() if len(v)}
            want = {int(k): sorted(int(x) for x in v) for k, v in inv.items()}
            if got != want:
                bad('deblend-map-tracks', got, want)
        else:
            got = {int(k): int(v) for k, v in val.items()}
            absent = [k for k in got if k not in labs]
            if absent:
                bad('deblend-names-absent-label', got, sorted(labs), f'map names {absent}, not in the array')
                return
            want = {int(c): int(p) for p, ch in inv.items() for c in ch}
            # a child shared by two parents (after a merge) may map to either
            multi = {}
            for p, ch in inv.items():
                for c in ch:
                    multi.setdefault(int(c), set()).add(int(p))
            if set(got) != set(want) or any(got[c] not in multi[c] for c in got):
                bad('deblend-map-tracks', got, want)

    def invariant(self, st, report):
        s, ref = st.s, st.ref
        exp = self._expected(st)
        from photutils.segmentation import SegmentationImage
        fresh = SegmentationImage(ref.copy())
        for attr in READS:
            try:
                with warnings.catch_warnings():
                    warnings.simplefilter('ignore')
                    val = getattr(s, attr)
            except Exception as e:
                report('read-raises', f'{attr}:{type(e).__name__}', f'{type(e).__name__}: {e}', 'no exception',
                       f'reading {attr} raised')
                continue
            self._check_attr(st, attr, val, report, site=f'inv:{attr}', exp=exp)
            if attr.startswith('deblended') or attr in ('segments', 'polygons'):
                continue
            # differential oracle: a freshly constructed object on the same array
            try:
                fv = getattr(fresh, attr)
            except Exception:
                continue
            d = diff(val, fv)
            if d:
                report('differs-from-fresh', f'inv:{attr}', short(val), short(fv), d)
        # accessors with arguments
        for l in exp['labels'][:3]:
            try:
                if s.get_area(l) != exp['areas'][list(exp['labels']).index(l)]:
                    report('get_area', 'get_area', s.get_area(l), None)
                if s.get_index(l) != list(exp['labels']).index(l):
                    report('get_index', 'get_index', s.get_index(l), None)
            except Exception as e:
                report('read-raises', f'get_area/index:{type(e).__name__}', repr(e), 'no exception')
        if not np.array_equal(s.data, ref):
            report('data-changed-by-read', 'invariant', short(s.data), short(ref))


# --------------------------------------------------------------------------
def _depth(root, tier):
    if tier == 'thorough':
        return 3
    return 3 if root in QUICK_D3 else 2


def _all_small(tier):
    """Additional roots: ALL arrays of a small shape over a small label alphabet.
    quick: all 2x2 arrays over {0,1,2,5} (256) and all 2x3 arrays over {0,1,2} (729), depth 1;
    thorough: all 2x3 arrays over {0,1,2,5} (4096), depth 2."""
    import itertools
    if tier == 'thorough':
        return [((2, 3), list(c)) for c in itertools.product((0, 1, 2, 5), repeat=6)]
    return ([((2, 2), list(c)) for c in itertools.product((0, 1, 2, 5), repeat=4)]
            + [((2, 3), list(c)) for c in itertools.product((0, 1, 2), repeat=6)])


def plan(tier, seed):
    units = []
    for root in list(ROOTS) + SPECIAL_ROOTS:
        sysm = System(root, tier)
        n = len(sysm.ops(sysm.initial()))
        depth = _depth(root, tier)
        if depth >= 3:
            for i in range(n):
                units.append({'kind': 'bfs', 'root': root, 'depth': depth, 'first': [i]})
        else:
            k = 4
            for j in range(k):
                units.append({'kind': 'bfs', 'root': root, 'depth': depth, 'first': list(range(j, n, k))})
    small = _all_small(tier)
    nsh = 32
    for j in range(nsh):
        units.append({'kind': 'small', 'shard': j, 'nshards': nsh, 'depth': 2 if tier == 'thorough' else 1})
    return units


class SmallSystem(System):
    def __init__(self, arr, tier, shape=(2, 3)):
        super().__init__('small', tier)
        self.arr = np.array(arr).reshape(shape)

    def initial(self):
        from photutils.segmentation import SegmentationImage
        st = State()
        st.s = SegmentationImage(self.arr.copy())
        st.ref = self.arr.copy()
        st.child_pixels = {}
        st.dtype = st.ref.dtype
        return st


def run_unit(unit, tier, seed):
    acc = Acc()
    if unit['kind'] == 'bfs':
        sysm = System(unit['root'], tier)
        explore(sysm, unit['depth'], acc, first_ops=unit['first'], extra={'root': unit['root']},
                root_check=(unit['first'][0] == 0))
    else:
        small = _all_small(tier)
        for i in range(unit['shard'], len(small), unit['nshards']):
            shape, arr = small[i]
            sysm = SmallSystem(arr, tier, shape)
            explore(sysm, unit['depth'], acc, extra={'root': 'small', 'array': arr, 'shape': list(shape)})
    return acc


def _tup(x):
    return tuple(_tup(v) for v in x) if isinstance(x, (list, tuple)) else x


def replay(case, seed):
    acc = Acc()
    tier = 'thorough'
    if case.get('root') == 'small':
        sysm = SmallSystem(case['array'], tier, tuple(case.get('shape', (2, 3))))
    else:
        sysm = System(case['root'], tier)
    hist = _tup(case['history'])
    from ..explorer import _mk_report
    extra = {k: v for k, v in case.items() if k != 'history'}
    if hist:
        st, usable = build(sysm, hist, acc, extra)
    else:
        st, usable = sysm.initial(), True
    if usable:
        sysm.invariant(st, _mk_report(acc, sysm, hist, extra))
    return acc


def describe(tier, seed):
    return {'roots': list(ROOTS) + SPECIAL_ROOTS + [_all_small.__doc__.split('quick:')[1].strip()],
            'bound': {'depth': {r: _depth(r, tier) for r in list(ROOTS) + SPECIAL_ROOTS},
                      'small_arrays_depth': 2 if tier == 'thorough' else 1},
            'reads': READS}
