"""C01 -- aperture masks are the true pixel-overlap fractions of the shape; bounding
boxes are minimal; overlap slices are exact.

Shape (C): full Cartesian products
    family x size alphabet x axis ratio x angle x (annulus ratio) x centre (integer part x fractional part^2)
    x method {exact, center, subpixel s}
    x representation of the rotation angle {float radians, np.float64, int, Quantity[rad], Angle[rad] (bit-identical to the
      float aperture: every centre) ; Quantity[deg], Quantity[arcmin] (+ Angle of the same number and unit, bit-identical;
      judged against the reference at the radian value: first centre group)}
executed on PixelAperture.to_mask / .bbox / .area, compared with mcphot/ref/geometry.py
(polygon∩disk line integral; counted sub-pixel centres with an ambiguity interval; rational
minimal-box rule), on ALL HISTORIES of public calls up to a depth on one aperture object (to_mask / area_overlap /
do_photometry with and without a pixel mask, every ApertureMask method on the masks handed out, writes into returned
arrays, copies, children, ApertureStats, and every way of changing a parameter of the object itself -- positions assigned anew,
``positions += d``, the stored positions array written by the caller and assigned again, the caller's own array changed and
assigned again, assignments of equal values, ``r *= f``, ``theta += dq`` in place on the stored Quantity: afterwards every read
must be that of a fresh aperture with the current values),
and -- always exhaustive -- all small integer boxes x all small image shapes for
get_overlap_slices / to_image / cutout, all pairs of small boxes for union / intersection and a
product of pixel-edge-hugging floats for BoundingBox.from_float.
"""
import hashlib
import itertools
import math
from fractions import Fraction

import numpy as np

from ..ref import geometry as G
from ..runner import Acc

PROPERTY = 'C01'
LEVEL = 'exploration'
RULE = ('full Cartesian product per shape family: size x axis-ratio x angle x annulus-ratio x centre (integer part x '
        'fractional part of x x fractional part of y) x method; every aperture is built with a list of positions (one '
        'group = a diagonal of the x-fraction x y-fraction table) and additionally as a scalar aperture for the first position of each group. '
        'For the four families with a rotation angle the angle is additionally given in every other documented representation: '
        'the same radian number as np.float64 / int (integer-valued angles) / Quantity[rad] / Angle[rad] for every shape x centre group x method '
        '(quick; thorough: every group up to size 30, first group beyond), demanding boxes, area and masks bit-identical to the float aperture; '
        'and as Quantity[deg] / Quantity[arcmin] (angle alphabet written in degrees) for every shape x method x first centre group, judged '
        'against the reference evaluated at the radian value like any other case, with the Angle of the same number and unit bit-identical. '
        'A representation case is non-trivial when the angle is not 0. '
        'A mask case is non-trivial when its data contain a weight strictly between 0 and 1 (exact / subpixel) or at '
        'least one pixel equal to 1 (center); a bounding-box case and a parameter re-assignment case (consecutive shapes of a unit, size <= 30: every read -- bbox, area, to_mask exact / center / subpixel -- fills the caches, then every parameter and the positions are assigned ONE AT A TIME, positions first or last, and after every single assignment that leaves a valid aperture every read is compared with a fresh aperture of the same parameters; the representation of theta before x the representation assigned x the order x the way the positions are changed {a new list, a new ndarray, augmented assignment positions += (dx, dy) = in place on the stored array which is then handed to the setter, a = ap.positions; a[0] = (x, y); ap.positions = a} run through their full 6 x 6 x 2 x 4 product over 288 consecutive shapes (families without an angle: 2 x 4 over 8); the first read that differs is reported per assignment) always; an overlap case when box and image '
        'partially overlap (neither disjoint nor box inside image); cases are distinct product indices. '
        'Histories: for 6 families x 2 shapes x 3 forms (scalar inside the image, scalar cut by two image edges, list of three positions '
        'inside / cut / off the image) EVERY sequence of operations up to depth 2 (quick; depth 3 for the first shape of every family in list '
        'form; thorough: depth 3 everywhere) from the alphabet {to_mask, area_overlap without / with pixel mask, do_photometry without / with '
        'pixel mask} x {exact, center, subpixel 2} (thorough, depth 2: + subpixel 1, subpixel 5, aperture_photometry) + {ApertureMask.multiply, '
        'cutout, get_values, to_image on the masks last handed out, caller writes into the handed-out mask, every way of changing a parameter of '
        'the aperture itself [positions assigned as new tuples; positions += d (in place on the stored array, then the setter receives that very '
        'array); a = ap.positions, a[0] = v, ap.positions = a; the caller\'s own ndarray assigned, a read, that array changed by the caller and the '
        'identical object assigned again; assignments that change nothing (the stored object itself / an equal array / equal tuples); r *= f resp. '
        '/= f on the first size parameter; theta += dq in place on the stored Quantity (families with an angle)], '
        'copy-and-modify-the-copy, children ap[0] / ap[1:] / iteration (list form), ApertureStats} is executed on one fresh aperture; every '
        'array returned by a call is overwritten by the caller (unless it is a view of the caller\'s own data or read-only); after the '
        'history bbox, area and to_mask of every method must equal those of a freshly built aperture with the CURRENT positions and parameter values '
        '(tracked by a model of the history with the same float arithmetic on its own objects, never read back from the aperture) (bit-identical), every to_mask inside '
        'the history likewise, and no mask handed out earlier may have changed. A history case is non-trivial when it contains an operation '
        'other than to_mask; only the shortest failing history is reported (prefixes are enumerated as well).')
ASSUMPTIONS = [
    'numpy elementwise arithmetic, math.atan2/sqrt and fractions.Fraction are trusted',
    'the reference (mcphot/ref/geometry.py) is validated by selftest/test_geometry.py against 1200^2 sub-sampling, '
    'chord integration and parametric extents',
    'the geometry kernels are tested as compiled from photutils/geometry/*.c (no Cython here: a .pyx edit is not rebuilt)',
    'astropy.units / astropy.coordinates.Angle construct the angle objects; the radian value of an angle given in degrees / arcmin is '
    'math.radians(deg) (the reference tolerances absorb a few ulp of difference to the conversion the implementation uses)',
    'sizes are bounded by 25 px (quick) / 300 px (thorough); parameters between alphabet points are outside the bound',
    'histories: augmented assignment on an attribute is Python\'s get / in-place operator / set; numpy and astropy.units in-place addition give the '
    'same float as the out-of-place addition the model of the history uses; a caller who writes into the array returned by ap.positions WITHOUT '
    'assigning it afterwards is outside the bound (no setter is involved)',
    'histories: the fresh aperture the reads are compared with is itself judged against the reference by the mask / bbox cases; state kept '
    'outside the aperture object and the masks it returned (module level) is only seen through the operations of the alphabet; histories '
    'longer than the stated depth and operations outside the alphabet (plotting, to_sky) are outside the bound',
]

# ---------------------------------------------------------------------------
# alphabets (ordered simplest first)
# ---------------------------------------------------------------------------
S25 = math.sqrt(2.5)          # circle through pixel corners for integer centres
S5 = math.sqrt(5.0)           # circle through pixel centres for integer centres
IPARTS = [(0, 0), (3, -7), (-7, 1000), (1000, 3)]
PI = math.pi
THETAS = [0.0, PI / 8, PI / 4, PI / 4 + 1e-10, PI / 2, 1.0, 3 * PI / 4, PI, 2.5, -0.3]
THETAS_Q = [0.0, PI / 4, PI / 2, 1.0, 2.5]
# the same alphabet in degrees (index-aligned: what a user writes for these angles; 45 + 6e-9 deg = pi/4 + 1e-10 rad)
THETAS_DEG = [0.0, 22.5, 45.0, 45.0 + 6e-9, 90.0, 57.3, 135.0, 180.0, 143.2, -17.2]
DEG_OF = dict(zip(THETAS, THETAS_DEG))
THETA_FAMILIES = ('ellipse', 'eannulus', 'rect', 'rannulus')
# representation of the rotation angle (documented: float = radians, or an angular Quantity / Angle in any unit).
#  * 'float' is the representation of the main product;
#  * TREPS_EXACT hold the same radian number in another type (conversion to radians is exact): the aperture must
#    be bit-identical to the float one ('int' only for integer-valued angles);
#  * TREPS_UNIT give the angle in another unit (conversion rounds): judged against the reference evaluated at the
#    radian value; the Angle of the same number and unit must be bit-identical to the Quantity.
TREPS_EXACT = ['np.float64', 'int', 'Quantity[rad]', 'Angle[rad]']
TREPS_UNIT = ['Quantity[deg]', 'Quantity[arcmin]']
TREPS_SAME = {'Quantity[deg]': ['Angle[deg]'], 'Quantity[arcmin]': ['Angle[arcmin]']}
RATIOS = [0.1, 0.5, 0.9, 0.999]
RADII = [0.03, 0.3, 0.5, math.sqrt(0.5), 1.0, S25, 1.5, 2.0, S5, 2.5, 3.3, 5.0, 7.07, 25.0]
BIG = [100.0, 300.0]
# semi-major axes: the first two perturbed values put pixel corners 4e-11 inside / outside the ellipse, i.e. within the
# kernel's 1e-10 "vertex on the circle" tolerance, from either side; the other two 4e-8 inside / outside, i.e. clearly
# not on it (a loosened tolerance shows as an error of ~1e-7)
ELL_PERT = [S25 * (1 + 2e-11), S25 * (1 - 2e-11), S25 * (1 + 2e-8), S25 * (1 - 2e-8)]
ELL_Q = [1.0, 0.5, 0.1, 0.02, 2.0]
RECT_W = [0.03, 0.4, 1.0, 2.0, 3.0, 3.5, 7.07, 25.0]
RECT_Q = [1.0, 0.5, 0.1, 2.0]
METHODS_Q = [('exact', 5), ('center', 5), ('subpixel', 2), ('subpixel', 5)]
METHODS_T = [('exact', 5), ('center', 5), ('subpixel', 1), ('subpixel', 2), ('subpixel', 3), ('subpixel', 5), ('subpixel', 32)]


def fracs(seed):
    """fractional parts for x and for y (the last entry is the seed-chosen generic real)."""
    rng = np.random.default_rng(1000 + seed)
    gx, gy = (float(v) for v in rng.uniform(0.05, 0.45, size=2))
    base = [0.0, 0.5, 0.25, 1.0 / 3.0, 0.5 - 1e-9]
    return base + [gx], base + [gy]


def centre_groups(seed, level):
    """-> list of groups; a group is a list of [cx, cy] sharing the integer part (one aperture object per group).
    level 'full': 4 integer parts x 6 x 6; 'mid': integer part (3,-7) x 6 x 6 + the other integer parts x
    {0, 1/2, generic}^2;  'small': (3,-7) x {0, 1/2, 1/3, generic}^2 + (-7,1000) x {1/4, 1/2-1e-9}^2;  'min': (3,-7) x {0, generic}^2 and
    (1000,3) x {(1/2, generic)}."""
    fx, fy = fracs(seed)
    groups = []

    def add(ip, xs, ys):
        # every (x fraction, y fraction) pair exactly once; inside a group both coordinates vary (diagonals of the
        # xs x ys table), so that a per-position quantity taken from the wrong position is visible
        xs, ys = list(xs), list(ys)
        for j in range(len(ys)):
            groups.append([[ip[0] + fx[xs[i]], ip[1] + fy[ys[(i + j) % len(ys)]]] for i in range(len(xs))])
    allf = range(6)
    if level == 'full':
        for ip in IPARTS:
            add(ip, allf, allf)
    elif level == 'mid':
        add(IPARTS[1], allf, allf)
        for ip in (IPARTS[0], IPARTS[2], IPARTS[3]):
            add(ip, (0, 1, 5), (0, 1, 5))
    elif level == 'small':
        add(IPARTS[1], (0, 1, 3, 5), (0, 1, 3, 5))
        add(IPARTS[2], (2, 4), (2, 4))
    else:
        add(IPARTS[1], (0, 5), (0, 5))
        add(IPARTS[3], (1,), (5,))
    return groups


def methods_for(tier, size, family=None):
    """(method, subpixels) list for a shape of the given largest half-size.  The 32x32 sub-sampling is part of
    the alphabet for sizes <= 7.07 (circle / ellipse families; rectangles reach it through 'exact' at every size),
    sub-sampling >= 3 for sizes <= 25."""
    ms = METHODS_T if (tier == 'thorough' or family in ('circle', 'cannulus')) else METHODS_Q
    out = []
    for m, s in ms:
        if m == 'subpixel' and s == 32 and size > 7.5:
            continue
        if m == 'subpixel' and s >= 3 and size > 30:
            continue
        out.append((m, s))
    return out


def shape_list(family, tier):
    """-> list of (params, size) for the family; size = largest half-extent scale (for method/centre selection)."""
    th = tier == 'thorough'
    out = []
    if family == 'circle':
        for r in RADII + (BIG if th else []):
            out.append(({'r': r}, r))
    elif family == 'cannulus':
        routs = (RADII[1:] + BIG[:1]) if th else [0.3, 1.0, 1.5, S5, 3.3, 7.07]
        for ro in routs:
            for q in RATIOS:
                out.append(({'r_in': ro * q, 'r_out': ro}, ro))
    elif family == 'ellipse':
        aa = RADII[:6] + ELL_PERT + RADII[6:] + (BIG if th else [])
        for a in aa:
            for q in ELL_Q:
                if a * q > 301:
                    continue
                for t in THETAS:
                    out.append(({'a': a, 'b': a * q, 'theta': t}, max(a, a * q)))
        # ellipses of every ratio and angle that pass exactly through the pixel corner at (1.5, 0.5) from an
        # integer centre (a generic on-boundary corner: neither axis-aligned nor tangent)
        for q in ELL_Q:
            for t in THETAS:
                xr = 1.5 * math.cos(t) + 0.5 * math.sin(t)
                yr = -1.5 * math.sin(t) + 0.5 * math.cos(t)
                a = math.hypot(xr, yr / q)
                out.append(({'a': a, 'b': a * q, 'theta': t}, max(a, a * q)))
    elif family == 'eannulus':
        aa = [0.3, 1.0, S25, 2.5, 5.0, 25.0] if th else [0.3, 1.0, 2.5, 5.0]
        qq = ELL_Q if th else [1.0, 0.5, 0.1, 2.0]
        for a in aa:
            for q in qq:
                for t in (THETAS if th else THETAS_Q):
                    for k in RATIOS:
                        out.append(({'a_in': a * k, 'a_out': a, 'b_out': a * q, 'b_in': None, 'theta': t}, max(a, a * q)))
                    # a non-similar inner ellipse (explicit b_in)
                    out.append(({'a_in': a * 0.5, 'a_out': a, 'b_out': a * q, 'b_in': a * q * 0.9, 'theta': t}, max(a, a * q)))
    elif family == 'rect':
        ww = RECT_W + (BIG[:1] if th else [])
        for w in ww:
            for q in RECT_Q:
                for t in THETAS:
                    out.append(({'w': w, 'h': w * q, 'theta': t}, max(w, w * q) * 0.75))
    elif family == 'rannulus':
        ww = [0.4, 1.0, 3.0, 3.5, 7.07, 25.0] if th else [0.4, 1.0, 3.0, 7.07]
        for w in ww:
            for q in RECT_Q:
                for t in (THETAS if th else THETAS_Q):
                    for k in RATIOS:
                        out.append(({'w_in': w * k, 'w_out': w, 'h_out': w * q, 'h_in': None, 'theta': t}, max(w, w * q) * 0.75))
                    out.append(({'w_in': w * 0.5, 'w_out': w, 'h_out': w * q, 'h_in': w * q * 0.9, 'theta': t}, max(w, w * q) * 0.75))
    return out


FAMILIES = ['circle', 'cannulus', 'ellipse', 'eannulus', 'rect', 'rannulus']


def centre_level(family, tier, size):
    if tier == 'thorough':
        if size > 60:
            return 'min'
        if size > 20:
            return 'small'
        return 'full' if family in ('circle', 'cannulus', 'ellipse', 'rect') else 'mid'
    if size > 20:
        return 'min'
    if family == 'circle':
        return 'full'
    return 'small'


# ---------------------------------------------------------------------------
# the real objects
# ---------------------------------------------------------------------------

def with_rep(p, rep, tval=None):
    """the shape p with its angle expressed in representation ``rep``.  'theta' stays the radian value at which
    the reference model is evaluated (for another unit: the alphabet angle in degrees, converted in plain Python)."""
    if rep == 'float':
        return {k: v for k, v in p.items() if k not in ('trep', 'tval')}
    if rep in TREPS_EXACT or rep.endswith('[rad]'):
        return dict(p, trep=rep, tval=p['theta'])
    deg = DEG_OF[p['theta']] if tval is None else tval
    if rep.endswith('[deg]'):
        return dict(p, theta=math.radians(deg), trep=rep, tval=deg)
    if rep.endswith('[arcmin]'):
        return dict(p, theta=math.radians(deg), trep=rep, tval=deg * 60.0)
    raise ValueError(rep)


def same_reps(p):
    """representations that must give a bit-identical aperture to the one of p"""
    rep = p.get('trep', 'float')
    if rep == 'float':
        return [r for r in TREPS_EXACT if r != 'int' or float(p['theta']).is_integer()]
    return TREPS_SAME.get(rep, [])


def theta_arg(p):
    """the object handed to the constructor / setter as ``theta``"""
    rep = p.get('trep', 'float')
    if rep == 'float':
        return p['theta']
    v = p['tval']
    if rep == 'np.float64':
        return np.float64(v)
    if rep == 'int':
        return int(v)
    import astropy.units as u
    from astropy.coordinates import Angle
    kind, unit = rep[:-1].split('[')
    return u.Quantity(v, unit) if kind == 'Quantity' else Angle(v, unit)


def build(family, p, positions):
    from photutils import aperture as A
    if 'theta' in p:
        p = dict(p, theta=theta_arg(p))
    if family == 'circle':
        return A.CircularAperture(positions, p['r'])
    if family == 'cannulus':
        return A.CircularAnnulus(positions, p['r_in'], p['r_out'])
    if family == 'ellipse':
        return A.EllipticalAperture(positions, p['a'], p['b'], theta=p['theta'])
    if family == 'eannulus':
        return A.EllipticalAnnulus(positions, p['a_in'], p['a_out'], p['b_out'], b_in=p['b_in'], theta=p['theta'])
    if family == 'rect':
        return A.RectangularAperture(positions, p['w'], p['h'], theta=p['theta'])
    if family == 'rannulus':
        return A.RectangularAnnulus(positions, p['w_in'], p['w_out'], p['h_out'], h_in=p['h_in'], theta=p['theta'])
    raise ValueError(family)


def model_shapes(family, p):
    """-> (outer simple shape, inner simple shape or None) of the reference model (documented definitions:
    b_in defaults to b_out * a_in / a_out, h_in to w_in * h_out / w_out)."""
    if family == 'circle':
        return ('c', p['r']), None
    if family == 'cannulus':
        return ('c', p['r_out']), ('c', p['r_in'])
    if family == 'ellipse':
        return ('e', p['a'], p['b'], p['theta']), None
    if family == 'eannulus':
        b_in = p['b_in'] if p['b_in'] is not None else p['b_out'] * p['a_in'] / p['a_out']
        return ('e', p['a_out'], p['b_out'], p['theta']), ('e', p['a_in'], b_in, p['theta'])
    if family == 'rect':
        return ('r', p['w'], p['h'], p['theta']), None
    h_in = p['h_in'] if p['h_in'] is not None else p['w_in'] * p['h_out'] / p['w_out']
    return ('r', p['w_out'], p['h_out'], p['theta']), ('r', p['w_in'], h_in, p['theta'])


def predicate(family, p):
    """named predicate on the case, part of the violation site (distinguishes defects of different regimes)."""
    outer, _ = model_shapes(family, p)
    dims = outer[1:3] if outer[0] != 'c' else (outer[1], outer[1])
    big, small = max(dims), min(dims)
    if outer[0] == 'r':
        big, small = big / 2, small / 2
    tags = []
    if big < 0.5:
        tags.append('tiny')
    elif big >= 100:
        tags.append('large')
    if small / big <= 0.02 + 1e-12:
        tags.append('needle')
    if p.get('trep', 'float') != 'float':
        tags.append('theta=' + p['trep'])
    return '+'.join(tags) or 'regular'


def _site(family, p, method=None, s=None):
    m = '' if method is None else (':' + method + (str(s) if method == 'subpixel' else ''))
    return f'{family}{m}:{predicate(family, p)}'


def dpos_for(cx, cy, ext):
    """Uncertainty of a (sub-)pixel centre position relative to the aperture centre as the implementation
    evaluates it: one rounding of (ixmin - 0.5 - cx) [<= 1.2e-16 (|c| + ext)], dx = (xmax - xmin)/nx and
    pxmin = xmin + i*dx [<= 4e-16 (|c| + ext)], up to 32 accumulated additions x += dx [<= 32 * 1.2e-16 * ext],
    the rotation [<= 4e-16 ext]; total <= 6e-16 |c| + 5e-15 ext; x10 margin."""
    return 1e-14 * (max(abs(cx), abs(cy)) + 1.0) + 5e-14 * (ext + 1.0)


def exact_atol(shape):
    """Per-pixel tolerance of the exact method (pixel^2 = fraction, the pixel area is 1).

    circle kernel: no geometric tolerance; quadrant analysis with sqrt/asin of O(r) quantities, rounding
    ~1e-16 r^2 per term.  Measured worst on the unchanged tree: 3e-16 (r < 1), 1e-13 (r = 25), 5e-11 (r = 300)
    -> 1e-14 max(1, r^2) (x10 .. x60 margin).

    elliptical kernel (works in unit-disk coordinates, result scaled by a*b):
     (1) a mapped pixel corner with |d^2 - 1| < 1e-10 is treated as lying on the circle: moving a corner by 5e-11
         changes the clipped area by <= 5e-11 * (mapped edge lengths ~ 1/a + 1/b) * a*b = 5e-11 (a + b);
         measured 1.0e-10 for the alphabet entries a = sqrt(2.5)(1 +- 2e-11) -> 1e-9 max(1, a + b);
     (2) rounding of the case analysis ~1e-16 * a*b per term -> 1e-13 a*b;
     (3) circular segments are evaluated as asin(chord/2): for a chord that is (nearly) a diameter the rounding of
         chord/2 = 1 - O(1e-16) is amplified to sqrt(2 * 2.2e-16) = 2.1e-8 in the angle, i.e. 2.1e-8 a*b in area
         (measured 9.3e-10 for a = 0.25, b = 0.125).  A chord inside one pixel can only approach a diameter when
         the pixel is wider than the ellipse, min(a, b) < sqrt(2)/2 -> + 2e-7 a*b for min(a, b) < 0.75."""
    if shape[0] == 'c':
        r = shape[1]
        return 1e-14 * max(1.0, r * r)
    a, b = shape[1], shape[2]
    tol = 1e-9 * max(1.0, a + b) + 1e-13 * a * b
    if min(a, b) < 0.75:
        tol += 2e-7 * a * b
    return tol


# ---------------------------------------------------------------------------
# reference weights
# ---------------------------------------------------------------------------

def ref_exact(shape, x0, y0, nx, ny):
    if shape[0] == 'c':
        a = b = shape[1]
        th = 0.0
    else:
        a, b, th = shape[1], shape[2], shape[3]
    return G.ellipse_grid_exact(x0 + np.arange(nx + 1), y0 + np.arange(ny + 1), a, b, th)


def _degenerate(shapes, x0, y0, nx, ny):
    """named predicate on the case (part of the violation site only; evaluated from the inputs): the pixel grid of
    the box is in a measure-zero position relative to the (outer or inner) ellipse -- a pixel corner lies on the
    ellipse (normalised radius^2 within 2e-10 of 1; the elliptical kernel special-cases |d - 1| < 1e-10 as 'vertex
    on the circle'), or a pixel edge, or the pixel diagonal (xmin, ymin)-(xmax, ymax) along which the kernel splits
    a pixel into two triangles, is tangent to the ellipse (within 1e-9)."""
    xe = x0 + np.arange(nx + 1)
    ye = y0 + np.arange(ny + 1)
    X, Y = np.meshgrid(xe, ye)
    for sh in shapes:
        if sh is None:
            continue
        c, s = math.cos(sh[3]), math.sin(sh[3])
        U = (X * c + Y * s) / sh[1]
        V = (-X * s + Y * c) / sh[2]
        if (np.abs(U * U + V * V - 1.0) < 2e-10).any():
            return True
        ex, ey = G.extents(sh)
        # tangency is judged at the kernel's own scale: it works in unit-disk coordinates (pixel lengths divided
        # by the semi-axes) with a 1e-10 'on the circle' tolerance, so for a large semi-axis a pixel edge that is
        # 1e-9 px inside the tip of the ellipse is within that tolerance (a = 25: 4e-11 in disk units).  Confirmed
        # to be the same root cause: the replay is silent with proposed_fixes/C01-ellipse-exact-vertex-on-ellipse.
        if (np.abs(np.abs(xe) - ex) < max(1e-9, 2e-10 * ex)).any() \
                or (np.abs(np.abs(ye) - ey) < max(1e-9, 2e-10 * ey)).any():
            return True
        # diagonals in unit-disk coordinates: distance of the segment's line from the origin, foot inside the segment
        du, dv = U[1:, 1:] - U[:-1, :-1], V[1:, 1:] - V[:-1, :-1]
        ln = np.hypot(du, dv)
        h = np.abs(U[:-1, :-1] * dv - V[:-1, :-1] * du) / ln
        t = -(U[:-1, :-1] * du + V[:-1, :-1] * dv) / (ln * ln)
        if ((np.abs(h - 1.0) < 1e-9) & (t > -0.01) & (t < 1.01)).any():
            return True
    return False


def check_bbox(acc, family, p, positions, idx, bbox, scalar=False):
    """minimal-box rule for one position; returns True when admissible."""
    cx, cy = positions[idx]
    outer, _ = model_shapes(family, p)
    ex, ey = G.extents(outer)
    exact = G.extents_exact(outer)
    case = {'family': family, 'params': p, 'positions': positions, 'index': idx, 'what': 'bbox', 'scalar': scalar}
    ok = True
    tie = False
    for nm, c, e, imin, imax in (('x', cx, ex, bbox.ixmin, bbox.ixmax), ('y', cy, ey, bbox.iymin, bbox.iymax)):
        mins, maxs = G.box_1d_admissible(c, e, exact)
        tie = tie or len(mins) > 1 or len(maxs) > 1 or (Fraction(c) - Fraction(e) + Fraction(1, 2)).denominator == 1 \
            or (Fraction(c) + Fraction(e) + Fraction(1, 2)).denominator == 1
        for which, got, adm in (('min', imin, mins), ('max', imax, maxs)):
            if got not in adm:
                ok = False
                small = (which == 'min' and got > max(adm)) or (which == 'max' and got < min(adm))
                # (for an angle given in a non-float representation the side is not part of the key: one defect of
                # the angle handling shows on all four sides)
                side = '' if p.get('trep', 'float') != 'float' else f'{nm}{which}:'
                acc.violation('bbox-contains' if small else 'bbox-minimal', f'{family}:{side}{predicate(family, p)}',
                              case, f'i{nm}{which}={got} (bbox {bbox!r})',
                              f'i{nm}{which} in {sorted(adm)} for extent [{c - e!r}, {c + e!r}]')
    acc.case(nontrivial=True, sample=case if acc.evaluations % 20011 == 3 else None)
    acc.counters['bbox_cases'] += 1
    if tie:
        acc.counters['bbox_cases_with_edge_on_pixel_edge'] += 1
    return ok


def check_mask(acc, family, p, positions, idx, method, s, mask, bbox, stats=None):
    """compare ONE mask (position idx of the aperture, one method) with the reference."""
    cx, cy = positions[idx]
    outer, inner = model_shapes(family, p)
    case = {'family': family, 'params': p, 'positions': positions, 'index': idx, 'method': method, 'subpixels': s}
    site = _site(family, p, method, s)
    data = np.asarray(mask.data)
    mb = mask.bbox
    if (mb.ixmin, mb.ixmax, mb.iymin, mb.iymax) != (bbox.ixmin, bbox.ixmax, bbox.iymin, bbox.iymax):
        acc.violation('bbox-mismatch', f'{family}:to_mask.bbox!=aperture.bbox', case, repr(mb), repr(bbox))
    ny, nx = mb.iymax - mb.iymin, mb.ixmax - mb.ixmin
    if data.shape != (ny, nx) or data.dtype != np.float64:
        acc.violation('mask-shape', family, case, (data.shape, str(data.dtype)), ((ny, nx), 'float64'))
        acc.case(nontrivial=False)
        return
    if nx * ny == 0:
        acc.case(nontrivial=False)
        return
    x0 = (mb.ixmin - 0.5) - cx
    y0 = (mb.iymin - 0.5) - cy
    ex, ey = G.extents(outer)
    is_rect = outer[0] == 'r'
    if method == 'exact' and not is_rect:
        ref = ref_exact(outer, x0, y0, nx, ny)
        atol = exact_atol(outer)
        if inner is not None:
            ref = ref - ref_exact(inner, x0, y0, nx, ny)
            atol = atol + exact_atol(inner)
        if family in ('ellipse', 'eannulus') and _degenerate((outer, inner), x0, y0, nx, ny):
            site += '+degenerate'
        dev = np.abs(data - ref)
        worst = float(dev.max())
        if stats is not None:
            stats.append((worst / atol, worst, family, p, [cx, cy]))
        if not worst <= atol:                  # also catches NaN
            j, i = np.unravel_index(np.nanargmax(np.where(np.isnan(dev), np.inf, dev)), dev.shape)
            acc.violation('exact-weights', site, case, f'w[{j},{i}]={data[j, i]!r}', f'{ref[j, i]!r} +- {atol:.1e}',
                          f'pixel (x={mb.ixmin + i}, y={mb.iymin + j}); {int((dev > atol).sum())} of {dev.size} pixels deviate, worst {worst:.3e}')
        # range: 0 <= w <= 1 up to the same tolerance (annulus: difference of two such numbers).  Range and sum
        # are consequences of the per-pixel clause; they are reported only when that one holds (one key per defect)
        bad_px = not worst <= atol
        if not bad_px and (data.min() < -atol or data.max() > 1.0 + atol):
            acc.violation('weights-range', site, case, (float(data.min()), float(data.max())), '[0, 1]')
        # sum = analytic area: every pixel of the shape is inside the (checked) box; the error of the sum is at most
        # (number of cut pixels ~ perimeter) * atol; a relative 1e-9 covers the pairwise summation rounding
        area = G.area(outer) - (G.area(inner) if inner is not None else 0.0)
        npart = int(((data > 0) & (data < 1)).sum())
        stol = atol * max(npart, 1) + 1e-12 * max(1.0, G.area(outer))
        if not bad_px and not abs(float(data.sum()) - area) <= stol:
            acc.violation('sum-area', site, case, float(data.sum()), f'{area!r} +- {stol:.1e}')
        nontrivial = npart > 0
    else:
        ss = 32 if method == 'exact' else (1 if method == 'center' else s)
        dp = dpos_for(cx, cy, max(ex, ey))
        lo, hi = G.subpixel_interval(outer, x0, y0, nx, ny, ss, dp)
        namb = int((hi - lo).sum())
        if inner is not None:
            li, hi_in = G.subpixel_interval(inner, x0, y0, nx, ny, ss, dp)
            namb += int((hi_in - li).sum())
            lo, hi = lo - hi_in, hi - li
        # weights are k/s^2 with integer k (one division; an annulus subtracts two such floats): 1e-12 covers the
        # <= 3 roundings of numbers <= 1
        wl = lo / float(ss * ss) - 1e-12
        wh = hi / float(ss * ss) + 1e-12
        bad = ~((data >= wl) & (data <= wh))
        if bad.any():
            j, i = np.argwhere(bad)[0]
            acc.violation('subpixel-weights', site, case, f'w[{j},{i}]={data[j, i]!r}',
                          f'[{lo[j, i]}, {hi[j, i]}]/{ss}^2 = [{lo[j, i] / ss ** 2!r}, {hi[j, i] / ss ** 2!r}]',
                          f'pixel (x={mb.ixmin + i}, y={mb.iymin + j}); {int(bad.sum())} of {bad.size} pixels outside their interval; '
                          f'{namb} ambiguous sub-pixel centres in this mask')
        k = data * (ss * ss)
        if np.abs(k - np.round(k)).max() > 1e-9:
            acc.violation('subpixel-quantised', site, case, float(np.abs(k - np.round(k)).max()), 'weights are multiples of 1/s^2')
        if namb:
            acc.counters['mask_cases_with_ambiguous_subpixel_centres'] += 1
        if is_rect and method == 'exact':
            # documented accuracy of rectangle 'exact' (= 32x32 sub-sampling): the boundary (length P) crosses at most
            # sqrt2*P*32 + 8 sub-pixels per closed outline, each contributing an error < 1/32^2
            per = G.perimeter_bound(outer) + (G.perimeter_bound(inner) if inner is not None else 0.0)
            nout = 2 if inner is not None else 1
            stol = (math.sqrt(2) * per * 32 + 8 * nout) / 1024.0 + 1e-9
            area = G.area(outer) - (G.area(inner) if inner is not None else 0.0)
            if not abs(float(data.sum()) - area) <= stol:
                acc.violation('sum-area', site, case, float(data.sum()), f'{area!r} +- {stol:.2e}')
        if method == 'center':
            nontrivial = bool((data == 1).any())
        else:
            nontrivial = bool(((data > 0) & (data < 1)).any())
    acc.case(nontrivial=nontrivial, sample=case if acc.evaluations % 7001 == 11 else None)
    if acc.evaluations % 97 == 0:
        acc.outcome(hashlib.blake2b(data.tobytes(), digest_size=8).hexdigest())


REASSIGN_METHODS = [('exact', 5), ('center', 5), ('subpixel', 2)]
# representation in which theta is given before / assigned after (rotated over the cases of a unit; the unit
# representations use the degree alphabet, the comparison object is a fresh aperture built with the very same argument)
REASSIGN_REPS = ['float', 'Quantity[deg]', 'Quantity[rad]', 'Angle[deg]', 'np.float64', 'Quantity[arcmin]']


def _reads(ap):
    """every read of the property on an aperture, as comparable plain data (also fills every cache)"""
    out = {'bbox': [(b.ixmin, b.ixmax, b.iymin, b.iymax) for b in ap.bbox], 'area': ap.area}
    for m, s in REASSIGN_METHODS:
        out[f'to_mask:{m}'] = [(mk.bbox.ixmin, mk.bbox.ixmax, mk.bbox.iymin, mk.bbox.iymax, mk.data.shape, mk.data.tobytes())
                               for mk in ap.to_mask(method=m, subpixels=s)]
    return out


# how the positions are changed in a re-assignment case ('list': a new list of other values; 'ndarray': a new array of other
# values; '+=': augmented assignment ``ap.positions += (dx, dy)`` -- the stored array is changed in place and then handed to
# the setter; 'write+assign': ``a = ap.positions; a[0] = (x, y); ap.positions = a`` -- the caller writes into the stored
# array and assigns that very object).  For the last two the new positions are computed by the same numpy arithmetic on the
# check's own copy.
POS_IDIOMS = ['list', 'ndarray', '+=', 'write+assign']


def check_reassign(acc, family, p1, pos1, p2, pos2, positions_first=False, idiom='list'):
    """The cached state of an aperture (lazy bbox / centred edges / area, anything memoised by to_mask) must follow
    parameter re-assignment: build (p1, pos1), perform every read (bbox, area, to_mask with every method: fills the
    caches), then assign the parameters of p2 and the positions pos2 ONE AT A TIME; after every single assignment
    whose parameter set is a valid aperture, every read must equal that of a freshly constructed aperture with the
    same parameters (so each setter is judged on its own, not masked by the invalidation done by the next one; the
    fresh object itself is judged against the reference by the mask / bbox cases).  p1 / p2 carry the representation
    of theta ('trep'): the setter receives the same object a constructor would."""
    case = {'what': 'reassign', 'family': family, 'params_before': p1, 'positions_before': pos1, 'params': p2, 'positions': pos2,
            'positions_first': bool(positions_first), 'positions_idiom': idiom}
    acc.case(nontrivial=True, sample=case if acc.counters['reassign_cases'] % 997 == 1 else None)
    acc.counters['reassign_cases'] += 1
    acc.counters[f'reassign_cases_positions_{idiom}'] += 1
    skip = ('trep', 'tval')
    try:
        fresh1, fresh2 = build(family, p1, pos1), build(family, p2, pos2)
        ap = build(family, p1, pos1)
        _reads(ap)
        # current parameter set (None = derived default, resolved on the fresh objects, never on the one under test)
        cur = {k: (getattr(fresh1, k) if v is None else v) for k, v in p1.items()}
        cur_pos = pos1
        names = [k for k in p2 if k not in skip]
        # both orders of invalidation are enumerated by the caller (positions first / last)
        order = (['positions'] + names) if positions_first else (names + ['positions'])
        for step, nm in enumerate(order):
            if nm == 'positions':
                if idiom == 'list':
                    cur_pos = pos2
                    ap.positions = pos2
                elif idiom == 'ndarray':
                    cur_pos = pos2
                    ap.positions = np.array(pos2)
                elif idiom == '+=':
                    d = (pos2[0][0] - pos1[0][0], pos2[0][1] - pos1[0][1])
                    cur_pos = (np.array(pos1, dtype=float) + np.array(d)).tolist()
                    ap.positions += d
                elif idiom == 'write+assign':
                    cur_pos = [list(pos2[0])] + [list(q) for q in pos1[1:]]
                    a = ap.positions
                    a[0] = pos2[0]
                    ap.positions = a
                else:
                    raise ValueError(idiom)
            else:
                cur[nm] = getattr(fresh2, nm) if p2[nm] is None else p2[nm]
                if nm == 'theta':
                    for k in skip:
                        cur.pop(k, None)
                        if k in p2:
                            cur[k] = p2[k]
                    ap.theta = theta_arg(p2)
                else:
                    setattr(ap, nm, cur[nm])
            try:
                want = _reads(build(family, cur, cur_pos))
            except Exception:
                # the intermediate parameter set is not a valid aperture (e.g. r_in > r_out): not judged, but the
                # caches are re-filled as far as possible
                try:
                    _reads(ap)
                except Exception:
                    pass
                continue
            acc.counters['reassign_steps_judged'] += 1
            got = _reads(ap)
            # one report per assignment: the first read that differs (bbox, area, then the masks, which are built from
            # the box); the others are named in the detail
            differ = [what for what in want if got[what] != want[what]]
            for what in differ[:1]:
                tag = nm if (nm != 'positions' or idiom == 'list') else f'positions:{idiom}'
                acc.violation('stale-cache', f'{family}:{what}:after-{tag}', dict(case, step=step),
                              'differs from a fresh aperture' if 'mask' in what else got[what],
                              'same as fresh aperture' if 'mask' in what else want[what],
                              f'after assigning {order[:step + 1]} (last: {nm}, positions changed by {idiom!r}); parameters now {cur}, '
                              f'positions {cur_pos}; reads that differ: {differ}')
    except Exception as e:
        acc.violation('raises', f'{family}:reassign:{type(e).__name__}', case, repr(e), 'no exception')


def check_same_rep(acc, family, p, positions, rep, boxes, area, by_method, sel):
    """aperture of p with theta given in representation ``rep`` (exactly the same angle) vs the aperture of p"""
    case = {'family': family, 'params': p, 'positions': positions, 'index': 0, 'what': 'trep', 'trep': rep}
    q = dict(p, trep=rep, tval=p.get('tval', p['theta']))
    acc.case(nontrivial=p['theta'] != 0.0, sample=case if acc.counters['theta_representation_cases'] % 2003 == 7 else None)
    acc.counters['theta_representation_cases'] += 1
    try:
        alt = build(family, q, positions)
        ab = list(alt.bbox)
        if len(ab) != len(boxes) or any(not (ab[i] == boxes[i]) for i in sel):
            i = next((i for i in sel if i >= len(ab) or not (ab[i] == boxes[i])), 0)
            acc.violation('theta-representation', f'{family}:{rep}:bbox', dict(case, index=i),
                          repr(ab[i]) if i < len(ab) else len(ab), repr(boxes[i]),
                          f'theta={theta_arg(q)!r} vs theta={theta_arg(p)!r}')
        if not alt.area == area:
            acc.violation('theta-representation', f'{family}:{rep}:area', case, alt.area, 'area of the same aperture')
        for (method, s), masks in by_method.items():
            am = alt.to_mask(method=method, subpixels=s)
            for i in sel:
                if not same_mask(am[i], masks[i]):
                    acc.violation('theta-representation', f'{family}:{rep}:to_mask', dict(case, index=i, method=method, subpixels=s),
                                  'masks differ', 'bit-identical masks', f'theta={theta_arg(q)!r} vs theta={theta_arg(p)!r}')
                    break
    except Exception as e:
        acc.violation('raises', f'{family}:theta={rep}:{type(e).__name__}', case, repr(e), 'no exception')


def same_mask(a, b):
    return (a.bbox == b.bbox) and a.data.shape == b.data.shape and np.array_equal(a.data, b.data, equal_nan=True)


def run_group(acc, family, p, positions, methods, only=None, stats=None, reps=True):
    """One aperture object with a list of positions: bbox of every position, every method, plus the scalar
    aperture for position 0.  ``only`` = (index, what) restricts to one case (replay; ``methods`` then holds the
    single method of the case)."""
    case0 = {'family': family, 'params': p, 'positions': positions}
    what = None if only is None else only[1]
    sel = range(len(positions)) if only is None else [only[0]]
    try:
        ap = build(family, p, positions)
        boxes = list(ap.bbox)
        area = ap.area
    except Exception as e:  # the property quantifies over every valid aperture: construction must succeed
        acc.case(nontrivial=False)
        acc.violation('raises', f'{family}:construct:{type(e).__name__}', dict(case0, index=0, what='bbox'), repr(e), 'no exception')
        return
    outer, inner = model_shapes(family, p)
    want_area = G.area(outer) - (G.area(inner) if inner is not None else 0.0)
    if what in (None, 'bbox'):
        # area formula: a handful of multiplications (<= 4 ulp of the outer area; the annulus subtraction is the
        # same cancellation in both)
        if not abs(area - want_area) <= 1e-14 * G.area(outer):
            acc.violation('area', family, dict(case0, index=0, what='bbox'), area, want_area)
        if len(boxes) != len(positions):
            acc.violation('bbox-count', family, dict(case0, index=0, what='bbox'), len(boxes), len(positions))
            return
        for idx in sel:
            check_bbox(acc, family, p, positions, idx, boxes[idx])
    if what == 'bbox':
        return
    by_method = {}
    for method, s in methods:
        try:
            masks = ap.to_mask(method=method, subpixels=s)
        except Exception as e:
            acc.case(nontrivial=False)
            acc.violation('raises', f'{family}:to_mask:{method}:{type(e).__name__}',
                          dict(case0, index=0, method=method, subpixels=s), repr(e), 'no exception')
            continue
        if len(masks) != len(positions):
            acc.violation('mask-count', family, dict(case0, index=0, method=method, subpixels=s), len(masks), len(positions))
            continue
        by_method[(method, s)] = masks
        if what in (None, 'mask'):
            for idx in sel:
                check_mask(acc, family, p, positions, idx, method, s, masks[idx], boxes[idx], stats=stats)
    if what in (None, 'mask'):
        # cross-method identities (bit exact): center == subpixel(1); rectangle exact == subpixel(32)
        idents = [('center', ('subpixel', 1), 'center-vs-subpixel1')]
        if outer[0] == 'r':
            idents.append(('exact', ('subpixel', 32), 'rect-exact-vs-subpixel32'))
        for ma, kb, clause in idents:
            for ka in [k for k in by_method if k[0] == ma]:
                try:
                    other = by_method.get(kb) or ap.to_mask(method=kb[0], subpixels=kb[1])
                except Exception as e:
                    acc.violation('raises', f'{family}:to_mask:{kb[0]}:{type(e).__name__}',
                                  dict(case0, index=0, method=kb[0], subpixels=kb[1]), repr(e), 'no exception')
                    continue
                for idx in sel:
                    if not same_mask(by_method[ka][idx], other[idx]):
                        acc.violation(clause, family, dict(case0, index=idx, method=ka[0], subpixels=ka[1]),
                                      'masks differ', 'bit-identical masks')
    if what in (None, 'trep') and 'theta' in p and reps:
        # the same angle in another representation (same number in another type, or an Angle instead of a Quantity
        # of the same number and unit): bit-identical boxes and masks, every position, every method
        for rep in same_reps(p):
            if only is not None and what == 'trep' and only[2] != rep:
                continue
            check_same_rep(acc, family, p, positions, rep, boxes, area, by_method, sel)
    if what in (None, 'scalar'):
        # the scalar form of position 0 must give the same objects as entry 0 of the list form
        try:
            ap1 = build(family, p, tuple(positions[0]))
            b1 = ap1.bbox
            if isinstance(b1, list) or not (b1 == boxes[0]):
                acc.violation('scalar-vs-list', f'{family}:bbox', dict(case0, index=0, what='scalar'), repr(b1), repr(boxes[0]))
            for (method, s), masks in by_method.items():
                m1 = ap1.to_mask(method=method, subpixels=s)
                acc.counters['scalar_vs_list_comparisons'] += 1
                if isinstance(m1, list) or not same_mask(m1, masks[0]):
                    acc.violation('scalar-vs-list', f'{family}:to_mask', dict(case0, index=0, what='scalar', method=method, subpixels=s),
                                  'differs', 'scalar aperture mask == first mask of the list aperture')
        except Exception as e:
            acc.violation('raises', f'{family}:scalar:{type(e).__name__}', dict(case0, index=0, what='scalar'), repr(e), 'no exception')


# ---------------------------------------------------------------------------
# histories on ONE aperture object: what to_mask / bbox / area return must not depend on which other public calls were
# made with the aperture (or with the masks it handed out) before
# ---------------------------------------------------------------------------
HIST_METHODS_Q = [('exact', 5), ('center', 5), ('subpixel', 2)]
# ('subpixel', 1) is the same mask as 'center', ('subpixel', 5) the default sub-sampling
HIST_METHODS_T = HIST_METHODS_Q + [('subpixel', 1), ('subpixel', 5)]
HIST_METHODS = {'Q': HIST_METHODS_Q, 'T': HIST_METHODS_T}
HIST_IMG = (12, 11)                 # (ny, nx) of the image handed to the operations that take one
HIST_FORMS = ['scalar-inside', 'scalar-cut', 'list']
HIST_SHIFT = (1.25, -0.5)           # the 'set_positions' operation toggles between the positions and the shifted positions
HIST_GROW = {'circle': 'r', 'cannulus': 'r_out', 'ellipse': 'a', 'eannulus': 'a_out', 'rect': 'w', 'rannulus': 'w_out'}
# two shapes per family (second one: rotated, angle given as Quantity[deg] for the families that have one)
HIST_SHAPES = {
    'circle': [{'r': 1.5}, {'r': 3.3}],
    'cannulus': [{'r_in': 0.75, 'r_out': 1.5}, {'r_in': 3.3 * 0.9, 'r_out': 3.3}],
    'ellipse': [{'a': 2.0, 'b': 1.0, 'theta': PI / 8}, {'a': 3.3, 'b': 1.65, 'theta': 2.5}],
    'eannulus': [{'a_in': 1.25, 'a_out': 2.5, 'b_out': 1.25, 'b_in': None, 'theta': 1.0},
                 {'a_in': 1.65, 'a_out': 3.3, 'b_out': 1.65, 'b_in': 1.65 * 0.9, 'theta': 2.5}],
    'rect': [{'w': 2.0, 'h': 1.0, 'theta': PI / 8}, {'w': 3.5, 'h': 7.0, 'theta': 2.5}],
    'rannulus': [{'w_in': 1.5, 'w_out': 3.0, 'h_out': 1.5, 'h_in': None, 'theta': 1.0},
                 {'w_in': 1.75, 'w_out': 3.5, 'h_out': 7.0, 'h_in': 6.3, 'theta': 2.5}],
}


def hist_shape(family, k):
    p = HIST_SHAPES[family][k]
    return with_rep(p, 'Quantity[deg]') if (k == 1 and 'theta' in p) else dict(p)


# ways of changing a parameter of the aperture object itself (every one of them goes through the attribute's setter in the
# end; they differ in WHAT the setter is handed relative to what the aperture already stores):
#   set_positions        a new container (tuples) with other values
#   positions+=          augmented assignment: the STORED array is changed in place, then the setter receives that very array
#   positions[0]=        a = ap.positions; a[0] = ...; ap.positions = a  (stored array written by the caller, then re-assigned)
#   positions=own-array  the caller's own ndarray is assigned, a read follows, the caller changes ITS array and assigns the
#                        identical object again
#   positions=equal      assignments that change nothing (the stored object itself, an equal array, equal tuples)
#   param*=              augmented assignment of the first size parameter (an immutable float: new value through the setter)
#   theta+=              augmented assignment of the angle: the STORED Quantity is changed in place, then re-assigned
HIST_PARAM_OPS = [['set_positions'], ['positions+='], ['positions[0]='], ['positions=own-array'], ['positions=equal'], ['param*=']]
HIST_THETA_OPS = [['theta+=']]
HIST_SHIFT2 = 0.75                  # 'positions[0]=' adds / subtracts this to the first row (list form) / to x (scalar forms)
HIST_FACTOR = 1.25                  # 'param*=' multiplies / divides the first size parameter by this
HIST_DTHETA = {'rad': 0.25, 'deg': 15.0, 'arcmin': 900.0}      # 'theta+=' adds / subtracts this, in the unit the angle is stored in


def hist_ops(form, tag, family=None):
    """the operation alphabet of the history block (JSON lists, simplest first); ``family`` decides whether the angle
    operation exists (None: a family with an angle)"""
    ops = []
    for m, s in HIST_METHODS[tag]:
        ops.append(['to_mask', m, s])
    for m, s in HIST_METHODS[tag]:
        ops += [['area_overlap', m, s, 'nomask'], ['area_overlap', m, s, 'mask'],
                ['do_photometry', m, s, 'nomask'], ['do_photometry', m, s, 'mask']]
    ops += [['mask.multiply'], ['mask.cutout'], ['mask.get_values'], ['mask.to_image'], ['mask.write']]
    ops += [list(o) for o in HIST_PARAM_OPS]
    if family is None or family in THETA_FAMILIES:
        ops += [list(o) for o in HIST_THETA_OPS]
    ops += [['copy.modify']]
    if form == 'list':
        ops.append(['children'])
    ops.append(['ApertureStats'])
    if tag == 'T':
        ops.append(['aperture_photometry'])
    return ops


def _opkind(op):
    return op[0] + ('[mask]' if op[-1] == 'mask' else '')


def hist_config(family, k, form, seed):
    """-> dict(p, pos (two position sets: as given / shifted), data, error, bad)"""
    fx, fy = fracs(seed)
    inside = [5 + fx[5], 5 + fy[5]]
    cut = [0.5, 10 + fy[5]]                    # cut by the left and the top image edge
    off = [-40.0, 3.0 + fx[5]]                 # no overlap with the image
    pos = {'scalar-inside': inside, 'scalar-cut': cut, 'list': [inside, cut, off]}[form]
    if form == 'list':
        pos2 = [[x + HIST_SHIFT[0], y + HIST_SHIFT[1]] for x, y in pos]
    else:
        pos2 = [pos[0] + HIST_SHIFT[0], pos[1] + HIST_SHIFT[1]]
    rng = np.random.default_rng(7000 + seed)
    data = rng.normal(10.0, 3.0, size=HIST_IMG)
    error = rng.uniform(0.5, 1.5, size=HIST_IMG)
    yy, xx = np.indices(HIST_IMG)
    bad = (yy + 2 * xx) % 3 == 0               # every third pixel of every row and column
    return {'p': hist_shape(family, k), 'pos': [pos, pos2], 'data': data, 'error': error, 'bad': bad}


def _aslist(x):
    return list(x) if isinstance(x, (list, tuple)) else [x]


def _mask_key(mk):
    b = mk.bbox
    return (b.ixmin, b.ixmax, b.iymin, b.iymax, mk.data.shape, str(mk.data.dtype), mk.data.tobytes())


def _hreads(ap, methods):
    """every read of the property on an aperture (scalar or list), as comparable plain data"""
    out = {'bbox': [(b.ixmin, b.ixmax, b.iymin, b.iymax) for b in _aslist(ap.bbox)], 'area': ap.area}
    for m, s in methods:
        out[f'to_mask:{m}:{s}'] = [_mask_key(mk) for mk in _aslist(ap.to_mask(method=m, subpixels=s))]
    return out


def _hpos(pos, form):
    return tuple(pos) if form != 'list' else [tuple(q) for q in pos]


def _scribble(x, inputs):
    """the caller owns what a public call returned: overwrite every returned array (unless it is documented to be a
    view of one of OUR input arrays, or read-only)"""
    for a in (x if isinstance(x, (tuple, list)) else [x]):
        if isinstance(a, np.ndarray) and a.ndim > 0 and a.flags.writeable and not any(np.shares_memory(a, i) for i in inputs):
            a[...] = -1 if a.dtype.kind != 'b' else True


class _HistSkip(Exception):
    pass


def _vkey(v):
    return (float(v.value).hex(), str(v.unit)) if hasattr(v, 'unit') else float(v).hex()


class _HModel:
    """What the author of a history knows about the aperture: the positions and parameter values it was built with and
    every change made since, computed with the same numpy / float / Quantity arithmetic on the model's OWN objects (never
    read back from the aperture under test).  ``fresh()`` builds a new aperture with these values."""

    def __init__(self, family, form, cfg):
        self.family, self.form, self.cfg = family, form, cfg
        self.base = 0                                   # which of the two position sets 'set_positions' assigned last
        self.pos = np.array(cfg['pos'][0], dtype=float)
        self.over = {}                                  # parameters changed since construction (all resolved then)
        self.count = {}                                 # how often an operation ran (alternating sign / factor)
        self.resolved = False

    def turn(self, name):
        """+1 for the 1st, 3rd, ... application of an operation, -1 for the 2nd, 4th, ..."""
        n = self.count.get(name, 0)
        self.count[name] = n + 1
        return 1 if n % 2 == 0 else -1

    def key(self):
        return (self.pos.tobytes(), tuple(sorted((k, _vkey(v)) for k, v in self.over.items())))

    def params(self):
        p = self.cfg['p']
        if not self.over:
            return p
        p = {k: v for k, v in p.items() if k not in ('trep', 'tval') or 'theta' not in self.over}
        p.update({k: (v.copy() if hasattr(v, 'unit') else v) for k, v in self.over.items()})
        return p

    def fresh(self):
        return build(self.family, self.params(), _hpos(self.pos.tolist(), self.form))

    def value(self, name):
        """current value of a parameter (derived defaults -- b_in / h_in given as None -- are resolved on a fresh aperture
        of the construction parameters and from then on carried explicitly, as the aperture object does)"""
        if name not in self.over:
            v = self.cfg['p'][name]
            if name == 'theta':
                import astropy.units as u
                v = theta_arg(self.cfg['p'])
                return v.copy() if isinstance(v, u.Quantity) else u.Quantity(float(v), 'rad')
            return float(v)
        return self.over[name]

    def assign(self, name, value):
        if not self.resolved:
            self.resolved = True
            f0 = build(self.family, self.cfg['p'], _hpos(self.cfg['pos'][0], self.form))
            for k, v in self.cfg['p'].items():
                if v is None:
                    self.over[k] = float(getattr(f0, k))
        self.over[name] = value


def _hist_run(family, form, cfg, hist, methods, want):
    """Execute the history on ONE fresh aperture object.  -> list of (clause, readkind, observed, expected, detail).
    ``want(state)`` = reads of a freshly constructed aperture with the positions / parameter values of the model ``state``."""
    data, error, bad = cfg['data'].copy(), cfg['error'].copy(), cfg['bad'].copy()
    inputs = (data, error, bad)
    p = cfg['p']
    state = _HModel(family, form, cfg)
    ap = build(family, p, _hpos(cfg['pos'][0], form))
    held = []                       # [masks, bytes of their data when they were returned (or last written by us)]
    mism = []

    def masks_for_maskop():
        if not held:
            mk = _aslist(ap.to_mask())          # default arguments
            held.append([mk, [m_.data.tobytes() for m_ in mk]])
        return held[-1][0]

    for op in hist:
        nm = op[0]
        if nm == 'to_mask':
            mk = _aslist(ap.to_mask(method=op[1], subpixels=op[2]))
            got, exp = [_mask_key(m_) for m_ in mk], want(state)[f'to_mask:{op[1]}:{op[2]}']
            if got != exp:
                bad_i = [i for i in range(max(len(got), len(exp))) if i >= len(got) or i >= len(exp) or got[i] != exp[i]]
                mism.append(('history-dependent', 'to_mask', f'to_mask({op[1]!r}, subpixels={op[2]}) differs at positions {bad_i}',
                             'the masks of a fresh aperture', f'returned by operation {op} of the history'))
            held.append([mk, [m_.data.tobytes() for m_ in mk]])
        elif nm == 'area_overlap':
            _scribble(ap.area_overlap(data, mask=bad if op[3] == 'mask' else None, method=op[1], subpixels=op[2]), inputs)
        elif nm == 'do_photometry':
            _scribble(ap.do_photometry(data, error=error, mask=bad if op[3] == 'mask' else None, method=op[1], subpixels=op[2]), inputs)
        elif nm == 'mask.multiply':
            for m_ in masks_for_maskop():
                _scribble(m_.multiply(data), inputs)
                _scribble(m_.multiply(data, fill_value=np.nan), inputs)
        elif nm == 'mask.cutout':
            for m_ in masks_for_maskop():
                _scribble(m_.cutout(data), inputs)
                _scribble(m_.cutout(data, fill_value=np.nan, copy=True), inputs)
        elif nm == 'mask.get_values':
            for m_ in masks_for_maskop():
                _scribble(m_.get_values(data), inputs)
                _scribble(m_.get_values(data, mask=bad), inputs)
        elif nm == 'mask.to_image':
            for m_ in masks_for_maskop():
                _scribble(m_.to_image(HIST_IMG), inputs)
                m_.get_overlap_slices(HIST_IMG)
        elif nm == 'mask.write':
            mk = masks_for_maskop()
            if not all(m_.data.flags.writeable for m_ in mk):
                raise _HistSkip('returned mask data are read-only: the write operation is not available')
            for m_ in mk:
                m_.data[...] = 0.0
            held[-1][1] = [m_.data.tobytes() for m_ in mk]
        elif nm == 'set_positions':
            state.base = 1 - state.base
            state.pos = np.array(cfg['pos'][state.base], dtype=float)
            ap.positions = _hpos(cfg['pos'][state.base], form)
        elif nm == 'positions+=':
            d = tuple(state.turn(nm) * v for v in HIST_SHIFT)
            ap.positions += d                           # in place on the stored array, then the setter gets that array
            state.pos = state.pos + np.array(d)
        elif nm == 'positions[0]=':
            e = state.turn(nm) * HIST_SHIFT2
            a = ap.positions
            a[0] = a[0] + e                             # the caller writes into the array the aperture handed out ...
            ap.positions = a                            # ... and assigns it
            state.pos = state.pos.copy()
            state.pos[0] = state.pos[0] + e
        elif nm == 'positions=own-array':
            d = np.array([state.turn(nm) * v for v in HIST_SHIFT])
            arr = state.pos.copy()                      # the caller's own array
            ap.positions = arr
            _aslist(ap.bbox)                            # (any read)
            arr += d                                    # the caller changes its array ...
            ap.positions = arr                          # ... and assigns the identical object again
            state.pos = state.pos + d
        elif nm == 'positions=equal':
            ap.positions = ap.positions                 # the stored object itself, unchanged
            ap.positions = state.pos.copy()             # an equal array
            ap.positions = _hpos(state.pos.tolist(), form)      # equal tuples
        elif nm == 'param*=':
            g = HIST_GROW[family]
            if state.turn(nm) > 0:
                setattr(ap, g, getattr(ap, g) * HIST_FACTOR)    # ap.r *= 1.25
                state.assign(g, state.value(g) * HIST_FACTOR)
            else:
                setattr(ap, g, getattr(ap, g) / HIST_FACTOR)    # ap.r /= 1.25
                state.assign(g, state.value(g) / HIST_FACTOR)
        elif nm == 'theta+=':
            import astropy.units as u
            q = state.value('theta')
            dq = u.Quantity(state.turn(nm) * HIST_DTHETA[str(q.unit)], q.unit)
            ap.theta += dq                              # in place on the stored Quantity, then the setter gets that object
            state.assign('theta', q + dq)
        elif nm == 'copy.modify':
            c = ap.copy()
            c.area_overlap(data, mask=bad, method='exact')
            for m_ in _aslist(c.to_mask(method='center')):
                _scribble(m_.data, inputs)
            c.positions = _hpos(cfg['pos'][1 - state.base], form)
            setattr(c, HIST_GROW[family], getattr(c, HIST_GROW[family]) * 1.25)
            c.do_photometry(data, mask=bad, method='subpixel', subpixels=2)
            for m_ in _aslist(c.to_mask(method='exact')):
                _scribble(m_.data, inputs)
        elif nm == 'children':
            c = ap[0]
            c.area_overlap(data, mask=bad, method='exact')
            _scribble(c.to_mask(method='exact').data, inputs)
            c = ap[1:]
            c.do_photometry(data, mask=bad, method='center')
            for a_ in ap:
                _scribble(a_.to_mask(method='subpixel', subpixels=2).data, inputs)
        elif nm == 'ApertureStats':
            from photutils.aperture import ApertureStats
            st = ApertureStats(data, ap, error=error, mask=bad, sum_method='exact')
            _scribble([st.sum, st.sum_err, st.centroid, st.sum_aper_area.value], inputs)
        elif nm == 'aperture_photometry':
            from photutils.aperture import aperture_photometry
            aperture_photometry(data, ap, error=error, mask=bad, method='exact')
        else:
            raise ValueError(op)
    got, exp = _hreads(ap, methods), want(state)
    for what in exp:
        if got[what] != exp[what]:
            if what in ('bbox', 'area'):
                obs, ex_ = got[what], exp[what]
            else:
                bad_i = [i for i in range(len(exp[what])) if i >= len(got[what]) or got[what][i] != exp[what][i]] or [len(exp[what])]
                obs, ex_ = f'{what} differs at positions {bad_i}', 'the masks of a fresh aperture'
                try:                # (description only)
                    g_, e_ = np.frombuffer(got[what][bad_i[0]][-1]), np.frombuffer(exp[what][bad_i[0]][-1])
                    nd = int((g_ != e_).sum()) if g_.shape == e_.shape else -1
                    obs += f': {nd} weights of mask {bad_i[0]} differ, sum {float(g_.sum())!r}'
                    ex_ += f' (mask {bad_i[0]}: sum {float(e_.sum())!r})'
                except Exception:
                    pass
            mism.append(('history-dependent', what.split(':')[0], obs, ex_, f'read {what} after the history'))
    for mk, bts in held:
        ch = [i for i, m_ in enumerate(mk) if m_.data.tobytes() != bts[i]]
        if ch:
            mism.append(('returned-mask-changed', 'to_mask', f'masks {ch} handed out earlier changed afterwards', 'unchanged',
                         'a mask returned by to_mask was altered by later calls on the aperture / on other masks'))
            break
    return mism


def check_history(acc, family, k, form, tag, hist, seed, cfg=None, want=None):
    """one history (list of operations) on one fresh aperture object; afterwards bbox / area / to_mask(every method of
    the alphabet) must be those of a freshly built aperture with the current positions, every to_mask inside the
    history must have returned the fresh masks, and no mask handed out earlier may have changed (except by our own
    explicit write into it).  Only the SHORTEST failing history is reported: a failing history whose one-shorter prefix
    fails as well is a consequence of the defect already reported for the prefix (prefixes are enumerated too)."""
    methods = HIST_METHODS[tag]
    cfg = cfg or hist_config(family, k, form, seed)
    if want is None:
        memo = {}

        def want(state):
            k = state.key()
            if k not in memo:
                memo[k] = _hreads(state.fresh(), methods)
            return memo[k]
    case = {'what': 'history', 'family': family, 'hshape': k, 'form': form, 'methods': tag, 'history': [list(op) for op in hist],
            'params': cfg['p'], 'positions': cfg['pos'][0]}
    last = _opkind(hist[-1])
    try:
        mism = _hist_run(family, form, cfg, hist, methods, want)
    except _HistSkip as e:
        acc.skip(str(e))
        return
    except Exception as e:
        mism = [('raises', f'history:{type(e).__name__}', repr(e), 'no exception', f'history {hist}')]
    acc.case(nontrivial=any(op[0] != 'to_mask' for op in hist), sample=case if acc.counters['history_cases'] % 1009 == 3 else None)
    acc.counters['history_cases'] += 1
    if acc.counters['history_cases'] % 211 == 0:
        acc.outcome(hashlib.blake2b(repr(sorted(want(_HModel(family, form, cfg)).items())).encode() + bytes([len(hist)]), digest_size=8).hexdigest())
    if not mism:
        return
    if len(hist) > 1:
        try:
            pre = _hist_run(family, form, cfg, hist[:-1], methods, want)
        except Exception:
            pre = [None]
        if pre:
            acc.counters['history_cases_failing_after_a_failing_prefix'] += 1
            return
    seen = set()
    for clause, kind, obs, exp, detail in mism:
        site = f'{family}:{kind}:after-{last}'
        if (clause, site) in seen:
            continue
        seen.add((clause, site))
        acc.violation(clause, site, case, obs, exp, f'{detail}; history {[list(o) for o in hist]} on {family} {cfg["p"]} at {cfg["pos"][0]}')


def run_history_unit(acc, unit, seed):
    family, k, form, tag, depth = unit['family'], unit['hshape'], unit['form'], unit['methods'], unit['depth']
    cfg = hist_config(family, k, form, seed)
    methods = HIST_METHODS[tag]
    memo = {}

    def want(state):
        k = state.key()
        if k not in memo:
            memo[k] = _hreads(state.fresh(), methods)
        return memo[k]
    # non-triviality of the configuration, measured: the pixel mask handed to the masked operations is True on a pixel
    # that carries weight in the fresh exact mask of the first position
    try:
        mk = _aslist(build(family, cfg['p'], _hpos(cfg['pos'][0], form)).to_mask(method='exact'))[0]
        sl, ss = mk.get_overlap_slices(HIST_IMG)
        if sl is None or not (mk.data[ss][cfg['bad'][sl]] > 0).any():
            acc.notes.append(f'history configuration {family}/{k}/{form}: pixel mask misses the footprint')
            acc.counters['history_configurations_with_pixel_mask_outside_footprint'] += 1
    except Exception as e:
        acc.violation('raises', f'{family}:history-config:{type(e).__name__}', {'what': 'history', 'family': family, 'hshape': k, 'form': form,
                                                                                'methods': tag, 'history': [['to_mask', 'exact', 5]]}, repr(e), 'no exception')
        return
    ops = hist_ops(form, tag, family)
    firsts = ops if unit.get('first') is None else [ops[unit['first']]]
    for n in range(1, depth + 1):
        for f in firsts:
            for rest in itertools.product(ops, repeat=n - 1):
                check_history(acc, family, k, form, tag, [f] + list(rest), seed, cfg=cfg, want=want)


# ---------------------------------------------------------------------------
# integer box logic (always exhaustive)
# ---------------------------------------------------------------------------
BOX_LO = range(-6, 7)
BOX_WH = range(1, 5)
IMG = range(1, 6)


def check_overlap(acc, ixmin, iymin, w, h, ny, nx):
    from photutils.aperture import ApertureMask, BoundingBox
    case = {'what': 'overlap', 'ixmin': ixmin, 'iymin': iymin, 'w': w, 'h': h, 'shape': [ny, nx]}
    box = {(y, x) for y in range(iymin, iymin + h) for x in range(ixmin, ixmin + w)}
    common = {(y, x) for (y, x) in box if 0 <= y < ny and 0 <= x < nx}
    acc.case(nontrivial=bool(common) and len(common) < len(box), sample=case if acc.evaluations % 9973 == 5 else None)
    site = 'none' if not common else ('partial' if len(common) < len(box) else 'inside')
    wdata = (np.arange(h * w, dtype=float).reshape(h, w) + 1.0) / 32.0      # distinct non-zero weights
    data = np.arange(ny * nx, dtype=float).reshape(ny, nx) + 100.0
    try:
        bb = BoundingBox(ixmin, ixmin + w, iymin, iymin + h)
        sl, ss = bb.get_overlap_slices((ny, nx))
        m = ApertureMask(wdata, bb)
        sl2, ss2 = m.get_overlap_slices((ny, nx))
    except Exception as e:
        acc.violation('raises', f'get_overlap_slices:{type(e).__name__}', case, repr(e), 'no exception')
        return
    img = 'raised'
    cuts = []
    try:
        img = m.to_image((ny, nx))
    except Exception as e:
        acc.violation('to_image', f'raises:{type(e).__name__}', case, repr(e), 'no exception')
    try:
        cuts = [(fv, cp, m.cutout(data, fill_value=fv, copy=cp)) for fv in (0.0, -7.5, float('nan')) for cp in (False, True)]
    except Exception as e:
        acc.violation('cutout', f'raises:{type(e).__name__}', case, repr(e), 'no exception')
    acc.outcome(repr((sl, ss)))
    if (sl, ss) != (sl2, ss2):
        acc.violation('overlap-slices', 'mask!=bbox', case, (sl2, ss2), (sl, ss))
    if not common:
        if sl is not None or ss is not None:
            acc.violation('overlap-slices', 'none-iff-empty:returned-slices', case, (sl, ss), None)
        if img is not None and not isinstance(img, str):
            acc.violation('to_image', 'none-iff-empty', case, 'array', None)
        if any(c is not None for _, _, c in cuts):
            acc.violation('cutout', 'none-iff-empty', case, 'array', None)
        return
    if sl is None or ss is None:
        acc.violation('overlap-slices', 'none-iff-empty:returned-none', case, None, sorted(common)[:4])
        return
    L = {(y, x) for y in range(*sl[0].indices(ny)) for x in range(*sl[1].indices(nx))}
    S = {(y + iymin, x + ixmin) for y in range(*ss[0].indices(h)) for x in range(*ss[1].indices(w))}
    # the two slice pairs must also be aligned element by element (same shape, same first pixel)
    if L != common:
        acc.violation('overlap-slices', f'large:{site}', case, sorted(L)[:6], sorted(common)[:6])
    if S != common:
        acc.violation('overlap-slices', f'small:{site}', case, sorted(S)[:6], sorted(common)[:6])
    for sli in (sl, ss):
        for q in sli:
            if q.step not in (None, 1) or q.start is None or q.stop is None or q.start < 0 or q.stop < q.start:
                acc.violation('overlap-slices', 'slice-form', case, repr(sli), 'non-negative start <= stop, unit step')
    want = np.zeros((ny, nx))
    for (y, x) in common:
        want[y, x] = wdata[y - iymin, x - ixmin]
    if isinstance(img, str):
        pass                                   # already reported as to_image|raises
    elif img is None or img.shape != (ny, nx) or not np.array_equal(img, want):
        acc.violation('to_image', site, case, None if img is None else img.tolist(), want.tolist())
    for fv, cp, cut in cuts:
        wantc = np.full((h, w), fv)
        for (y, x) in common:
            wantc[y - iymin, x - ixmin] = data[y, x]
        if cut is None or cut.shape != (h, w) or not np.array_equal(cut, wantc, equal_nan=True):
            acc.violation('cutout', f'{site}:fill={fv}', case, None if cut is None else cut.tolist(), wantc.tolist())
        elif cp and np.shares_memory(cut, data):
            acc.violation('cutout', 'copy=True-shares-memory', case, 'view', 'copy')


def check_pair(acc, a, b):
    """a, b = (ixmin, iymin, w, h): union is the smallest box containing both pixel sets; intersection selects
    exactly the common pixels (None or an empty box when there are none)."""
    from photutils.aperture import BoundingBox
    case = {'what': 'pair', 'a': list(a), 'b': list(b)}
    A = BoundingBox(a[0], a[0] + a[2], a[1], a[1] + a[3])
    B = BoundingBox(b[0], b[0] + b[2], b[1], b[1] + b[3])
    sa = {(y, x) for y in range(a[1], a[1] + a[3]) for x in range(a[0], a[0] + a[2])}
    sb = {(y, x) for y in range(b[1], b[1] + b[3]) for x in range(b[0], b[0] + b[2])}
    both = sa | sb
    common = sa & sb
    acc.case(nontrivial=bool(common) and sa != sb)
    try:
        U = A.union(B)
        U2 = A | B
        I_ = A.intersection(B)
        I2 = A & B
    except Exception as e:
        acc.violation('raises', f'pair:{type(e).__name__}', case, repr(e), 'no exception')
        return
    ys = [q[0] for q in both]
    xs = [q[1] for q in both]
    wantU = (min(xs), max(xs) + 1, min(ys), max(ys) + 1)
    if (U.ixmin, U.ixmax, U.iymin, U.iymax) != wantU or not (U == U2):
        acc.violation('union', 'box', case, repr(U), wantU)
    got = set() if I_ is None else {(y, x) for y in range(I_.iymin, I_.iymax) for x in range(I_.ixmin, I_.ixmax)}
    if got != common:
        acc.violation('intersection', 'overlapping' if common else 'disjoint', case, repr(I_), sorted(common)[:6])
    if (I_ is None) != (I2 is None) or (I_ is not None and not (I_ == I2)):
        acc.violation('intersection', 'operator', case, repr(I2), repr(I_))


FF_INT = [0, -3, 2, 1000]
FF_FRAC = [0.0, 0.25, 0.5 - 1e-9, 0.5, 0.5 + 1e-9, 0.75, -0.5, 0.5 - 2.0 ** -40]


def check_from_float(acc, xmin, xmax, ymin, ymax):
    """BoundingBox.from_float(xmin, xmax, ymin, ymax) is the smallest box whose pixels contain the rectangle
    [xmin, xmax] x [ymin, ymax]; inputs are taken as exact binary floats (rational arithmetic), an end within
    16 ulp of -- but not on -- a pixel edge admits both neighbours."""
    from photutils.aperture import BoundingBox
    case = {'what': 'from_float', 'args': [xmin, xmax, ymin, ymax]}
    acc.case(nontrivial=True, sample=case if acc.evaluations % 4001 == 2 else None)
    try:
        bb = BoundingBox.from_float(xmin, xmax, ymin, ymax)
    except Exception as e:
        acc.violation('raises', f'from_float:{type(e).__name__}', case, repr(e), 'no exception')
        return
    for nm, lo, hi, imin, imax in (('x', xmin, xmax, bb.ixmin, bb.ixmax), ('y', ymin, ymax, bb.iymin, bb.iymax)):
        c = (Fraction(lo) + Fraction(hi)) / 2
        e = (Fraction(hi) - Fraction(lo)) / 2
        mins, maxs = _box_frac(c, e, abs(lo) + abs(hi) + 1.0)
        if imin not in mins or imax not in maxs:
            acc.violation('from_float', f'{nm}:{"point" if lo == hi else "interval"}', case, (imin, imax), (sorted(mins), sorted(maxs)))


def _box_frac(c, e, scale):
    lo, hi = c - e, c + e
    half = Fraction(1, 2)
    tol = Fraction(16 * 2.220446049250313e-16 * scale)
    mins, maxs = {math.floor(lo + half)}, {math.ceil(hi + half)}
    for end, cands in ((lo, mins), (hi, maxs)):
        k = math.floor(end + half)
        for edge in (k - half, k + half):
            d = abs(end - edge)
            if 0 < d <= tol:
                mm = int(edge + half)
                cands.update({mm - 1, mm} if cands is mins else {mm, mm + 1})
    return mins, maxs


# ---------------------------------------------------------------------------
# plan / run / replay
# ---------------------------------------------------------------------------

def history_units(tier):
    """quick: every history up to depth 2 over the 3-method alphabet for 6 families x 2 shapes x 3 forms, and every history
    up to depth 3 for the first shape of every family in list form.  thorough: every history up to depth 3 over the
    3-method alphabet for all 36 configurations, and up to depth 2 over the 5-method alphabet (+ aperture_photometry).
    Depth-3 explorations are sharded by their first operation."""
    units = []
    for fam in FAMILIES:
        for k in range(len(HIST_SHAPES[fam])):
            for form in HIST_FORMS:
                base = {'kind': 'history', 'family': fam, 'hshape': k, 'form': form}
                deep = tier == 'thorough' or (k == 0 and form == 'list')
                if tier == 'thorough':
                    units.append(dict(base, methods='T', depth=2, first=None))
                if deep:
                    for i in range(len(hist_ops(form, 'Q', fam))):
                        units.append(dict(base, methods='Q', depth=3, first=i))
                else:
                    units.append(dict(base, methods='Q', depth=2, first=None))
    return units


def plan(tier, seed):
    units = []
    for fam in FAMILIES:
        shapes = shape_list(fam, tier)
        # cost-balanced chunks: weight ~ groups * methods * (box area) ; simply chunk by count, big sizes alone
        chunk = []
        wsum = 0.0
        for k, (p, size) in enumerate(shapes):
            wgt = (size + 2.0) ** 2 * len(centre_groups(seed, centre_level(fam, tier, size)))
            if chunk and wsum + wgt > (30000.0 if tier == 'thorough' else 6000.0):
                units.append({'kind': 'masks', 'family': fam, 'shapes': chunk})
                chunk, wsum = [], 0.0
            chunk.append(k)
            wsum += wgt
        if chunk:
            units.append({'kind': 'masks', 'family': fam, 'shapes': chunk})
    units += history_units(tier)
    for ix in BOX_LO:
        units.append({'kind': 'overlap', 'ixmin': ix})
    rng = 4 if tier == 'thorough' else 3
    for ix in range(-rng, rng + 1):
        units.append({'kind': 'pairs', 'ixmin': ix, 'range': rng})
    for ip in FF_INT:
        units.append({'kind': 'from_float', 'ipart': ip})
    # longest first so that the pool is balanced
    units.sort(key=lambda u: 0 if u['kind'] == 'masks' else 1)
    return units


def run_unit(unit, tier, seed):
    acc = Acc()
    kind = unit['kind']
    if kind == 'masks':
        fam = unit['family']
        shapes = shape_list(fam, tier)
        prev = None
        for k in unit['shapes']:
            p, size = shapes[k]
            methods = methods_for(tier, size, fam)
            groups = centre_groups(seed, centre_level(fam, tier, size))
            for gi, positions in enumerate(groups):
                # the same-angle representations: every group up to size 30, first group beyond
                run_group(acc, fam, p, positions, methods, reps=(gi == 0 or size <= 30))
            if fam in THETA_FAMILIES:
                # the angle given in another unit: every shape x every method x first centre group
                for rep in TREPS_UNIT:
                    run_group(acc, fam, with_rep(p, rep), groups[0], methods)
            if prev is not None and size <= 30:
                p1, p2 = prev[0], p
                if fam in THETA_FAMILIES:
                    # (order, representation assigned, representation before): full product over 72 consecutive shapes
                    p1 = with_rep(p1, REASSIGN_REPS[(k // 12) % len(REASSIGN_REPS)])
                    p2 = with_rep(p2, REASSIGN_REPS[(k // 2) % len(REASSIGN_REPS)])
                # (the way the positions are changed is the slowest axis of the rotation: 6 x 6 x 2 x 4 over 288 consecutive
                # shapes; families without an angle: 2 x 4 over 8)
                idiom = POS_IDIOMS[((k // 72) if fam in THETA_FAMILIES else (k // 2)) % len(POS_IDIOMS)]
                check_reassign(acc, fam, p1, prev[1], p2, groups[-1], positions_first=bool(k % 2), idiom=idiom)
            prev = (p, groups[0])
    elif kind == 'history':
        run_history_unit(acc, unit, seed)
    elif kind == 'overlap':
        ix = unit['ixmin']
        for iy, w, h, ny, nx in itertools.product(BOX_LO, BOX_WH, BOX_WH, IMG, IMG):
            check_overlap(acc, ix, iy, w, h, ny, nx)
    elif kind == 'pairs':
        r = unit['range']
        wh = range(1, 5) if tier == 'thorough' else range(1, 4)
        boxes = list(itertools.product(range(-r, r + 1), range(-r, r + 1), wh, wh))
        for a in boxes:
            if a[0] != unit['ixmin']:
                continue
            for b in boxes:
                check_pair(acc, a, b)
    elif kind == 'from_float':
        vals = sorted({ip + f for ip in (unit['ipart'],) for f in FF_FRAC})
        allv = sorted({ip + f for ip in FF_INT for f in FF_FRAC})
        ys = [-3 + 0.25, 0.5, 2 + 0.5 - 1e-9]
        for xmin in vals:
            for xmax in allv:
                if xmax < xmin:
                    continue
                # the y interval is enumerated independently (same code path): a small product suffices
                for ymin, ymax in ((ys[0], ys[1]), (ys[1], ys[1]), (ys[1], ys[2]), (xmin, xmax)):
                    check_from_float(acc, xmin, xmax, ymin, ymax)
    else:
        raise ValueError(kind)
    return acc


def replay(case, seed):
    acc = Acc()
    what = case.get('what', 'mask')
    if what == 'overlap':
        check_overlap(acc, case['ixmin'], case['iymin'], case['w'], case['h'], *case['shape'])
    elif what == 'pair':
        check_pair(acc, tuple(case['a']), tuple(case['b']))
    elif what == 'from_float':
        check_from_float(acc, *case['args'])
    elif what == 'history':
        check_history(acc, case['family'], case['hshape'], case['form'], case['methods'], case['history'], seed)
    elif what == 'reassign':
        check_reassign(acc, case['family'], case['params_before'], case['positions_before'], case['params'], case['positions'],
                       positions_first=case.get('positions_first', False), idiom=case.get('positions_idiom', 'list'))
    else:
        fam, p, positions = case['family'], case['params'], case['positions']
        method, s = case.get('method', 'center'), case.get('subpixels', 5)
        run_group(acc, fam, p, positions, [(method, s)], only=(case['index'], what, case.get('trep')))
    return acc


def describe(tier, seed):
    fx, fy = fracs(seed)
    fams = {}
    for fam in FAMILIES:
        shapes = shape_list(fam, tier)
        nap = sum(sum(len(g) for g in centre_groups(seed, centre_level(fam, tier, size))) for _, size in shapes)
        nmask = sum(sum(len(g) for g in centre_groups(seed, centre_level(fam, tier, size))) * len(methods_for(tier, size, fam))
                    for _, size in shapes)
        fams[fam] = {'shapes': len(shapes), 'aperture_positions': nap, 'masks': nmask}
        if fam in THETA_FAMILIES:
            fams[fam]['masks_with_theta_in_deg_or_arcmin'] = sum(
                len(centre_groups(seed, centre_level(fam, tier, size))[0]) * len(methods_for(tier, size, fam)) * len(TREPS_UNIT)
                for _, size in shapes)
            fams[fam]['apertures_rebuilt_in_an_equivalent_theta_representation'] = sum(
                (len(centre_groups(seed, centre_level(fam, tier, size))) if size <= 30 else 1) * len(same_reps(p))
                + len(TREPS_UNIT) * 1 for p, size in shapes)
    return {'alphabet': {
        'families': fams,
        'centre_integer_parts': [list(ip) for ip in IPARTS],
        'centre_fraction_x': fx, 'centre_fraction_y': fy,
        'radii': RADII + (BIG if tier == 'thorough' else []),
        'axis_ratios_b_over_a': ELL_Q, 'rect_h_over_w': RECT_Q, 'rect_widths': RECT_W,
        'thetas': THETAS, 'thetas_in_degrees_for_unit_representations': THETAS_DEG,
        'theta_representations': {'main product': 'float (radians)', 'bit-identical to float, every centre group (thorough: first group only beyond size 30)': TREPS_EXACT,
                                  'judged against the reference, first centre group x every method': TREPS_UNIT,
                                  'bit-identical to the Quantity of the same number and unit': TREPS_SAME},
        'reassign': {'reads_before_and_after_every_assignment': ['bbox', 'area'] + [f'to_mask:{m}({k})' for m, k in REASSIGN_METHODS],
                     'theta_representations_before_x_assigned': REASSIGN_REPS, 'orders': ['parameters then positions', 'positions then parameters'],
                     'positions_changed_by': {'list': 'ap.positions = new list', 'ndarray': 'ap.positions = new ndarray',
                                              '+=': 'ap.positions += (dx, dy) (in place on the stored array, which the setter then receives)',
                                              'write+assign': 'a = ap.positions; a[0] = (x, y); ap.positions = a'},
                     'rule': 'consecutive shapes of a unit with size <= 30; judged after every single assignment that leaves a valid aperture; '
                             'order x theta representation assigned x before x positions idiom = mixed-radix digits of the shape index (2 x 6 x 6 x 4)'},
        'annulus_ratios': RATIOS + ['0.5 with explicit b_in/h_in = 0.9 b_out/h_out'],
        'methods': [list(m) for m in (METHODS_T if tier == 'thorough' else METHODS_Q)],
        'methods_circle_families': [list(m) for m in METHODS_T],
        'method_rule': 'subpixels=32 for sizes <= 7.07 (rectangles at all sizes via exact); subpixels >= 3 for sizes <= 25',
        'centre_rule': 'quick: circle: 4 integer parts x 6 x 6; other families (3,-7) x {0,1/2,1/3,g}^2 + (-7,1000) x {1/4,1/2-1e-9}^2; size >= 25: 5 centres. '
                       'thorough: circle, circular annulus, ellipse, rectangle 4 x 6 x 6; elliptical / rectangular annulus (3,-7) x 6 x 6 + 3 integer parts x 3 x 3; size > 20: 20 centres; size > 60: 5',
        'overlap_boxes': 'ixmin, iymin in [-6, 6], w, h in 1..4, image shapes 1..5 x 1..5 (67 600 cases) x cutout fill {0, -7.5, nan} x copy',
        'box_pairs': 'all ordered pairs of boxes with ixmin, iymin in [-r, r], w, h in 1..m (quick r=3, m=3; thorough r=4, m=4)',
        'from_float': 'xmin in {0,-3,2,1000} + {0, .25, .5-1e-9, .5, .5+1e-9, .75, -.5, .5-2^-40}, xmax >= xmin from the same 32 values',
        'history': describe_history(tier, seed),
    }}


def describe_history(tier, seed):
    us = history_units(tier)

    def nhist(u):
        n = len(hist_ops(u['form'], u['methods'], u['family']))
        tot = sum(n ** d for d in range(1, u['depth'] + 1))
        return tot if u['first'] is None else tot // n
    cfg = hist_config('circle', 0, 'list', seed)
    return {
        'what': 'all sequences of operations up to the depth, each executed on ONE fresh aperture object; afterwards bbox / area / to_mask '
                '(every method of the alphabet) are compared with a freshly built aperture, every to_mask inside the history likewise, and '
                'every mask handed out during the history must be unchanged',
        'operations_list_form': {t: hist_ops('list', t) for t in sorted({u['methods'] for u in us})},
        'operations_scalar_forms': "the same without ['children']",
        'operations_families_without_angle': "the same without ['theta+=']",
        'alphabet_size': {fam: {form: len(hist_ops(form, 'Q', fam)) for form in HIST_FORMS} for fam in FAMILIES},
        'operation_meaning': {
            'to_mask': 'ap.to_mask(method, subpixels); the result is compared with the fresh masks and kept',
            'area_overlap / do_photometry': "ap.<op>(data[, error], mask=None | pixel mask, method, subpixels); the returned arrays are overwritten",
            'mask.*': 'on the masks most recently handed out by to_mask (none yet: ap.to_mask() with default arguments): multiply (fill 0 / nan), '
                      'cutout (view / copy with fill nan), get_values (without / with pixel mask), to_image + get_overlap_slices; returned arrays '
                      'that are not views of our data are overwritten; mask.write = mask.data[...] = 0 by the caller (skipped when read-only)',
            'set_positions': f'ap.positions = new tuples: the construction positions shifted by {list(HIST_SHIFT)} / the construction positions (the fresh aperture follows)',
            'positions+=': f'ap.positions += {list(HIST_SHIFT)} (1st, 3rd application) / -= (2nd): in place on the stored array, then the setter receives that array',
            'positions[0]=': f'a = ap.positions; a[0] = a[0] + {HIST_SHIFT2} (/ - {HIST_SHIFT2}); ap.positions = a  (first position of the list form, x of the scalar forms)',
            'positions=own-array': f'arr = own ndarray of the current positions; ap.positions = arr; ap.bbox; arr += {list(HIST_SHIFT)} (/ -=); ap.positions = arr',
            'positions=equal': 'ap.positions = ap.positions; ap.positions = an equal array; ap.positions = equal tuples (nothing changes)',
            'param*=': f'ap.<first size parameter> *= {HIST_FACTOR} (1st, 3rd application) / /= {HIST_FACTOR} (2nd); parameter per family: {HIST_GROW}',
            'theta+=': f'ap.theta += dq (/ -= dq), dq = {HIST_DTHETA} in the unit the angle is stored in: in place on the stored Quantity, then the setter receives it '
                       '(families with an angle only)',
            'model': 'positions / parameters after every operation are computed by the check on its own copies with the same arithmetic; the fresh aperture '
                     'is built from them (derived b_in / h_in are carried explicitly once a parameter was assigned)',
            'copy.modify': 'c = ap.copy(): area_overlap with pixel mask, masks of c overwritten, positions and first size parameter of c re-assigned, do_photometry',
            'children': 'ap[0].area_overlap(pixel mask), its mask overwritten; ap[1:].do_photometry; masks of every "for a in ap" child overwritten',
            'ApertureStats / aperture_photometry': 'built on the aperture object with error and pixel mask; sum, sum_err, centroid, sum_aper_area read',
        },
        'configurations': {'families': FAMILIES, 'shapes': {fam: [hist_shape(fam, k) for k in range(2)] for fam in FAMILIES},
                           'forms': {'scalar-inside': 'scalar aperture inside the image', 'scalar-cut': 'scalar aperture cut by two image edges',
                                     'list': 'three positions: inside, cut by two edges, no overlap with the image'},
                           'positions_of_the_list_form': cfg['pos'][0], 'image_shape': list(HIST_IMG),
                           'pixel_mask': 'True where (y + 2x) % 3 == 0 (measured per configuration: hits a pixel of non-zero exact weight)'},
        'explorations': sorted({(u['hshape'], u['form'], u['methods'], u['depth']) for u in us}),
        'histories_per_family': {fam: sum(nhist(u) for u in us if u['family'] == fam) for fam in FAMILIES},
        'reporting_rule': 'a failing history is reported only when the history without its last operation passes (the site names that last operation)',
    }
