"""C14 -- find_peaks and the star finders return exactly what their contract selects.

Shape (C), two families of work units.

(1) find_peaks: ALL images of a small shape over a small pixel alphabet x footprint x
    border_width x threshold x mask x npeaks (x centroid_func), each executed on the real
    find_peaks and compared with a pixel-by-pixel reference (mcphot/ref/peaks.py) that never
    calls scipy's maximum_filter.  The threshold axis holds scalars AND 2-D maps; the 2-D map is
    itself enumerated: every assignment of a {low, high} (thorough: also a 3-level) alphabet to
    the pixels of the map on the 2x3 spaces, a structured family (checkerboards, stripes,
    diagonal, one high / one low pixel at each position) on the 3x3 spaces, each crossed with
    ALL images -- so the threshold really varies at the pixel scale and a pixel is judged against
    its OWN threshold while the neighbourhood maximum is over the RAW data.

(2) DAOStarFinder / IRAFStarFinder / StarFinder: a list of small synthetic scenes x kernel
    parameters x min_separation x exclude_border x mask, and for each of them EVERY bound
    (sharplo/sharphi/roundlo/roundhi/peakmax) set exactly to, and just beyond, EVERY reported
    value of the unrestricted run, every brightest=n, and xycoords.  Contract oracle only
    (DESIGN C14): no re-derivation of the DAOFIND fits.  The scenes include background-subtracted
    noise (zero mean, noise-level detections at a ~1.3 sigma threshold); on those EVERY pixel is
    also a supplied position.  Every returned row is tied to its OWN peak / supplied position
    (single-position runs), and its centroid must lie in the kernel box of that one.

(3) signed-patch mosaics: ALL patches of a 9-cell template over a {negative, zero, positive}
    alphabet, laid out as isolated tiles of one image; every tile centre (and off-centre pixels)
    is a supplied position (xycoords replaces peak finding, so every patch reaches the centroid
    computation, including its fall-back branches that only signed data can reach), and the
    peak-finding call runs on the same image.  Per-row contract oracle as in (2).
"""
import itertools
import math
import warnings

import numpy as np

from ..ref import peaks as R
from ..runner import Acc

PROPERTY = 'C14'
LEVEL = 'exploration'
RULE = ('find_peaks: full Cartesian product of every image of the listed shape over the listed pixel alphabet x '
        'footprint x border_width x threshold x mask x npeaks (x centroid) per space (spaces listed under '
        '"alphabet"); the threshold axis holds scalars and 2-D maps, and an "all:<levels>" entry stands for EVERY '
        'map of the image shape over that level alphabet (levels**pixels maps, e.g. 64 two-level maps on 2x3), a '
        '"struct:<levels>" entry for the structured family (checkerboards, row / column stripes, diagonal, one high '
        'and one low pixel at each position); every such map is crossed with every image of the space, so each '
        'placement of "exceeds / does not exceed its own threshold" around each arrangement of values occurs; '
        'a case is non-trivial when the image is not constant and the reference selects at least one '
        'peak but not every pixel.  Star finders: full product scene x finder configuration x mask, and inside it '
        'one call per (bound, reported value, exactly-at / just-beyond), per brightest=n and per xycoords list; a '
        'call is non-trivial when the unrestricted run of its configuration returns at least one row.  Every '
        'contract peak of a detection family is re-run as a single supplied position (row <-> own peak); on the '
        'noise-dominated scenes every pixel of the image is a supplied position, fed in the residue classes modulo '
        '(2*ky+1, 2*kx+1) so that each returned row is attributable.  Signed-patch mosaics: full product of every '
        'assignment of the alphabet to the cells of the template x finder configuration x offset of the supplied '
        'position (per finder: see "signed_patch_mosaics"), 19683 tiles per call; one case per supplied position, '
        'non-trivial when the patch holds both a negative and a positive value (only then can a first-moment or '
        'fitted shift leave the kernel box); plus one peak-finding call per mosaic.')
ASSUMPTIONS = ['numpy elementwise arithmetic/comparisons are trusted; scipy.ndimage.maximum_filter and '
               'scipy.ndimage.convolve are NOT trusted (re-derived in mcphot/ref/peaks.py)',
               'the density-enhancement kernel array of DAOStarFinder/IRAFStarFinder (finder.kernel.data/.mask/.relerr) '
               'is taken from the implementation: the check is about which sources are selected, not about the kernel formula',
               'find_peaks images are at most 3x4; star-finder scenes are 21x25 with at most 3 sources (or pure noise)',
               'find_peaks 2-D thresholds: complete over 2 levels (thorough: 3 levels) only on 2x3 images; on 3x3 images '
               'only the structured family and the legacy 3-level cycling maps (mapP / mapN); the levels are tied to the '
               'pixel alphabet (one level below the large values, one equal to the largest value), maps with generic real '
               'levels or on larger images are not enumerated; a threshold map never contains NaN',
               'signed-patch mosaics: the patches are tiles of ONE image, separated by more than a kernel of zeros, and '
               'are measured by one batched xycoords call (documented: one row per supplied position, in order); a row '
               'is attributed to the tile nearest to its centroid, an unattributable row is re-run as a single-tile '
               'image and reported as that case.  Patches differ from zero only in 9 cells with 3 (thorough: up to 4) '
               'levels; values inside a kernel box beyond that are covered only by the noise scenes (generic reals)',
               'on the mosaics the peak-finding call is judged only by "centroid within the kernel box of a possible '
               'peak of the independently convolved image" (exact ties make the peak set ambiguous there); the peak '
               'set itself is judged on the scenes',
               'NaN neighbours are read as "no value" (they never compete); a NaN pixel itself never exceeds a threshold',
               'constant images are a documented special case of find_peaks (None + warning) and are not judged']

NAN = float('nan')

# ---------------------------------------------------------------------------------------------
# find_peaks spaces
# ---------------------------------------------------------------------------------------------
ALPHA = {
    'P': (0.0, 1.0, 2.0),                    # ties / plateaus / value == threshold
    'N': (-2.0, -1.0, 0.0, 1.0, NAN),        # negative regions, zero padding, NaN
    'M': (-2.0, -1.0, NAN),                  # all-negative images (quick stand-in for N on 3x3)
}
FOOT = {
    'box3': None,                                        # box_size=3
    'cross': [[0, 1, 0], [1, 1, 1], [0, 1, 0]],
    'row13': 'box(1,3)',                                 # box_size=(1, 3)  (ny, nx)
    'ell': [[1, 1, 0], [0, 1, 0], [0, 0, 0]],            # asymmetric footprint (not flipped)
}
FOOT_ARR = {'box3': np.ones((3, 3), bool), 'cross': np.array(FOOT['cross'], bool),
            'row13': np.ones((1, 3), bool), 'ell': np.array(FOOT['ell'], bool)}
# threshold forms: numbers, or a 2-D map built from three levels cycling over the pixels
THRMAP = {'mapP': (0.5, 1.0, 1.5), 'mapN': (-1.5, -1.0, -3.0)}
# ... or an ENUMERATED 2-D map: every pixel of the map takes its own symbol of a level alphabet.  The levels are
# chosen against the pixel alphabet so that a map pixel can be "low" (the larger image values exceed it) or "high"
# (== the largest image value: nothing exceeds it, strict '>'), i.e. the threshold really varies at the pixel
# scale and every configuration "p exceeds its own threshold, its brighter footprint neighbour q does not exceed
# q's own (higher) threshold" occurs -- as does every other placement of high / low pixels around a maximum.
#   TP2: image P=(0,1,2): 0.5 -> 1 and 2 exceed;  2.0 -> nothing exceeds (2 == threshold)
#   TP3: image P:        -0.5 -> all exceed;      1.0 -> only 2 exceeds (1 == threshold);  2.0 -> nothing
#   TM2: image M=(-2,-1,NaN): -3.0 -> all values exceed;  -1.0 -> nothing exceeds (-1 == threshold)
#   TN3: image N=(-2,-1,0,1,NaN): -3.0 -> all;  -1.0 -> 0 and 1 exceed (-1 == threshold);  1.0 -> nothing
THRLEVELS = {'TP2': (0.5, 2.0), 'TP3': (-0.5, 1.0, 2.0), 'TM2': (-3.0, -1.0), 'TN3': (-3.0, -1.0, 1.0)}
# axis entries (strings in a space's 'thr' tuple) that expand to MANY maps:
#   'all:<levels>'     every assignment of the level alphabet to the pixels of the map (nlev ** npix maps)
#   'struct:<levels>'  the structured family below over (lowest level, highest level)
#   'struct4:<levels>' its first four members (quick tier on 3x3)


def _struct_maps(shape):
    """Structured 0/1 (low/high) maps of the given shape, as (name, flat code); simplest first."""
    ny, nx = shape
    cy, cx = ny // 2, nx // 2
    pix = [(y, x) for y in range(ny) for x in range(nx)]
    out = [('chk0', [(y + x) % 2 for y, x in pix]),                # checkerboard, corners low
           ('chk1', [(y + x + 1) % 2 for y, x in pix]),            # checkerboard, corners high
           ('hi-centre', [int((y, x) == (cy, cx)) for y, x in pix]),
           ('lo-centre', [int((y, x) != (cy, cx)) for y, x in pix]),
           ('rows', [y % 2 for y, x in pix]), ('rows-inv', [(y + 1) % 2 for y, x in pix]),
           ('cols', [x % 2 for y, x in pix]), ('cols-inv', [(x + 1) % 2 for y, x in pix]),
           ('diag', [int(y == x) for y, x in pix]), ('diag-inv', [int(y != x) for y, x in pix])]
    for (y0, x0) in pix:                                            # one high pixel / one low pixel at each position
        if (y0, x0) != (cy, cx):
            out.append((f'hi@{y0},{x0}', [int((y, x) == (y0, x0)) for y, x in pix]))
            out.append((f'lo@{y0},{x0}', [int((y, x) != (y0, x0)) for y, x in pix]))
    return out


def _thr_axis(sp):
    """The threshold axis of a space with the 'all:' / 'struct:' entries expanded.  An enumerated map is the
    JSON dict {'levels': name, 'code': flat list of level indices, 'name': label}."""
    npx = sp['shape'][0] * sp['shape'][1]
    out = []
    for t in sp['thr']:
        if isinstance(t, str) and ':' in t:
            kind, lev = t.split(':')
            nlev = len(THRLEVELS[lev])
            if kind == 'all':
                for code in itertools.product(range(nlev), repeat=npx):
                    out.append({'levels': lev, 'code': list(code), 'name': 'all'})
            else:
                fam = _struct_maps(sp['shape'])
                if kind == 'struct4':
                    fam = fam[:4]
                for name, code in fam:
                    out.append({'levels': lev, 'code': [c * (nlev - 1) for c in code], 'name': name})
        else:
            out.append(t)
    return out


def fp_spaces(tier):
    """Each space is a full product; axes are ordered simplest-first."""
    q = [
        dict(name='P33', shape=(3, 3), alpha='P', fp=('box3', 'cross'), border=(None, (0, 1)),
             thr=(0.5, 1.0), mask=(None,), npeaks=(None,), centroid=(False,)),
        dict(name='P33-border0-map', shape=(3, 3), alpha='P', fp=('box3',), border=(0, (1, 0)), thr=(-3.0, 'mapP'),
             mask=(None,), npeaks=(None,), centroid=(False,)),
        dict(name='P33-mask-npeaks', shape=(3, 3), alpha='P', fp=('cross',), border=(None,), thr=(0.5,),
             mask=((1, 1), (0, 1), (0, 0)), npeaks=(1, 2), centroid=(False,)),
        dict(name='P33-centroid', shape=(3, 3), alpha='P', fp=('cross',), border=(None,), thr=(0.5,),
             mask=(None, (0, 1)), npeaks=(None,), centroid=(True,)),
        dict(name='N23', shape=(2, 3), alpha='N', fp=('box3', 'cross'), border=(None,), thr=(-3.0, -1.0),
             mask=(None,), npeaks=(None,), centroid=(False,)),
        dict(name='M33', shape=(3, 3), alpha='M', fp=('box3', 'cross'), border=(None,), thr=(-3.0,),
             mask=(None,), npeaks=(None,), centroid=(False,)),
        dict(name='P23-shapes', shape=(2, 3), alpha='P', fp=('row13', 'ell'), border=(None, (0, 1)), thr=(0.5, 1.0),
             mask=(None, (0, 1)), npeaks=(None, 1), centroid=(False,)),
        # the 2-D threshold as an enumerated axis: ALL 2-level maps x all images (2x3), structured maps x all images (3x3)
        dict(name='P23-thrmap-all', shape=(2, 3), alpha='P', fp=('box3', 'ell'), border=(None,), thr=('all:TP2',),
             mask=(None,), npeaks=(None,), centroid=(False,)),
        dict(name='P33-thrmap-struct', shape=(3, 3), alpha='P', fp=('box3',), border=(None,), thr=('struct4:TP2',),
             mask=(None,), npeaks=(None,), centroid=(False,)),
        dict(name='M23-thrmap-all', shape=(2, 3), alpha='M', fp=('cross',), border=(None,), thr=('all:TM2',),
             mask=(None,), npeaks=(None,), centroid=(False,)),
    ]
    if tier != 'thorough':
        return q
    t = [
        dict(name='P33-full', shape=(3, 3), alpha='P', fp=('box3', 'cross'),
             border=(None, 0, 1, (0, 1), (1, 0)), thr=(-3.0, 0.5, 1.0, 'mapP'),
             mask=(None, (1, 1), (0, 1)), npeaks=(None,), centroid=(False,)),
        dict(name='P33-npeaks', shape=(3, 3), alpha='P', fp=('box3', 'cross'), border=(None, (0, 1)),
             thr=(0.5, 'mapP'), mask=(None, (0, 1)), npeaks=(1, 2), centroid=(False,)),
        dict(name='P33-centroid', shape=(3, 3), alpha='P', fp=('box3', 'cross'), border=(None, (0, 1)), thr=(0.5,),
             mask=(None, (0, 1), (1, 1)), npeaks=(None, 1), centroid=(True,)),
        dict(name='P34', shape=(3, 4), alpha='P', fp=('box3', 'cross'), border=(None, (1, 0)), thr=(0.5,),
             mask=(None,), npeaks=(None,), centroid=(False,)),
        dict(name='N33', shape=(3, 3), alpha='N', fp=('box3', 'cross'), border=(None,), thr=(-3.0,),
             mask=(None,), npeaks=(None,), centroid=(False,)),
        dict(name='N23-full', shape=(2, 3), alpha='N', fp=('box3', 'cross', 'row13', 'ell'),
             border=(None, 0, (0, 1)), thr=(-3.0, -1.0, 'mapN'), mask=(None, (0, 1)), npeaks=(None, 1),
             centroid=(False,)),
        # the 2-D threshold as an enumerated axis, crossed with its neighbouring axes
        dict(name='P23-thrmap-all', shape=(2, 3), alpha='P', fp=('box3', 'cross', 'row13', 'ell'),
             border=(None, (0, 1)), thr=('all:TP2',), mask=(None, (0, 1)), npeaks=(None,), centroid=(False,)),
        dict(name='P23-thrmap-all3', shape=(2, 3), alpha='P', fp=('box3',), border=(None,), thr=('all:TP3',),
             mask=(None,), npeaks=(None,), centroid=(False,)),
        dict(name='P33-thrmap-struct', shape=(3, 3), alpha='P', fp=('box3',), border=(None,),
             thr=('struct:TP2',), mask=(None,), npeaks=(None,), centroid=(False,)),
        dict(name='P23-thrmap-npeaks', shape=(2, 3), alpha='P', fp=('box3',), border=(None,), thr=('all:TP2',),
             mask=(None,), npeaks=(1, 2), centroid=(False,)),
        dict(name='P23-thrmap-centroid', shape=(2, 3), alpha='P', fp=('box3',), border=(None,), thr=('all:TP2',),
             mask=(None,), npeaks=(None,), centroid=(True,)),
        dict(name='M23-thrmap-all', shape=(2, 3), alpha='M', fp=('box3', 'cross'), border=(None,),
             thr=('all:TM2',), mask=(None, (0, 1)), npeaks=(None,), centroid=(False,)),
        dict(name='N23-thrmap-struct', shape=(2, 3), alpha='N', fp=('box3',), border=(None,),
             thr=('struct:TN3',), mask=(None,), npeaks=(None,), centroid=(False,)),
    ]
    return t


def _space_size(sp):
    npx = sp['shape'][0] * sp['shape'][1]
    n = len(ALPHA[sp['alpha']]) ** npx
    for ax in ('fp', 'border', 'mask', 'npeaks', 'centroid'):
        n *= len(sp[ax])
    return n * len(_thr_axis(sp))


def _border_pair(b):
    if b is None:
        return None
    if isinstance(b, (tuple, list)):
        return (int(b[0]), int(b[1]))
    return (int(b), int(b))


def _thr_values(thr, shape):
    """-> (argument for find_peaks, flat list or scalar for the reference)"""
    if isinstance(thr, dict):
        lv = THRLEVELS[thr['levels']]
        flat = [lv[c] for c in thr['code']]
        return np.array(flat).reshape(shape), flat
    if isinstance(thr, str):
        lv = THRMAP[thr]
        ny, nx = shape
        flat = [lv[(x + 2 * y) % 3] for y in range(ny) for x in range(nx)]
        return np.array(flat).reshape(shape), flat
    return float(thr), float(thr)


_NB_CACHE = {}


def _nbrs(shape, fpname):
    k = (tuple(shape), fpname)
    if k not in _NB_CACHE:
        _NB_CACHE[k] = R.neighbour_table(shape, R.footprint_offsets(FOOT_ARR[fpname]))
    return _NB_CACHE[k]


def _fp_kwargs(fpname):
    if fpname == 'box3':
        return {'box_size': 3}
    if fpname == 'row13':
        return {'box_size': (1, 3)}
    return {'footprint': FOOT_ARR[fpname].copy()}


def _diff_site(kind, pix, vals, shape, nbrs, thrflat, border, maskflat, fpname):
    """Named predicate on the case identifying which defect a peak-set difference is."""
    ny, nx = shape
    offs = R.footprint_offsets(FOOT_ARR[fpname])

    def touches_edge(p):
        y, x = divmod(p, nx)
        return any(not (0 <= y + dy < ny and 0 <= x + dx < nx) for dy, dx in offs)

    ps = [y * nx + x for (x, y) in pix]
    if kind == 'extra' and all(vals[p] != vals[p] for p in ps):
        return 'extra:nan-pixel-reported'
    if kind == 'missing' and all(vals[p] < 0 and touches_edge(p) for p in ps):
        return 'missing:negative-maximum-next-to-image-edge'
    scalar = not isinstance(thrflat, list)
    if kind == 'extra' and not scalar and all(
            any(vals[q] > vals[p] and not vals[q] > thrflat[q] for q in nbrs[p]) for p in ps):
        # only a 2-D threshold can do this: a brighter neighbour that is above MY threshold is above a scalar one
        return 'extra:brighter-neighbour-not-above-its-own-threshold'
    if any(vals[p] == (thrflat if scalar else thrflat[p]) for p in ps):
        return f'{kind}:value==threshold'
    if maskflat is not None and any(maskflat[p] for p in ps):
        return f'{kind}:masked-pixel'
    if border is not None:
        by, bx = border
        if any((p // nx) < by or (p // nx) >= ny - by or (p % nx) < bx or (p % nx) >= nx - bx for p in ps):
            return f'{kind}:inside-border'
        return f'{kind}:border-given'
    if maskflat is not None and any(any(maskflat[q] for q in nbrs[p]) for p in ps):
        return f'{kind}:masked-neighbour'
    if any(any(vals[q] != vals[q] for q in nbrs[p]) for p in ps):
        return f'{kind}:nan-neighbour'
    return f'{kind}:fp={fpname}'


def fp_case(acc, case, mods):
    """Execute ONE find_peaks case and judge it."""
    find_peaks, centroid_com, NoDetectionsWarning = mods
    shape = tuple(case['shape'])
    ny, nx = shape
    alpha = ALPHA[case['alpha']]
    vals = [alpha[c] for c in case['code']]
    fpname = case['fp']
    border = _border_pair(case['border'])
    thr_arg, thr_ref = _thr_values(case['thr'], shape)
    maskflat = None
    mask_arg = None
    if case['mask'] is not None:
        my, mx = case['mask']
        maskflat = [False] * (ny * nx)
        maskflat[my * nx + mx] = True
        mask_arg = np.array(maskflat).reshape(shape)
    npeaks = case['npeaks']
    nbrs = _nbrs(shape, fpname)
    data = np.array(vals, float).reshape(shape)
    d0 = data.copy()

    ref = R.ref_peaks(vals, shape, nbrs, thr_ref, border, maskflat)
    nonnan = [v for v in vals if v == v]
    constant = len(nonnan) == len(vals) and all(v == vals[0] for v in vals)
    nontrivial = (not constant) and 0 < len(ref) < ny * nx
    acc.case(nontrivial=nontrivial, sample=case if acc.evaluations % 40009 == 11 else None)

    kw = _fp_kwargs(fpname)
    if case['border'] is not None:
        kw['border_width'] = tuple(case['border']) if isinstance(case['border'], (list, tuple)) else case['border']
    if mask_arg is not None:
        kw['mask'] = mask_arg
    if npeaks is not None:
        kw['npeaks'] = npeaks
    if case['centroid']:
        kw['centroid_func'] = centroid_com
    with warnings.catch_warnings(record=True) as w:
        warnings.simplefilter('always')
        try:
            tbl = find_peaks(data, thr_arg, **kw)
        except Exception as e:  # the property: every such call must succeed
            acc.violation('raises', f'find_peaks:{type(e).__name__}', case, repr(e), 'no exception')
            return
    nodet = sum(1 for x in w if issubclass(x.category, NoDetectionsWarning))
    if not np.array_equal(data, d0, equal_nan=True):
        acc.violation('input-modified', 'find_peaks:data', case, data.tolist(), d0.tolist())
    if constant:
        # documented special case ("Input data is constant. No local peaks can be found.")
        acc.skip('constant image: documented None + warning, not judged against the neighbourhood rule')
        if tbl is not None or nodet != 1:
            acc.violation('constant-image', 'find_peaks', case, None if tbl is None else len(tbl), 'None + 1 warning')
        return
    if tbl is None:
        got = []
    else:
        got = list(zip(tbl['x_peak'].tolist(), tbl['y_peak'].tolist(), tbl['peak_value'].tolist()))
    acc.outcome(repr(sorted((x, y) for x, y, _ in got)))

    # None <=> nothing selected; NoDetectionsWarning <=> None
    if tbl is not None and len(got) == 0:
        acc.violation('none-iff-empty', 'empty-table', case, 'empty table', None)
        return
    if (tbl is None) != (nodet > 0):
        acc.violation('nodetections-warning', 'returned-none' if tbl is None else 'returned-table', case, nodet,
                      1 if tbl is None else 0)

    # reported rows are pixels of the image with their own value, no duplicates
    gotpix = [(x, y) for x, y, _ in got]
    if len(set(gotpix)) != len(gotpix):
        acc.violation('duplicate-rows', 'find_peaks', case, gotpix, None)
        return
    for x, y, v in got:
        if not (0 <= x < nx and 0 <= y < ny):
            acc.violation('peak-value', 'outside-image', case, (x, y), None)
            return
        dv = vals[y * nx + x]
        if dv == dv and v != dv:
            acc.violation('peak-value', 'value!=data[y,x]', case, (x, y, v), dv)
            return

    refpix = [(x, y) for x, y, _ in ref]
    if npeaks is None or len(ref) <= npeaks:
        missing = [p for p in refpix if p not in gotpix]
        extra = [p for p in gotpix if p not in refpix]
        if missing:
            acc.violation('peak-set', _diff_site('missing', missing, vals, shape, nbrs, thr_ref, border, maskflat, fpname),
                          case, sorted(gotpix), sorted(refpix), f'missing {missing}; image={d0.tolist()}')
        if extra:
            acc.violation('peak-set', _diff_site('extra', extra, vals, shape, nbrs, thr_ref, border, maskflat, fpname),
                          case, sorted(gotpix), sorted(refpix), f'extra {extra}; image={d0.tolist()}')
        if missing or extra:
            return
    else:
        # npeaks keeps the N highest VALUES; which of several equal ones is unspecified
        notin = [p for p in gotpix if p not in refpix]
        if notin:
            site = _diff_site('extra', notin, vals, shape, nbrs, thr_ref, border, maskflat, fpname)
            # a NaN pixel reported as a peak is the same defect with or without npeaks: same key
            acc.violation('peak-set' if site == 'extra:nan-pixel-reported' else 'npeaks', site,
                          case, sorted(gotpix), sorted(refpix), 'returned rows are not peaks of the unrestricted selection')
            return
        want = sorted((v for _, _, v in ref), reverse=True)[:npeaks]
        have = sorted((v for _, _, v in got), reverse=True)
        if len(have) != npeaks or have != want:
            # which selected peaks are absent although they beat (or would fill up) the returned ones?
            floor = min(have) if len(have) == npeaks else -math.inf
            better = [(x, y) for x, y, v in ref if (x, y) not in gotpix and v > floor]
            named = _diff_site('missing', better, vals, shape, nbrs, thr_ref, border, maskflat, fpname) if better else ''
            if named in ('missing:negative-maximum-next-to-image-edge',):
                site = named           # the same defect as without npeaks: keep its key
            else:
                site = 'count' if len(have) != npeaks else 'not-the-highest-values'
            acc.violation('peak-set' if site == named else 'npeaks', site, case, have, want,
                          f'absent although selected: {better}')
            return

    if case['centroid'] and tbl is not None:
        # documented: centroid_func applied to the footprint region centred on each peak
        # (in-image part), user-masked pixels excluded.  Weights are small integers: the sums
        # are exact, the only rounding is the final division and the origin offset => 1e-12.
        fpa = FOOT_ARR[fpname]
        cy, cx = fpa.shape[0] // 2, fpa.shape[1] // 2
        xc = tbl['x_centroid'].tolist()
        yc = tbl['y_centroid'].tolist()
        for k, (x, y, v) in enumerate(got):
            y0, y1 = max(0, y - cy), min(ny, y - cy + fpa.shape[0])
            x0, x1 = max(0, x - cx), min(nx, x - cx + fpa.shape[1])
            cut = [[vals[j * nx + i] for i in range(x0, x1)] for j in range(y0, y1)]
            excl = [[(not fpa[j - (y - cy), i - (x - cx)]) or (maskflat is not None and maskflat[j * nx + i])
                     for i in range(x0, x1)] for j in range(y0, y1)]
            ex, ey = R.com(cut, excl)
            ex, ey = ex + x0, ey + y0
            for name, g, e in (('x', xc[k], ex), ('y', yc[k], ey)):
                if (g != g) != (e != e) or (e == e and abs(g - e) > 1e-12):
                    acc.violation('centroid', f'{name}_centroid:fp={fpname},mask={case["mask"] is not None}', case,
                                  (xc[k], yc[k]), (ex, ey), f'peak {(x, y)}')
                    return


def _fp_mods():
    from photutils.centroids import centroid_com
    from photutils.detection import find_peaks
    from photutils.utils.exceptions import NoDetectionsWarning
    return find_peaks, centroid_com, NoDetectionsWarning


def run_fp_unit(acc, unit, tier):
    sp = fp_spaces(tier)[unit['space']]
    mods = _fp_mods()
    npx = sp['shape'][0] * sp['shape'][1]
    nsym = len(ALPHA[sp['alpha']])
    configs = list(itertools.product(sp['fp'], sp['border'], _thr_axis(sp), sp['mask'], sp['npeaks'], sp['centroid']))
    for i, code in enumerate(itertools.product(range(nsym), repeat=npx)):
        if i % unit['nshards'] != unit['shard']:
            continue
        for fpn, border, thr, mask, npeaks, cen in configs:
            case = {'kind': 'find_peaks', 'space': sp['name'], 'shape': list(sp['shape']), 'alpha': sp['alpha'],
                    'code': list(code), 'fp': fpn, 'border': list(border) if isinstance(border, tuple) else border,
                    'thr': thr, 'mask': list(mask) if mask is not None else None, 'npeaks': npeaks, 'centroid': cen}
            fp_case(acc, case, mods)


# ---------------------------------------------------------------------------------------------
# star finders
# ---------------------------------------------------------------------------------------------
SHAPE = (21, 25)                      # non-square on purpose
F2S = 1.0 / (2.0 * math.sqrt(2.0 * math.log(2.0)))
INF = float('inf')

# name -> (sources [(x, y, amplitude, fwhm, ratio, theta_deg)], NaN pixels [(y, x)])
SCENES = {
    'single': ([(12, 10, 100, 2.5, 1, 0)], []),
    'pair-x4': ([(8, 10, 100, 2.5, 1, 0), (12, 10, 60, 2.5, 1, 0)], []),
    'pair-x4-rev': ([(8, 10, 60, 2.5, 1, 0), (12, 10, 100, 2.5, 1, 0)], []),      # fainter one on the left
    'pair-x5': ([(8, 10, 100, 2.5, 1, 0), (13, 10, 60, 2.5, 1, 0)], []),
    'pair-x5-rev': ([(8, 10, 60, 2.5, 1, 0), (13, 10, 100, 2.5, 1, 0)], []),      # fainter one on the left
    'pair-y5-rev': ([(12, 6, 60, 2.5, 1, 0), (12, 11, 100, 2.5, 1, 0)], []),      # fainter one below
    'pair-diag5': ([(8, 8, 100, 2.5, 1, 0), (11, 12, 60, 2.5, 1, 0)], []),        # 3-4-5: distance exactly 5
    'pair-x6': ([(8, 10, 100, 2.5, 1, 0), (14, 10, 60, 2.5, 1, 0)], []),
    # x = 2 and y = 18 = ny - 3: inside the excluded border for a kernel radius 3, outside for radius 2
    'border': ([(2, 3, 80, 2.5, 1, 0), (12, 18, 100, 2.5, 1, 0), (24, 20, 70, 2.5, 1, 0)], []),
    'elongated': ([(7, 10, 100, 4.0, 0.5, 30), (17, 10, 90, 2.5, 1, 0)], []),
    'bowl': ([(8, 10, 100, 2.5, 1, 0), (17, 12, -60, 4.0, 1, 0)], []),
    'nan': ([(8, 10, 100, 2.5, 1, 0), (16, 10, 70, 2.5, 1, 0)], [(10, 9), (3, 20)]),
    'three-sat': ([(6, 6, 100, 2.5, 1, 0), (12, 14, 300, 2.5, 1, 0), (19, 7, 50, 3.5, 1, 0)], []),
    'blank': ([], []),
    'zeros': (None, []),
    # background-subtracted sky: zero-mean noise of sigma 4 (third element; default 0.2), so that the lowest
    # threshold of the configuration product (5.0) is a ~1.3 sigma cut: every kernel box holds negative pixels,
    # detections are noise-level peaks.  'noise-faint' adds two ~2 sigma sources.
    'noise': ([], [], 4.0),
    'noise-faint': ([(8, 10, 9, 2.5, 1, 0), (16, 11, 7, 2.5, 1, 0)], [], 4.0),
}
SCENES_QUICK = ('single', 'pair-x4', 'pair-x4-rev', 'pair-x5-rev', 'pair-diag5', 'border', 'elongated', 'bowl', 'nan', 'three-sat',
                'blank', 'zeros', 'noise', 'noise-faint')
SCENES_THOROUGH = tuple(SCENES)
# stream ids of the per-scene noise generators (fixed: adding a scene must not change the others)
_SCENE_RNG_ID = {'blank': 0, 'border': 1, 'bowl': 2, 'elongated': 3, 'nan': 4, 'pair-diag5': 5, 'pair-x4': 6, 'pair-x4-rev': 7,
                 'pair-x5': 8, 'pair-x5-rev': 9, 'pair-x6': 10, 'pair-y5-rev': 11, 'single': 12, 'three-sat': 13, 'zeros': 14,
                 'noise': 101, 'noise-faint': 102}


def scene_spec(name):
    """-> (sources, NaN pixels, noise sigma)"""
    sp = SCENES[name]
    return sp[0], sp[1], (sp[2] if len(sp) > 2 else 0.2)


def scene_is_dense(name):
    """noise-dominated scenes: every pixel is additionally used as a supplied position (xycoords)"""
    return scene_spec(name)[2] >= 1.0
MASKS = (None, 'src0')                # 'src0': the centre pixel of the first source is masked


def make_scene(name, seed):
    """Seed only picks the generic reals (noise image, 3 % amplitude jitter)."""
    srcs, nans, sigma = scene_spec(name)
    ny, nx = SHAPE
    if srcs is None:
        return np.zeros(SHAPE)
    rng = np.random.default_rng([int(seed), 1401, _SCENE_RNG_ID[name]])
    data = sigma * rng.standard_normal(SHAPE)
    yy, xx = np.mgrid[:ny, :nx]
    for (x0, y0, amp, fwhm, ratio, theta) in srcs:
        amp = amp * (1.0 + 0.03 * rng.uniform(-1, 1))
        sx = fwhm * F2S
        sy = sx * ratio
        t = math.radians(theta)
        xr = (xx - x0) * math.cos(t) + (yy - y0) * math.sin(t)
        yr = -(xx - x0) * math.sin(t) + (yy - y0) * math.cos(t)
        data += amp * np.exp(-0.5 * ((xr / sx) ** 2 + (yr / sy) ** 2))
    for (y, x) in nans:
        data[y, x] = NAN
    return data


def make_mask(name, mask):
    if mask is None:
        return None
    srcs = scene_spec(name)[0]
    m = np.zeros(SHAPE, bool)
    if srcs:
        m[srcs[0][1], srcs[0][0]] = True
    else:
        m[10, 12] = True
    return m


def sf_kernel(kname):
    """User kernels for StarFinder (odd shapes; one non-square, elongated)."""
    if kname == 'g7':
        ky, kx, sx, sy = 7, 7, 2.5 * F2S, 2.5 * F2S
    else:  # 'e57'
        ky, kx, sx, sy = 5, 7, 3.5 * F2S, 2.0 * F2S
    yy, xx = np.mgrid[:ky, :kx]
    return np.exp(-0.5 * (((xx - kx // 2) / sx) ** 2 + ((yy - ky // 2) / sy) ** 2))


# (fwhm, ratio, theta): kernel arrays 5x5, 5x7 (ny, nx), 7x5, 5x5 elliptical, 7x7 -- exclude_border uses
# (yradius, xradius), so non-square kernels are needed to tell the two apart
DAO_KERNELS = ((2.5, 1.0, 0.0), (6.0, 0.5, 30.0), (5.0, 0.4, 90.0), (3.7, 0.6, 40.0), (5.5, 1.0, 0.0))


def sf_configs(tier, family):
    """Full products of the configuration axes (simplest first)."""
    thorough = tier == 'thorough'
    out = []
    if family == 'detect':
        thr = (5.0, 70.0) if not thorough else (5.0, 70.0, 200.0)
        msep = (0.0, 3.0, 4.5, 5.0) if not thorough else (0.0, 2.0, 3.0, 4.5, 5.0, 5.5, 6.0)
        excl = (False, True)
        dao_k = DAO_KERNELS[:2] if not thorough else DAO_KERNELS
        iraf_f = (2.5, 5.5)                                  # 5x5 and 7x7 kernels
        sfk = ('g7', 'e57')
    else:  # 'filters': bound sweeps + xycoords; peak finding parameters at their defaults
        thr = (5.0,)
        msep = ('default',)
        excl = (False,) if not thorough else (False, True)
        dao_k = DAO_KERNELS[:2] if not thorough else DAO_KERNELS
        iraf_f = (2.5, 5.5)                                  # 5x5 and 7x7 kernels
        sfk = ('g7', 'e57')
    for (fwhm, ratio, theta), ms, ex, t in itertools.product(dao_k, msep, excl, thr):
        out.append({'finder': 'DAO', 'fwhm': fwhm, 'ratio': ratio, 'theta': theta,
                    'min_separation': 0.0 if ms == 'default' else ms, 'exclude_border': ex, 'threshold': t})
    for fwhm, ms, ex, t in itertools.product(iraf_f, msep, excl, thr):
        out.append({'finder': 'IRAF', 'fwhm': fwhm, 'min_separation': None if ms in ('default', 0.0) else ms,
                    'exclude_border': ex, 'threshold': t})
    for k, ms, ex, t in itertools.product(sfk, msep, excl, thr):
        out.append({'finder': 'SF', 'kernel': k, 'min_separation': 5.0 if ms == 'default' else ms,
                    'exclude_border': ex, 'threshold': t})
    return out


COLS = {
    'DAO': ('xcentroid', 'ycentroid', 'sharpness', 'roundness1', 'roundness2', 'npix', 'peak', 'flux', 'mag', 'daofind_mag'),
    'IRAF': ('xcentroid', 'ycentroid', 'fwhm', 'sharpness', 'roundness', 'pa', 'npix', 'peak', 'flux', 'mag'),
    'SF': ('xcentroid', 'ycentroid', 'fwhm', 'roundness', 'pa', 'max_value', 'flux', 'mag'),
}
# columns the documentation promises finite ("non-finite values are considered non-detections");
# mag / daofind_mag are logarithms of flux / of the convolved peak and may legitimately be NaN
FINITE = {
    'DAO': ('xcentroid', 'ycentroid', 'sharpness', 'roundness1', 'roundness2', 'peak', 'flux'),
    'IRAF': ('xcentroid', 'ycentroid', 'fwhm', 'sharpness', 'roundness', 'pa', 'peak', 'flux'),
    'SF': ('xcentroid', 'ycentroid', 'fwhm', 'roundness', 'pa', 'max_value', 'flux'),
}
# bound keyword -> (columns it constrains, 'lo' | 'hi')
BOUNDS = {
    'DAO': {'sharplo': (('sharpness',), 'lo'), 'sharphi': (('sharpness',), 'hi'),
            'roundlo': (('roundness1', 'roundness2'), 'lo'), 'roundhi': (('roundness1', 'roundness2'), 'hi'),
            'peakmax': (('peak',), 'hi')},
    'IRAF': {'sharplo': (('sharpness',), 'lo'), 'sharphi': (('sharpness',), 'hi'),
             'roundlo': (('roundness',), 'lo'), 'roundhi': (('roundness',), 'hi'), 'peakmax': (('peak',), 'hi')},
    'SF': {'peakmax': (('max_value',), 'hi')},
}
PEAKCOL = {'DAO': 'peak', 'IRAF': 'peak', 'SF': 'max_value'}


class SFHarness:
    """One (scene, mask, configuration): builds finders, runs them, keeps counts."""

    def __init__(self, acc, case, seed, data=None, mask=None):
        from photutils.detection import DAOStarFinder, IRAFStarFinder, StarFinder
        from photutils.utils.exceptions import NoDetectionsWarning
        self.cls = {'DAO': DAOStarFinder, 'IRAF': IRAFStarFinder, 'SF': StarFinder}
        self.NoDet = NoDetectionsWarning
        self.acc = acc
        self.case = case
        self.cfg = case['config']
        self.F = self.cfg['finder']
        self.seed = seed
        if data is None:
            self.data = make_scene(case['scene'], seed)
            self.mask = make_mask(case['scene'], case['mask'])
        else:                      # an image built by the caller (signed-patch mosaics, single-position re-runs)
            self.data = data
            self.mask = mask
        self.calls = 0

    def build(self, **extra):
        c = self.cfg
        if self.F == 'DAO':
            kw = dict(ratio=c['ratio'], theta=c['theta'], sharplo=-INF, sharphi=INF, roundlo=-INF, roundhi=INF,
                      exclude_border=c['exclude_border'], min_separation=c['min_separation'])
            kw.update(extra)
            return self.cls['DAO'](c['threshold'], c['fwhm'], **kw)
        if self.F == 'IRAF':
            kw = dict(sharplo=-INF, sharphi=INF, roundlo=-INF, roundhi=INF, exclude_border=c['exclude_border'],
                      min_separation=c['min_separation'])
            kw.update(extra)
            return self.cls['IRAF'](c['threshold'], c['fwhm'], **kw)
        kw = dict(min_separation=c['min_separation'], exclude_border=c['exclude_border'])
        kw.update(extra)
        # StarFinder normalises the caller's kernel in place (C10's business): always a fresh copy
        return self.cls['SF'](c['threshold'], sf_kernel(c['kernel']).copy(), **kw)

    def run(self, what, **extra):
        """-> list of row dicts, or None; records raises / warning / id / finiteness violations."""
        self.calls += 1
        case = dict(self.case, probe=what)
        try:
            finder = self.build(**extra)
        except Exception as e:
            self.acc.violation('sf-raises', f'{self.F}:constructor:{type(e).__name__}', case, repr(e), 'no exception')
            return 'error'
        with warnings.catch_warnings(record=True) as w:
            warnings.simplefilter('always')
            try:
                # StarFinder zeroes negative pixels of the caller's image (C10's business): pass a copy
                tbl = finder(self.data.copy(), mask=None if self.mask is None else self.mask.copy())
            except Exception as e:
                self.acc.violation('sf-raises', f'{self.F}:call:{type(e).__name__}', case, repr(e), 'no exception')
                return 'error'
        nodet = sum(1 for x in w if issubclass(x.category, self.NoDet))
        if tbl is None:
            if nodet < 1:
                self.acc.violation('sf-warning', f'{self.F}:none-without-NoDetectionsWarning', case, nodet, '>=1')
            return None
        if nodet:
            self.acc.violation('sf-warning', f'{self.F}:table-with-NoDetectionsWarning', case, nodet, 0)
        if len(tbl) == 0:
            self.acc.violation('sf-none-iff-empty', f'{self.F}:empty-table', case, 'empty table', None)
            return None
        ids = [int(v) for v in tbl['id'].tolist()]
        if ids != list(range(1, len(tbl) + 1)):
            self.acc.violation('sf-ids', f'{self.F}', case, ids, list(range(1, len(tbl) + 1)))
        rows = []
        cols = {c: np.asarray(tbl[c], float).tolist() for c in COLS[self.F]}
        for k in range(len(tbl)):
            rows.append({c: cols[c][k] for c in COLS[self.F]})
        for c in FINITE[self.F]:
            if not all(math.isfinite(r[c]) for r in rows):
                self.acc.violation('sf-finite', f'{self.F}:{c}', case, [r[c] for r in rows], 'finite')
        return rows


def rows_equal(A, B, ordered=False):
    """None if the two row lists agree, else a description.

    Tolerance 1e-7 * max(1, |a|, |b|): both sides evaluate the SAME formulas on the same pixels;
    only the number of sources in the vectorised sums differs (numpy may then reduce in another
    order).  Columns are sums/ratios of <= 49 pixel values of size <= 400, so the reordering error
    is ~1e-13; measured worst case on the unchanged tree 0 (bit-identical); 1e-7 leaves a wide margin
    while any wrong row (another pixel, another source) differs by >= 1e-3.
    """
    if (A is None) != (B is None):
        return f'{None if A is None else len(A)} rows vs {None if B is None else len(B)} rows'
    if A is None:
        return None
    if len(A) != len(B):
        return f'{len(A)} rows vs {len(B)} rows'
    if not ordered:
        A = sorted(A, key=lambda r: (round(r['ycentroid'], 6), round(r['xcentroid'], 6)))
        B = sorted(B, key=lambda r: (round(r['ycentroid'], 6), round(r['xcentroid'], 6)))
    for k, (ra, rb) in enumerate(zip(A, B)):
        for c in ra:
            if c not in rb:
                continue
            a, b = ra[c], rb[c]
            if a != a and b != b:
                continue
            if a == b:
                continue
            if a != a or b != b or abs(a - b) > 1e-7 * max(1.0, abs(a), abs(b)):
                return f'row {k} column {c}: {a!r} vs {b!r}'
    return None


def brief(rows):
    if rows is None or rows == 'error':
        return rows
    return [(round(r['xcentroid'], 3), round(r['ycentroid'], 3), round(r['flux'], 3)) for r in rows]


def passes(F, row, bound, value):
    cols, side = BOUNDS[F][bound]
    if side == 'lo':
        return all(row[c] >= value for c in cols)
    return all(row[c] <= value for c in cols)


# -- contract peaks on an independently convolved image ---------------------------------------
def shifted_max(img, offsets):
    """max over the in-image footprint neighbours other than the pixel itself; NaN = no value."""
    ny, nx = img.shape
    r = max(max(abs(dy), abs(dx)) for dy, dx in offsets) if offsets else 0
    pad = np.full((ny + 2 * r, nx + 2 * r), -INF)
    pad[r:r + ny, r:r + nx] = np.where(np.isnan(img), -INF, img)
    out = np.full((ny, nx), -INF)
    for dy, dx in offsets:
        if dy == 0 and dx == 0:
            continue
        out = np.maximum(out, pad[r + dy:r + dy + ny, r + dx:r + dx + nx])
    return out


def contract_peak_maps(conv, offsets, thr, border, mask, eps):
    """-> (sure, maybe) boolean maps.

    sure : value > thr + eps and > every other neighbour + eps; maybe: within eps of either
    decision (the implementation's convolution differs from ours in the last bits)."""
    ny, nx = conv.shape
    other = shifted_max(conv, offsets)
    valid = ~np.isnan(conv)
    if mask is not None:
        valid &= ~mask
    if border is not None:
        by, bx = border
        inb = np.zeros((ny, nx), bool)
        inb[by:ny - by if by else ny, bx:nx - bx if bx else nx] = True
        if 2 * by >= ny or 2 * bx >= nx:
            inb[:] = False
        valid &= inb
    v = np.where(np.isnan(conv), -INF, conv)
    no = ~valid | (v < thr - eps) | (other > v + eps)
    sure = valid & (v > thr + eps) & (other < v - eps)
    maybe = ~no & ~sure
    return sure, maybe


def contract_peaks(conv, offsets, thr, border, mask, eps):
    """-> (sure, maybe) of contract_peak_maps as lists of (x, y) in raster order."""
    sure, maybe = contract_peak_maps(conv, offsets, thr, border, mask, eps)
    ys, xs = np.nonzero(sure)
    sure_l = list(zip(xs.tolist(), ys.tolist()))
    ys, xs = np.nonzero(maybe)
    maybe_l = list(zip(xs.tolist(), ys.tolist()))
    return sure_l, maybe_l


def sf_detect_rule(h):
    """-> (kernel array, kernel footprint, threshold on the convolved image, min_separation, border,
    independently convolved image, eps, neighbourhood variants) of this configuration."""
    c = h.cfg
    F = h.F
    if F == 'SF':
        k = sf_kernel(c['kernel'])
        # the documented matched filter of StarFinder (zero-sum, unit response): replicated from the source
        k = k / k.max()
        den = (k ** 2).sum() - k.sum() ** 2 / k.size
        kern = (k - k.sum() / k.size) / den
        kfoot = np.ones(kern.shape, bool)
        thr = c['threshold']
        ms = c['min_separation']
    else:
        finder = h.build()
        kern = np.array(finder.kernel.data, float)
        kfoot = np.array(finder.kernel.mask).astype(bool)
        if F == 'DAO':
            thr = c['threshold'] * float(finder.kernel.relerr)    # documented threshold_eff
            ms = c['min_separation']
        else:
            thr = c['threshold']
            ms = c['min_separation']
            if ms is None:  # documented: int(fwhm * minsep_fwhm + 0.5), at least 2; minsep_fwhm default 2.5
                ms = max(2, int(c['fwhm'] * 2.5 + 0.5))
    ky, kx = kern.shape
    border = ((ky - 1) // 2, (kx - 1) // 2) if c['exclude_border'] else None
    conv = R.conv_zero(h.data, kern)
    # eps: both convolutions sum <= ky*kx products; rounding <= ky*kx * 2.2e-16 * sum|k*d| ~ 1e-12 for this
    # data (measured 3e-14); 1e-9 * scale leaves three orders of magnitude
    finite = conv[np.isfinite(conv)]
    eps = 1e-9 * max(1.0, float(np.abs(finite).max()) if finite.size else 1.0)
    if ms == 0:
        variants = [R.footprint_offsets(kfoot)]
    else:
        incl = R.disc_offsets(ms)
        strict = [(dy, dx) for dy, dx in incl if dx * dx + dy * dy < ms * ms]
        variants = [incl] + ([strict] if len(strict) != len(incl) else [])   # distance == min_separation: either
    return kern, kfoot, thr, ms, border, conv, eps, variants


def sf_expected_positions(h):
    """All position lists the contract admits for this configuration (usually exactly one)."""
    kern, kfoot, thr, ms, border, conv, eps, variants = sf_detect_rule(h)
    ky, kx = kern.shape
    lists = []
    ambiguous = 0
    for offs in variants:
        sure, maybe = contract_peaks(conv, offs, thr, border, h.mask, eps)
        ambiguous = max(ambiguous, len(maybe))
        if len(maybe) > 3:
            return None, (ky, kx), len(maybe)
        for n in range(len(maybe) + 1):
            for sub in itertools.combinations(maybe, n):
                lst = sorted(set(sure) | set(sub), key=lambda p: (p[1], p[0]))
                if lst not in lists:
                    lists.append(lst)
    return lists, (ky, kx), ambiguous


def sf_reference_rows(h, positions):
    """StarFinder has no xycoords: its documented measurements (moments of the kernel-sized cut-out,
    negative pixels excluded) are evaluated directly."""
    ky, kx = sf_kernel(h.cfg['kernel']).shape
    ny, nx = h.data.shape
    rows = []
    for (px, py) in positions:
        y0, y1 = max(0, py - ky // 2), min(ny, py + ky // 2 + 1)
        x0, x1 = max(0, px - kx // 2), min(nx, px + kx // 2 + 1)
        cut = h.data[y0:y1, x0:x1].copy()
        cut[cut < 0] = 0.0
        tot = cut.sum()
        if not math.isfinite(tot) or tot <= 0:
            continue
        jj, ii = np.mgrid[:cut.shape[0], :cut.shape[1]]
        xc = (cut * ii).sum() / tot
        yc = (cut * jj).sum() / tot
        musum = (cut * ((ii - xc) ** 2 + (jj - yc) ** 2)).sum() / tot
        if not musum > 0:      # a single positive pixel: fwhm 0, roundness 0/0 -> documented non-detection
            continue
        rows.append({'xcentroid': xc + x0, 'ycentroid': yc + y0, 'flux': float(tot), 'max_value': float(cut.max()),
                     '_pos': (px, py)})
    return rows or None


def in_box(r, p, kshape):
    """the reported centroid lies within the kernel box (half the kernel size each way) centred on pixel p"""
    ky, kx = kshape
    return abs(r['xcentroid'] - p[0]) <= kx / 2 + 1e-9 and abs(r['ycentroid'] - p[1]) <= ky / 2 + 1e-9


def sf_site(h, what):
    c = h.cfg
    ms = c.get('min_separation')
    if ms is not None and ms != int(ms):
        return f'{what}:non-integer-min_separation'      # code shared by the three finders
    if h.case['mask'] is not None:
        return f'{h.F}:{what}:mask'
    if c['exclude_border']:
        return f'{h.F}:{what}:exclude_border'
    if ms:
        return f'{h.F}:{what}:min_separation'
    return f'{h.F}:{what}'


def sf_detect(h, U):
    """U (unrestricted run) == the rows measured at exactly the contract's peaks."""
    acc, case = h.acc, h.case
    lists, kshape, amb = sf_expected_positions(h)
    if lists is None:
        acc.skip('more than 3 pixels within 1e-9 of a detection decision')
        return None
    ky, kx = kshape
    results = []
    for pos in lists:
        if not pos:
            E = None
        elif h.F == 'SF':
            E = sf_reference_rows(h, pos)
        else:
            E = h.run({'xycoords': [list(p) for p in pos]}, xycoords=np.array(pos))
            if E == 'error':
                return None
        d = rows_equal(U, E)
        results.append((pos, E, d))
        if d is None:
            # centroid within the kernel box of one of the peaks
            for r in (U or []):
                if not any(in_box(r, p, (ky, kx)) for p in pos):
                    acc.violation('sf-centroid-in-kernel', f'{h.F}', dict(case, probe='unrestricted'),
                                  (r['xcentroid'], r['ycentroid']), pos)
            # ... and, row by row, of its OWN peak (a stray centroid may land next to another peak).  The rows of
            # U are identified with their peaks through single-position runs: U == E == the single rows in order.
            sf_own_peak(h, U, pos, E)
            return pos
    pos, E, d = results[0]
    acc.violation('sf-detect', sf_site(h, 'peaks'), dict(case, probe='unrestricted'), brief(U),
                  brief(E), f'contract peaks {pos}; {d}')
    return None


def sf_own_peak(h, U, pos, E):
    """Every row of the unrestricted run lies within the kernel box of the peak it was measured at."""
    acc, case = h.acc, h.case
    if not U or not pos:
        return
    kshape = (sf_kernel(h.cfg['kernel']) if h.F == 'SF' else np.asarray(h.build().kernel.data)).shape
    if h.F == 'SF':
        # the reference rows carry their peak; U == E up to order (already established)
        srt = lambda rows: sorted(rows, key=lambda r: (round(r['ycentroid'], 6), round(r['xcentroid'], 6)))  # noqa: E731
        for r, e in zip(srt(U), srt(E)):
            if not in_box(r, e['_pos'], kshape):
                acc.violation('sf-centroid-in-kernel', f'{h.F}:own-peak', dict(case, probe='unrestricted'),
                              (r['xcentroid'], r['ycentroid']), list(e['_pos']))
        return
    singles = []
    for p in pos:
        probe = {'xycoords': [list(p)]}
        T1 = h.run(probe, xycoords=np.array([p]))
        if T1 == 'error':
            return
        if T1 is None:
            continue
        if len(T1) != 1:
            acc.violation('sf-xycoords', f'{h.F}:one-position-many-rows', dict(case, probe=probe), len(T1), 1)
            return
        singles.append(T1[0])
        if not in_box(T1[0], p, kshape):
            acc.violation('sf-centroid-in-kernel', f'{h.F}:own-peak', dict(case, probe=probe),
                          (T1[0]['xcentroid'], T1[0]['ycentroid']), list(p),
                          f'kernel box {kshape[1]} x {kshape[0]} (nx x ny) centred on the peak')
    d = rows_equal(E, singles or None, ordered=True)
    if d is not None:
        acc.violation('sf-xycoords', f'{h.F}:rows-in-order', dict(case, probe={'xycoords': [list(p) for p in pos]}),
                      brief(E), brief(singles), d)


def sf_brightest(h, U):
    acc, case = h.acc, h.case
    if not U:
        return
    byflux = sorted(U, key=lambda r: -r['flux'])
    for n in range(1, len(U) + 2):
        got = h.run({'brightest': n}, brightest=n)
        if got == 'error':
            continue
        d = rows_equal(got, byflux[:n])
        if d is not None:
            acc.violation('sf-brightest', f'{h.F}:n-largest-fluxes', dict(case, probe={'brightest': n}), brief(got),
                          brief(byflux[:n]), d)
    # filters first, then brightest
    pk = PEAKCOL[h.F]
    if len(U) >= 2:
        v = sorted(r[pk] for r in U)[len(U) // 2 - 1]       # keeps at least one, rejects at least one
        keep = sorted((r for r in U if r[pk] <= v), key=lambda r: -r['flux'])[:1]
        got = h.run({'peakmax': v, 'brightest': 1}, peakmax=v, brightest=1)
        if got != 'error':
            d = rows_equal(got, keep or None)
            if d is not None:
                acc.violation('sf-brightest', f'{h.F}:after-filters', dict(case, probe={'peakmax': v, 'brightest': 1}),
                              brief(got), brief(keep), d)


def sf_bounds(h, U, extra=None, tag=''):
    """Every bound exactly at, and just beyond, every reported value of the unrestricted rows U."""
    acc, case = h.acc, h.case
    if not U:
        return
    extra = extra or {}
    for bound, (cols, side) in BOUNDS[h.F].items():
        values = sorted({r[c] for r in U for c in cols})
        for v in values:
            beyond = float(np.nextafter(v, INF if side == 'lo' else -INF))   # first value that rejects v
            for kind, b in (('at', v), ('beyond', beyond)):
                want = [r for r in U if passes(h.F, r, bound, b)] or None
                probe = {bound: b, 'kind': kind}
                probe.update({k: 'given' for k in extra})
                got = h.run(probe, **{bound: b}, **extra)
                if got == 'error':
                    continue
                d = rows_equal(got, want)
                if d is not None:
                    acc.violation('sf-bound', f'{h.F}:{bound}:{kind}{tag}', dict(case, probe=probe), brief(got),
                                  brief(want), d + f' (bound {bound}={b!r}, reported value {v!r})')


def sf_xycoords(h):
    """xycoords are used verbatim, row by row, in order, and the same filters apply."""
    acc, case = h.acc, h.case
    F = h.F
    if F == 'SF':
        return
    srcs = scene_spec(case['scene'])[0]
    Q = [(s[0], s[1]) for s in (srcs or [])]
    if Q:
        Q.append((Q[0][0] + 1, Q[0][1]))        # one pixel off the first source
    Q += [(0, 0), (20, 2)]                       # a corner pixel, a blank-sky pixel
    finder = h.build()
    kmask = np.array(finder.kernel.mask).astype(bool)
    ky, kx = kmask.shape
    ny, nx = SHAPE
    TQ = h.run({'xycoords': [list(q) for q in Q]}, xycoords=np.array(Q))
    if TQ == 'error':
        return
    singles = []
    for q in Q:
        T1 = h.run({'xycoords': [list(q)]}, xycoords=np.array([q]))
        if T1 == 'error':
            return
        if T1 is not None and len(T1) != 1:
            acc.violation('sf-xycoords', f'{F}:one-position-many-rows', dict(case, probe={'xycoords': [list(q)]}),
                          len(T1), 1)
            return
        if T1 is None:
            continue
        r = T1[0]
        singles.append(r)
        # the documented simple measurements at exactly q (zero beyond the image)
        cut = np.zeros((ky, kx))
        for j in range(ky):
            for i in range(kx):
                y, x = q[1] - ky // 2 + j, q[0] - kx // 2 + i
                if 0 <= y < ny and 0 <= x < nx:
                    cut[j, i] = h.data[y, x]
        if F == 'DAO':
            exp = {'peak': h.data[q[1], q[0]], 'flux': cut.sum(), 'npix': ky * kx}
        else:
            sky = (cut * ~kmask).sum() / max(1, (~kmask).sum())
            d = (cut - sky) * kmask
            d[d < 0] = 0.0
            tot = d.sum()
            jj, ii = np.mgrid[:ky, :kx]
            exp = {'peak': d.max(), 'flux': tot, 'npix': int(np.count_nonzero(d)),
                   'xcentroid': (d * ii).sum() / tot + q[0] - kx // 2,
                   'ycentroid': (d * jj).sum() / tot + q[1] - ky // 2}
        for c, e in exp.items():
            g = r[c]
            # sums of <= 49 pixel values <= 400: 1e-9 relative to the scale of the cut-out is > 1e4 x rounding
            if not (abs(g - e) <= 1e-9 * max(1.0, float(np.abs(cut[np.isfinite(cut)]).sum()))):
                acc.violation('sf-xycoords', f'{F}:verbatim:{c}', dict(case, probe={'xycoords': [list(q)]}), g, e,
                              f'measured at {q}')
        if not (abs(r['xcentroid'] - q[0]) <= kx / 2 + 1e-9 and abs(r['ycentroid'] - q[1]) <= ky / 2 + 1e-9):
            acc.violation('sf-centroid-in-kernel', f'{F}:xycoords', dict(case, probe={'xycoords': [list(q)]}),
                          (r['xcentroid'], r['ycentroid']), q)
    d = rows_equal(TQ, singles or None, ordered=True)
    if d is not None:
        acc.violation('sf-xycoords', f'{F}:rows-in-order', dict(case, probe={'xycoords': [list(q) for q in Q]}),
                      brief(TQ), brief(singles), d)
        return
    # the same filters apply to supplied positions
    if TQ:
        sf_bounds(h, TQ, extra={'xycoords': np.array(Q)}, tag=':xycoords')
    # noise-dominated scenes: EVERY pixel of the image as a supplied position
    if scene_is_dense(case['scene']):
        sf_dense_xycoords(h, (ky, kx), kmask)


def sf_family(acc, case, seed):
    h = SFHarness(acc, case, seed)
    U = h.run('unrestricted')
    if U == 'error':
        acc.case(nontrivial=False)
        return
    acc.outcome(repr(brief(U)))
    pos = sf_detect(h, U)
    sf_brightest(h, U)
    if case['family'] == 'filters':
        sf_bounds(h, U)
        sf_xycoords(h)
    else:
        # peakmax is the one bound every finder has: sweep it in the detection product too
        if U:
            pk = PEAKCOL[h.F]
            for v in sorted({r[pk] for r in U}):
                for kind, b in (('at', v), ('beyond', float(np.nextafter(v, -INF)))):
                    want = [r for r in U if r[pk] <= b] or None
                    got = h.run({'peakmax': b, 'kind': kind}, peakmax=b)
                    if got == 'error':
                        continue
                    d = rows_equal(got, want)
                    if d is not None:
                        acc.violation('sf-bound', f'{h.F}:peakmax:{kind}', dict(case, probe={'peakmax': b, 'kind': kind}),
                                      brief(got), brief(want), d)
    nontrivial = bool(U)
    for k in range(h.calls):
        acc.case(nontrivial=nontrivial, sample=case if (k == 0 and acc.evaluations % 977 == 3) else None)
    acc.counters['starfinder_families'] += 1
    if pos is not None:
        acc.counters['starfinder_contract_peaks'] += len(pos)


def sf_families(tier):
    scenes = SCENES_THOROUGH if tier == 'thorough' else SCENES_QUICK
    fams = []
    for family in ('detect', 'filters'):
        for scene, mask, cfg in itertools.product(scenes, MASKS, sf_configs(tier, family)):
            fams.append({'kind': 'starfinder', 'family': family, 'scene': scene, 'mask': mask, 'config': cfg})
    return fams


# ---------------------------------------------------------------------------------------------
# supplied positions on a regular grid (one batched xycoords call, every row judged on its own)
# ---------------------------------------------------------------------------------------------
GRID_CONFIRM = 3          # violations written out per (clause, site) and batched call; the rest are only counted


def grid_judge(F, data, rows, grid, kshape, kmask):
    """rows = result of xycoords = R.grid_positions(grid).  Row by row (contract oracle only):

    * the centroid lies within the kernel box of the supplied position it belongs to.  The pitches are
      >= 2*kernel+1, so the boxes are disjoint and at least a full kernel apart: a centroid inside the box of
      its position is nearest to that position, and the order of the rows must follow the supplied order;
    * at most one row per position, rows in the order of the positions;
    * the documented simple measurements (peak, flux, npix; IRAF also its first-moment centroid) are the ones
      of exactly that position.  Sums of <= 49 pixel values: 1e-9 * max(1, sum|box|) is > 1e4 x rounding.

    -> list of dicts(cands, clause, site, observed, expected, detail); cands = indices of the grid positions
    the offending row may belong to."""
    bads = []
    if not rows:
        return bads
    ky, kx = kshape
    xc = np.array([r['xcentroid'] for r in rows], float)
    yc = np.array([r['ycentroid'] for r in rows], float)
    idx = R.grid_assign(xc, yc, grid)
    pos = R.grid_positions(grid)
    own = pos[np.maximum(idx, 0)]
    inbox = (idx >= 0) & (np.abs(xc - own[:, 0]) <= kx / 2 + 1e-9) & (np.abs(yc - own[:, 1]) <= ky / 2 + 1e-9)
    sel = np.nonzero(inbox)[0]
    for k in np.nonzero(~inbox)[0].tolist():
        before = sel[sel < k]
        after = sel[sel > k]
        lo = int(idx[before[-1]]) + 1 if before.size else 0
        hi = int(idx[after[0]]) if after.size else grid['n']
        cands = list(range(lo, max(lo, hi)))[:40] or list(range(grid['n']))[:40]
        near = [int(v) for v in pos[cands[0]]] if len(cands) == 1 else None
        bads.append(dict(cands=cands, clause='sf-centroid-in-kernel', site=f'{F}:xycoords',
                         observed=(float(xc[k]), float(yc[k])),
                         expected=near if near else f'within the {kx} x {ky} box of one of the supplied positions',
                         detail=f'row {k} of {len(rows)}; supplied positions {lo}..{hi - 1} of the call are candidates'))
    gi = idx[sel]
    for k in np.nonzero(np.diff(gi) <= 0)[0].tolist()[:GRID_CONFIRM]:
        bads.append(dict(cands=[int(gi[k]), int(gi[k + 1])], clause='sf-xycoords', site=f'{F}:rows-in-order',
                         observed=[int(gi[k]), int(gi[k + 1])], expected='strictly increasing position index',
                         detail=f'rows {int(sel[k])} and {int(sel[k + 1])}'))
    if sel.size:
        cuts = R.box_cutouts(data, pos[idx[sel]], kshape)
        exp = R.simple_measurements(F, cuts, kmask)
        finite = np.where(np.isfinite(cuts), np.abs(cuts), 0.0)
        tol = 1e-9 * np.maximum(1.0, finite.sum(axis=(1, 2)))
        want = {'peak': exp['peak'], 'flux': exp['flux'], 'npix': exp['npix']}
        if F == 'IRAF':
            want['xcentroid'] = exp['xcentroid_in_box'] + pos[idx[sel], 0] - kx // 2
            want['ycentroid'] = exp['ycentroid_in_box'] + pos[idx[sel], 1] - ky // 2
        for c, e in want.items():
            g = np.array([rows[k][c] for k in sel.tolist()], float)
            with np.errstate(invalid='ignore'):
                wrong = ~(np.abs(g - e) <= tol)
            for m in np.nonzero(wrong)[0].tolist():
                bads.append(dict(cands=[int(idx[sel[m]])], clause='sf-xycoords', site=f'{F}:verbatim:{c}',
                                 observed=float(g[m]), expected=float(e[m]),
                                 detail=f'measured at {[int(v) for v in pos[idx[sel[m]]]]}'))
    return bads


def grid_emit(acc, case, probe, bads, single_runner):
    """Write the offending rows of one batched call out as violations of the smallest case that shows them:
    the single supplied position (single_runner(index) -> violations of that one-position case); a row that
    only misbehaves inside the batched call is reported with the batched call as its case."""
    per_key = {}
    cache = {}
    for b in bads:
        key = (b['clause'], b['site'])
        per_key[key] = per_key.get(key, 0) + 1
        if per_key[key] > GRID_CONFIRM:
            acc.counters['violating_cases'] += 1
            continue
        hit = None
        for t in (b['cands'] if single_runner is not None else []):
            if t not in cache:
                cache[t] = single_runner(t)
            m = [v for v in cache[t] if (v['clause'], v['site']) == key]
            if m:
                hit = m[0]
                break
        if hit is not None:
            if len(acc.violations) < 400:
                acc.violations.append(hit)
            acc.counters['violating_cases'] += 1
        else:
            acc.violation(b['clause'], b['site'], dict(case, probe=probe), b['observed'], b['expected'],
                          b['detail'] + ('' if single_runner is None else ' [not shown by any single-position call]'))


def sf_dense_xycoords(h, kshape, kmask):
    """Every pixel of the image is a supplied position.  They are fed in batches = the residue classes of the
    pixel grid modulo (2*ky+1, 2*kx+1), so that the kernel boxes of one call are a full kernel apart and every
    returned row is attributable to its position."""
    acc, case, F = h.acc, h.case, h.F
    ky, kx = kshape
    ny, nx = h.data.shape
    py, px = 2 * ky + 1, 2 * kx + 1

    def single_runner_for(grid):
        pos = R.grid_positions(grid)

        def run1(t):
            tmp = Acc()
            h1 = SFHarness(tmp, case, h.seed, data=h.data, mask=h.mask)
            q = [int(v) for v in pos[t]]
            probe = {'xycoords': [q]}
            rows = h1.run(probe, xycoords=np.array([q]))
            if rows == 'error':
                return tmp.violations
            g1 = dict(ox=q[0], oy=q[1], px=px, py=py, ncols=1, nrows=1, n=1)
            grid_emit(tmp, case, probe, grid_judge(F, h.data, rows, g1, kshape, kmask), None)
            return tmp.violations
        return run1

    for b in range(min(py, ny)):
        for a in range(min(px, nx)):
            ncols = len(range(a, nx, px))
            nrows = len(range(b, ny, py))
            grid = dict(ox=a, oy=b, px=px, py=py, ncols=ncols, nrows=nrows, n=ncols * nrows)
            probe = {'xycoords_grid': grid}
            rows = h.run(probe, xycoords=R.grid_positions(grid))
            if rows == 'error':
                continue
            acc.counters['dense_xycoords_positions'] += grid['n']
            acc.counters['dense_xycoords_rows'] += len(rows or [])
            grid_emit(acc, case, probe, grid_judge(F, h.data, rows, grid, kshape, kmask), single_runner_for(grid))


# ---------------------------------------------------------------------------------------------
# signed-patch mosaics: ALL patches of a template over a small signed alphabet, each measured at its centre
# ---------------------------------------------------------------------------------------------
# template -> cells (dy, dx) relative to the tile centre; every cell runs over the whole alphabet
PATCH_TEMPLATES = {
    'c33': [(dy, dx) for dy in (-1, 0, 1) for dx in (-1, 0, 1)],                                   # the central 3x3
    'plus': [(0, dx) for dx in (-2, -1, 0, 1, 2)] + [(dy, 0) for dy in (-2, -1, 1, 2)],           # central row + column
    'diag': [(d, d) for d in (-2, -1, 0, 1, 2)] + [(-d, d) for d in (-2, -1, 1, 2)],              # the two diagonals
}
# supplied position = tile centre + (dx, dy): the patch sits centred / off-centre in the kernel box.  The
# patch sets are closed under point reflection, as are the kernels, so (1,0),(0,1),(1,1),(1,-1) stand for all 8.
PATCH_AT = ((0, 0), (1, 0), (0, 1), (1, 1), (1, -1))
PATCH_TILES_PER_CALL = 19683          # 3**9


def patch_at(tier, finder):
    """Offsets of the supplied position per finder (cost: ~0.1 ms per position and call, spent inside photutils).
    The DAOFIND marginal fit is the centroid computation with fall-back branches: it gets the wider product."""
    if finder == 'SF':
        return ()                      # StarFinder has no xycoords
    if tier == 'thorough':
        return PATCH_AT
    return PATCH_AT[:3] if finder == 'DAO' else PATCH_AT[:1]


def patch_detect(tier, finder):
    """Is the peak-finding call made on the mosaic?  (IRAFStarFinder spends ~0.2 ms per source: quick tier only
    feeds it the supplied positions; its peak finding on signed data is covered by the noise scenes.)"""
    return tier == 'thorough' or finder != 'IRAF'


def patch_alpha(name, seed):
    """'L*' lattices (exact zero sums, ties); 'G': negative / zero / positive generic reals chosen by the seed."""
    if name == 'L':
        return (-1.0, 0.0, 1.0)
    if name == 'Ln':
        return (-2.0, 0.0, 1.0)
    if name == 'Lp':
        return (-1.0, 0.0, 2.0)
    if name == 'L4':
        return (-1.0, 0.0, 1.0, 2.0)
    rng = np.random.default_rng([int(seed), 1402])
    u, v = rng.uniform(0.0, 1.0, 2)
    return (-(0.5 + float(u)), 0.0, 0.5 + float(v))


def patch_configs(tier):
    """Finder configurations of the mosaics: sharpness / roundness bounds wide open (SFHarness.build), a
    threshold far below the cell values for the peak-finding call."""
    dao = DAO_KERNELS if tier == 'thorough' else DAO_KERNELS[:2]
    out = [{'finder': 'DAO', 'fwhm': f, 'ratio': r, 'theta': t, 'min_separation': 0.0, 'exclude_border': False,
            'threshold': 0.05} for f, r, t in dao]
    out += [{'finder': 'IRAF', 'fwhm': f, 'min_separation': 3.0, 'exclude_border': False, 'threshold': 0.05}
            for f in (2.5, 5.5)]
    out += [{'finder': 'SF', 'kernel': k, 'min_separation': 3.0, 'exclude_border': False, 'threshold': 0.05}
            for k in (('g7', 'e57') if tier == 'thorough' else ('e57',))]
    return out


def patch_spaces(tier, finder):
    """(template, alphabet) pairs of a finder; each is crossed with every configuration of that finder."""
    if tier != 'thorough':
        return [('c33', 'L'), ('c33', 'G')] if finder == 'DAO' else [('c33', 'G')]
    sp = [(t, a) for t in ('c33', 'plus', 'diag') for a in ('L', 'G', 'Ln', 'Lp')]
    return sp + ([('c33', 'L4')] if finder == 'DAO' else [])


def patch_families(tier):
    fams = []
    for cfg in patch_configs(tier):
        for tmpl, alpha in patch_spaces(tier, cfg['finder']):
            total = len(patch_alpha(alpha, 0)) ** len(PATCH_TEMPLATES[tmpl])
            nsh = -(-total // PATCH_TILES_PER_CALL)
            for j in range(nsh):
                fams.append({'kind': 'patch', 'tier': tier, 'config': cfg, 'template': tmpl, 'alpha': alpha,
                             'shard': j, 'nshards': nsh})
    return fams


def patch_codes(fam, seed):
    """-> (n, ncells) integer array of alphabet indices: one explicit code, or every nshards-th code of the
    full product (itertools.product order: first cell most significant)."""
    ncell = len(PATCH_TEMPLATES[fam['template']])
    nsym = len(patch_alpha(fam['alpha'], seed))
    if 'code' in fam:
        return np.array([fam['code']], int).reshape(1, ncell)
    t = np.arange(fam['shard'], nsym ** ncell, fam['nshards'])
    return (t[:, None] // (nsym ** np.arange(ncell - 1, -1, -1))[None, :]) % nsym


def patch_image(fam, seed, kshape):
    """-> (image, codes, grid of the tile centres).  Tiles of (2*ky+e-2) x (2*kx+e-2) pixels (e = extent of the
    template, 3 or 5): every kernel box centred on a pixel the patch can influence stays inside its own tile,
    and the kernel boxes of the supplied positions are more than a kernel apart."""
    cells = PATCH_TEMPLATES[fam['template']]
    alpha = np.array(patch_alpha(fam['alpha'], seed))
    codes = patch_codes(fam, seed)
    n = len(codes)
    ky, kx = kshape
    ext = 1 + 2 * max(max(abs(dy), abs(dx)) for dy, dx in cells)
    py, px = 2 * ky + ext - 2, 2 * kx + ext - 2
    ncols = min(n, 150)
    nrows = -(-n // ncols)
    img = np.zeros((nrows * py, ncols * px))
    t = np.arange(n)
    cyt = (t // ncols) * py + py // 2
    cxt = (t % ncols) * px + px // 2
    for c, (dy, dx) in enumerate(cells):
        img[cyt + dy, cxt + dx] = alpha[codes[:, c]]
    grid = dict(ox=px // 2, oy=py // 2, px=px, py=py, ncols=ncols, nrows=nrows, n=n)
    return img, codes, grid


def detect_literal(h, U, kshape):
    """Peak-finding call: every returned centroid lies within the kernel box of a pixel that the contract may
    select as a peak of the independently convolved image (certain or within eps of a decision -- the lattice
    mosaics are full of exact ties, so the peak SET is not judged here).  -> offending rows."""
    if not U:
        return []
    kern, kfoot, thr, ms, border, conv, eps, variants = sf_detect_rule(h)
    cand = np.zeros(conv.shape, bool)
    for offs in variants:
        sure, maybe = contract_peak_maps(conv, offs, thr, border, h.mask, eps)
        cand |= sure | maybe
    ky, kx = kshape
    ny, nx = cand.shape
    bad = []
    for k, r in enumerate(U):
        x0 = max(0, math.ceil(r['xcentroid'] - kx / 2 - 1e-9))
        x1 = min(nx - 1, math.floor(r['xcentroid'] + kx / 2 + 1e-9))
        y0 = max(0, math.ceil(r['ycentroid'] - ky / 2 - 1e-9))
        y1 = min(ny - 1, math.floor(r['ycentroid'] + ky / 2 + 1e-9))
        if x1 < x0 or y1 < y0 or not cand[y0:y1 + 1, x0:x1 + 1].any():
            bad.append((k, r))
    return bad


def patch_family(acc, fam, seed):
    """One mosaic (or one single tile when fam has 'code'): xycoords = tile centres + every offset of PATCH_AT
    (DAO, IRAF), and the peak-finding call (all three finders)."""
    F = fam['config']['finder']
    single = 'code' in fam
    h0 = SFHarness(acc, fam, seed, data=np.zeros((3, 3)))
    if F == 'SF':
        kshape = sf_kernel(fam['config']['kernel']).shape
        kmask = np.ones(kshape, bool)
    else:
        try:
            k0 = h0.build().kernel
        except Exception as e:
            acc.violation('sf-raises', f'{F}:constructor:{type(e).__name__}', dict(fam, probe='build'), repr(e), 'no exception')
            return
        kmask = np.array(k0.mask).astype(bool)
        kshape = kmask.shape
    img, codes, grid = patch_image(fam, seed, kshape)
    alpha = np.array(patch_alpha(fam['alpha'], seed))
    vals = alpha[codes]
    signed = int(((vals < 0).any(axis=1) & (vals > 0).any(axis=1)).sum())
    n = len(codes)
    h = SFHarness(acc, fam, seed, data=img)
    base = {k: v for k, v in fam.items() if k not in ('shard', 'nshards', 'code')}
    cache = {}

    def single_runner(t):
        if t not in cache:
            tmp = Acc()
            patch_family(tmp, dict(base, code=[int(c) for c in codes[t]]), seed)
            cache[t] = tmp.violations
        return cache[t]

    runner = None if single else single_runner
    for at in patch_at(fam.get('tier', 'quick'), F):
        g = dict(grid, ox=grid['ox'] + at[0], oy=grid['oy'] + at[1])
        probe = {'xycoords': 'tile centre + at', 'at': list(at)}
        rows = h.run(probe, xycoords=R.grid_positions(g))
        acc.evaluations += n
        acc.nontrivial += signed
        if rows == 'error':
            continue
        acc.counters['patch_positions'] += n
        acc.counters['patch_rows'] += len(rows or [])
        if rows:
            # rows whose centroid sits exactly on the supplied pixel in x or y: the shift was reset / is zero
            acc.counters['patch_rows_with_zero_shift'] += sum(
                1 for r in rows if r['xcentroid'] == round(r['xcentroid']) or r['ycentroid'] == round(r['ycentroid']))
        grid_emit(acc, fam, probe, grid_judge(F, img, rows, g, kshape, kmask), runner)
        if at == (0, 0) and not single:
            acc.outcome(f'{F}:{len(rows or [])}')
    # the peak-finding call on the same image
    if not patch_detect(fam.get('tier', 'quick'), F):
        return
    U = h.run('unrestricted')
    acc.case(nontrivial=bool(U) and U != 'error', sample=fam if fam.get('shard', 1) == 0 else None)
    if U == 'error':
        return
    acc.counters['patch_detect_rows'] += len(U or [])
    bad = detect_literal(h, U, kshape)
    per = 0
    for k, r in bad:
        per += 1
        if per > GRID_CONFIRM:
            acc.counters['violating_cases'] += 1
            continue
        obs = (r['xcentroid'], r['ycentroid'])
        hit = None
        if runner is not None:
            t0 = int(R.grid_assign([obs[0]], [obs[1]], dict(grid, n=grid['ncols'] * grid['nrows']))[0])
            near = [t0 + a * grid['ncols'] + b for a in (0, -1, 1) for b in (0, -1, 1)] if t0 >= 0 else []
            for t in near:
                if 0 <= t < n:
                    m = [v for v in runner(t) if v['key'] == f'sf-centroid-in-kernel|{F}:detected-peak']
                    if m:
                        hit = m[0]
                        break
        if hit is not None:
            if len(acc.violations) < 400:
                acc.violations.append(hit)
            acc.counters['violating_cases'] += 1
        else:
            acc.violation('sf-centroid-in-kernel', f'{F}:detected-peak', dict(fam, probe='unrestricted'), obs,
                          'within the kernel box of a pixel the contract can select as a peak', f'row {k} of {len(U)}')



# ---------------------------------------------------------------------------------------------
# plan / run / replay
# ---------------------------------------------------------------------------------------------
def plan(tier, seed):
    units = []
    for si, sp in enumerate(fp_spaces(tier)):
        n = _space_size(sp)
        nsh = max(1, min(48, n // 12000))
        for j in range(nsh):
            units.append({'kind': 'find_peaks', 'space': si, 'shard': j, 'nshards': nsh})
    nf = len(sf_families(tier))
    nsh = 16 if tier != 'thorough' else 64
    for j in range(nsh):
        units.append({'kind': 'starfinder', 'shard': j, 'nshards': nsh, 'families': nf})
    for fam in patch_families(tier):
        units.append(fam)
    return units


def run_unit(unit, tier, seed):
    acc = Acc()
    if unit['kind'] == 'find_peaks':
        run_fp_unit(acc, unit, tier)
    elif unit['kind'] == 'patch':
        patch_family(acc, unit, seed)
    else:
        for i, fam in enumerate(sf_families(tier)):
            if i % unit['nshards'] == unit['shard']:
                sf_family(acc, fam, seed)
    return acc


def replay(case, seed):
    acc = Acc()
    if case.get('kind') == 'find_peaks':
        fp_case(acc, case, _fp_mods())
    elif case.get('kind') == 'patch':
        patch_family(acc, {k: v for k, v in case.items() if k != 'probe'}, seed)
    else:
        fam = {k: v for k, v in case.items() if k != 'probe'}
        sf_family(acc, fam, seed)
    return acc


def describe(tier, seed):
    sps = []
    struct_used = {}
    for sp in fp_spaces(tier):
        d = {k: (list(v) if isinstance(v, tuple) else v) for k, v in sp.items()}
        d['symbols'] = ['nan' if s != s else s for s in ALPHA[sp['alpha']]]
        d['cases'] = _space_size(sp)
        axis = _thr_axis(sp)
        d['thresholds_after_expansion'] = len(axis)
        names = [t['name'] for t in axis if isinstance(t, dict) and t['name'] != 'all']
        if names:
            d['structured_maps'] = names
            struct_used['x'.join(str(n) for n in sp['shape'])] = {
                name: code for name, code in _struct_maps(sp['shape']) if name in names}
        sps.append(d)
    fams = sf_families(tier)
    scenes = SCENES_THOROUGH if tier == 'thorough' else SCENES_QUICK
    star = {'image_shape': list(SHAPE),
            'scenes': {k: {'sources_x_y_amp_fwhm_ratio_theta': SCENES[k][0], 'nan_pixels_y_x': SCENES[k][1],
                           'noise_sigma': scene_spec(k)[2], 'every_pixel_as_xycoords': scene_is_dense(k)} for k in scenes},
            'masks': ['None', 'centre pixel of the first source'],
            'families': {'detect': sum(1 for f in fams if f['family'] == 'detect'),
                         'filters': sum(1 for f in fams if f['family'] == 'filters')},
            'detect_configs': sf_configs(tier, 'detect')[::7][:12],
            'detect_axes': 'DAO (fwhm, ratio, theta) x min_separation x exclude_border x threshold; IRAF fwhm x '
                           'min_separation (0 -> default from minsep_fwhm) x exclude_border x threshold; StarFinder '
                           'kernel {7x7 round, 5x7 elongated} x min_separation x exclude_border x threshold',
            'per_detect_family': 'unrestricted run == rows at the contract peaks of an independently convolved image; '
                                 'every contract peak re-run as a single supplied position: centroid within the kernel '
                                 'box (half the kernel size each way) of its OWN peak; '
                                 'brightest = 1..N+1; peakmax at / just beyond every reported peak; peakmax + brightest',
            'per_filters_family': 'additionally every bound (sharplo, sharphi, roundlo, roundhi, peakmax) exactly at and '
                                  'one ulp beyond every reported value; xycoords lists (source centres, off-centre, corner, '
                                  'blank sky) singly and together, with the same bound sweep; on the noise scenes '
                                  'additionally every one of the 525 pixels as a supplied position (centroid in the box '
                                  'of its own position, one row per position in order, peak/flux/npix verbatim)',
            'dao_kernels_fwhm_ratio_theta': [list(k) for k in (DAO_KERNELS if tier == 'thorough' else DAO_KERNELS[:2])]}
    pf = patch_families(tier)
    mos = {'templates_cells_dy_dx': {t: [list(c) for c in PATCH_TEMPLATES[t]] for t in sorted({f['template'] for f in pf})},
           'alphabets': {a: list(patch_alpha(a, seed)) for a in sorted({f['alpha'] for f in pf})},
           'tile': '(2*ky+e-2) x (2*kx+e-2) pixels, e = template extent; 150 tiles per mosaic row, <= 19683 tiles per image',
           'products': []}
    for cfg in patch_configs(tier):
        F = cfg['finder']
        spaces = patch_spaces(tier, F)
        mos['products'].append({
            'config': cfg, 'template_x_alphabet': [list(x) for x in spaces],
            'supplied_position_offsets_dx_dy': [list(a) for a in patch_at(tier, F)],
            'peak_finding_call': patch_detect(tier, F),
            'tiles': sum(len(patch_alpha(a, 0)) ** len(PATCH_TEMPLATES[t]) for t, a in spaces)})
    mos['oracle'] = ('xycoords: every row within the kernel box of its own supplied position, one row per position in '
                     'order, peak/flux/npix (IRAF: and first-moment centroid) of exactly that position; peak finding: '
                     'every row within the kernel box of a possible contract peak; ids, finiteness, None/warning as in '
                     'the scenes')
    star['signed_patch_mosaics'] = mos
    return {'alphabet': {'find_peaks_spaces': sps,
                         'footprints': {k: (v if isinstance(v, (str, type(None))) else v) for k, v in FOOT.items()},
                         'threshold_maps': {k: list(v) for k, v in THRMAP.items()},
                         'threshold_map_levels': {k: list(v) for k, v in THRLEVELS.items()},
                         'threshold_map_axis': {
                             'all:<levels>': 'every assignment of the levels to the pixels of a map of the image shape',
                             'struct:<levels>': 'structured family over (lowest, highest) level, 0 = low / 1 = high, '
                                                'flat C order; struct4 = its first four members',
                             'structured_maps_0low_1high': struct_used},
                         'star_finders': star}}
