"""C13 -- PSF/PRF models are flux-normalised and interpolate their data
faithfully; GriddedPSFModel / ImagePSF are independent of evaluation history.

Shape (C) for the functional models, ImagePSF and GriddedPSFModel (full
products over the alphabets returned by ``alphabets()``), shape (A) (explorer
BFS, depth <= 3/4) for the evaluation-history part: 'mixed' roots (few positions,
all operations, deep) and 'cells' / 'cells-deep' roots (wide / tall grids, a
position in every grid cell, every ordered pair / triple of cells with and without
a copy in between).

Oracles (mcphot/ref/psfref.py, no photutils code):
  prf-sum        sum over the integer pixel grid (+-9.5 sigma) == flux
  psf-integral   Gaussian: Riemann sum on a shifted lattice of step sigma_min/2
                 (Poisson-summation error < 1e-33); Moffat/Airy: polar Gauss-Legendre
                 quadrature to R compared with flux*EE(R) (closed forms) at every panel edge
  nonneg, centred (point symmetry about (x_0, y_0) and maximum there; bounding box midpoint),
  linear-flux, circ-eq-ellip, sigma-eq-fwhm, prf-eq-pixel-integral-of-psf
  image-*        ImagePSF == flux*data[i, j] at interior samples, fill_value outside, bicubic
                 polynomial data reproduced between samples
  gridded-*      GriddedPSFModel == bilinear blend of the stored arrays at interior samples
  history-*      last evaluation bit-identical to a fresh model's
  layout-*       evaluation is POINTWISE: for every model class (8 functional, ImagePSF, GriddedPSFModel), the output for
                 coordinate arguments of any shape / memory layout / order / container (mcphot/ref/c13_layouts.py: 1-D lists
                 in any order, 2-D meshes in the image layout and NOT in the image layout (indexing='ij', transposed views,
                 scattered points in 2-D arrays, a mesh whose interior is shuffled, (1, n) / (n, 1)), strided / flipped / Fortran / zero-stride views, x and y
                 of different broadcastable shapes, scalars mixed with arrays, 3-D arrays, nested lists, integer dtypes)
                 has the broadcast shape of the arguments and every element equals the value model(x, y) returns for that
                 single point given as two Python floats -- so that the sums / integrals / blends verified above on the
                 image layout hold for every evaluation grid
"""
import copy as _copy
import itertools
import math
import warnings

import numpy as np

from ..runner import Acc
from ..ref import psfref as R

PROPERTY = 'C13'
LEVEL = 'exploration'
RULE = ('full Cartesian products: (model class x width(s) x theta x sub-pixel centre x flux) for the 8 functional '
        'models; (data shape x oversampling x origin x (x_0,y_0) x flux x fill_value) for ImagePSF; (grid layout x '
        'input order x oversampling x model position x fill_value) for GriddedPSFModel; plus BFS over all histories '
        'of {evaluate at position k, evaluate() with explicit parameters, copy, deepcopy, evaluate-on-a-copy, '
        'parameter / fill_value / oversampling / origin assignment} to the stated depth on one instance (roots of mode '
        '"mixed": 2x3, irregular 3x3, 1x3 grids and an ImagePSF; 6-9 positions of every kind: grid point, cell centre, '
        'generic interior, grid line, outside), plus, on wide and tall grids (rows x columns 3x5 and 5x3; thorough also '
        '3x6 and 6x4; roots of mode "cells"), BFS over all histories of {call, evaluate(), call on a copy(), call on a '
        'deepcopy()} x {a generic interior position of EVERY grid cell (same x_0 along a column, same y_0 along a row), '
        'a second position of one cell with the same integer part and different fraction, an interior grid point and two '
        'positions in different cells that round to it, the mirror image (y, x) of a cell position} + {replace by copy, '
        'replace by deepcopy}: depth 2 (every ordered pair of cells x every pair of ways of evaluating), and (roots of mode '
        '"cells-deep") over {call} x {the same positions} + {replace by copy, replace by deepcopy} to depth 3 (thorough: 4 '
        'on the 3x5 / 5x3 grids). Grid layout names are ROWS x COLUMNS. A product '
        'case is non-trivial when the model output on its evaluation grid is non-constant and contains at least 90% '
        'of the flux (functional models) / the checked sample set is non-empty and at least two reference arrays '
        'have non-zero weight or the position is clamped (gridded); a history is non-trivial when it contains an '
        'evaluation before its last operation. States of the BFS are digests of the complete instance __dict__ '
        '(parameters, data, every cached spline with its coefficients). '
        'Pointwise-evaluation part ("layout"): (model configuration: the 8 functional classes x width(s) x theta x centre x '
        '{plain flux, flux with a unit}; ImagePSF: data shape x oversampling x origin x (x_0, y_0) x fill_value; '
        'GriddedPSFModel: grid layout x input order x oversampling x one position of every kind x fill_value) x (3 windows of '
        'points: 5 columns x 3 rows, 3 x 4 and square 4 x 4; integer pixels and fractional coordinates scaled with the model '
        'width for the functional models; interior samples, between samples and straddling the array edge (fill_value '
        'region) for ImagePSF / GriddedPSFModel) x {model(x, y), model.evaluate(x, y, *parameters)} x EVERY coordinate-array '
        'layout of mcphot/ref/c13_layouts.py (40 layouts in 7 groups: 1-D, 2-D-xy-mesh, 2-D-not-xy-mesh, broadcast, 3-D, list, '
        'integer-dtype; the 4 integer-dtype layouts only on windows with integer coordinates; evaluate() only with layouts '
        'whose two arguments are numpy arrays); a layout case is non-trivial when the single-point reference values on its '
        'window are not all equal.')
ASSUMPTIONS = ['numpy, math, scipy.special.erf/j0/j1 and numpy Gauss-Legendre nodes are trusted',
               'scipy RectBivariateSpline (kx=ky=3, s=0) is trusted to interpolate its knots and to reproduce '
               'bicubic polynomials; it is never used as the oracle',
               'the tails of the Moffat and Airy integrals beyond the last quadrature radius use the documented '
               'profile (closed-form encircled energy); the numerical part is executed on the real code',
               'an astropy Model instance behaves as a function of its class and its __dict__ (state digest)',
               'widths are taken from a finite alphabet >= 0.2 px; defects between alphabet points are outside the bound',
               'pointwise evaluation: the reference value of a point is model(float x, float y) of the real code (its '
               'correctness is what the sum / integral / sample / blend clauses establish); coordinate layouts outside the 40 '
               'enumerated ones (e.g. masked arrays, Quantity coordinates, float32 / float16 coordinates whose arithmetic '
               'precision the property does not state, arrays of more than 3 dimensions, windows larger than 5 x 4 points) are '
               'outside the bound; GriddedPSFModel documents a ValueError for more than 2 dimensions (counted as skipped)',
               'evaluation histories visit every cell of grids up to 3x5 / 5x3 (thorough 3x6 / 6x4) rows x columns: a '
               'per-cell or per-grid-point bookkeeping error that needs a larger grid, more than 3 (thorough 4) '
               'evaluations, or two particular positions inside cells that the alphabet does not contain is outside the bound']

F2S = R.F2S

# diagnostic only: worst observed error / tolerance per clause in this process (tolerance calibration,
# run every non-history unit of plan() in one process and print this dict); never influences a verdict
WORST = {}


def _track(clause, ratio):
    try:
        r = float(np.nanmax(ratio))
    except ValueError:
        return
    if r > WORST.get(clause, 0.0):
        WORST[clause] = r


# --------------------------------------------------------------------------
# alphabets
# --------------------------------------------------------------------------


def _generic(seed):
    """The seed only chooses the 'generic real numbers' of the alphabets."""
    rng = np.random.default_rng(1000 + seed)
    g1 = float(np.round(rng.uniform(0.27, 0.45), 4)) + 1e-5 * math.pi
    g2 = float(np.round(rng.uniform(0.05, 0.23), 4)) + 1e-5 * math.e
    return g1, g2


def alphabets(tier, seed):
    g1, g2 = _generic(seed)
    thorough = tier == 'thorough'
    A = {}
    A['width'] = [0.2, 0.5, 1.0, 2.3, 5.0] if not thorough else [0.2, 0.3, 0.5, 0.75, 1.0, 1.5, 2.3, 3.7, 5.0, 8.0]
    A['centre1d'] = [0.0, 0.25, 0.5, g1] + ([-4.7, 10.0 + g2] if thorough else [])
    # centres used where the 2-D integral does not depend on the pixel phase (PSF integrals)
    A['centre_psf'] = [(0.0, 0.0), (g1, -4.7), (10.0 + g2, 0.5)] + ([(0.25, g1), (-4.7, -4.7)] if thorough else [])
    A['theta'] = [(0.0, None), (30.0, None), (45.0, None), (90.0, None), (135.0, None), (200.0, None)]
    if thorough:
        A['theta'] += [(-60.0, None), (180.0, None), (270.0, None), (360.0, None), (17.3, None),
                       (30.0, 'deg'), (90.0, 'deg'), (45.0, 'rad')]
    else:
        A['theta'] += [(30.0, 'deg'), (90.0, 'rad')]
    A['beta'] = [1.5, 2.5, 4.765] + ([1.05, 10.0] if thorough else [])
    A['flux'] = [1.0, 3.7, ('Jy', 2.5), 0.0]
    return A


# --------------------------------------------------------------------------
# functional models
# --------------------------------------------------------------------------
PRF_CLASSES = ['CircularGaussianPRF', 'CircularGaussianSigmaPRF', 'IntegratedGaussianPRF', 'GaussianPRF']
PSF_CLASSES = ['CircularGaussianPSF', 'GaussianPSF', 'MoffatPSF', 'AiryDiskPSF']


def _theta_arg(theta):
    deg, unit = theta
    if unit is None:
        return deg
    import astropy.units as u
    if unit == 'deg':
        return deg * u.deg
    return math.radians(deg) * u.rad


def make_model(name, params, centre, flux):
    """Construct the real model from a JSON-able description."""
    import astropy.units as u
    import photutils.psf as P
    kw = {}
    for k, v in params.items():
        kw[k] = _theta_arg(v) if k == 'theta' else v
    if isinstance(flux, (list, tuple)):
        flux = flux[1] * u.Unit(flux[0])
    with warnings.catch_warnings():
        warnings.simplefilter('ignore')
        return getattr(P, name)(flux=flux, x_0=centre[0], y_0=centre[1], **kw)


def _fluxval(flux):
    return float(flux[1]) if isinstance(flux, (list, tuple)) else float(flux)


def call(m, x, y):
    """Evaluate the real model; strip a flux unit (returned separately)."""
    v = m(x, y)
    unit = getattr(v, 'unit', None)
    if unit is not None:
        v = v.value
    return np.asarray(v, dtype=float), (str(unit) if unit is not None else None)


def sigmas(name, params):
    """(sigma_min, sigma_max) of the Gaussian models from the documented parameter meaning."""
    if name in ('CircularGaussianPRF', 'CircularGaussianPSF'):
        s = params['fwhm'] * F2S
        return s, s
    if name in ('CircularGaussianSigmaPRF', 'IntegratedGaussianPRF'):
        return params['sigma'], params['sigma']
    a, b = params['x_fwhm'] * F2S, params['y_fwhm'] * F2S
    return min(a, b), max(a, b)


def rotated(params):
    th = params.get('theta')
    if th is None:
        return False
    r = math.fmod(th[0], 90.0)
    return abs(r) > 1e-9


def prf_site(name, params):
    """Site (= which defect) of a failing pixel-sum.  The pinned tree's
    GaussianPRF integrates the Gaussian over ROTATED unit squares, which do not
    tile the plane; the sum then deviates from the flux by at most
    4*exp(-2 pi^2 sigma_min^2) (Poisson summation), i.e. < 1e-24 for
    fwhm >= 4 px.  Only rotated AND narrow cases can be that known defect."""
    if name == 'GaussianPRF' and rotated(params) and min(params['x_fwhm'], params['y_fwhm']) < 4.0:
        return 'GaussianPRF:theta%90!=0'
    return name


# offsets (in pixels) of the point-symmetry / maximum test; dyadic so that x_0 +- d is exact for dyadic x_0
OFFSETS = [(0.5, 0.0), (0.0, 0.5), (0.25, -0.75), (1.25, 2.0), (-0.375, 0.125), (3.0, -1.0), (0.0625, 0.03125)]


def check_common(acc, case, name, params, centre, flux, m, is_prf):
    """nonneg / centred / bbox clauses shared by all functional models.
    Returns the (value at centre) or None if evaluation failed."""
    fv = _fluxval(flux)
    cx, cy = centre
    d = np.array(OFFSETS)
    # scale the offsets by the model width as well, so that narrow and wide models are both probed on their slopes
    if name in ('MoffatPSF',):
        scale = params['alpha']
    elif name == 'AiryDiskPSF':
        scale = params['radius']
    else:
        scale = sigmas(name, params)[1]
    d = np.concatenate([d, d * scale])
    xp, yp = cx + d[:, 0], cy + d[:, 1]
    xm, ym = cx - d[:, 0], cy - d[:, 1]
    try:
        vp, _ = call(m, xp, yp)
        vm, _ = call(m, xm, ym)
        v0, _ = call(m, np.array([cx]), np.array([cy]))
    except Exception as e:  # the property demands a value for every in-range parameter set
        acc.violation('raises', f'{name}:{type(e).__name__}', case, repr(e), 'a value')
        return None
    v0 = float(v0[0])
    if fv > 0:
        # centred: f(c+d) == f(c-d).  (c+d)-c and c-(c-d) differ by <= 1 ulp(|c|+|d|) ~ 4e-15 for |c| <= 15;
        # the logarithmic slope of the narrowest model (sigma 0.085, erf tails) is < 1e3 per pixel over the
        # offsets used, so rtol 1e-9 covers the rounding by x100; atol: values below 1e-13 of the peak are
        # differences of erf values each rounded at 1e-16.
        tol = 1e-9 * np.maximum(np.abs(vp), np.abs(vm)) + 1e-13 * abs(v0)
        _track('centred-symmetry', np.abs(vp - vm) / tol)
        bad = np.abs(vp - vm) > tol
        if bad.any():
            i = int(np.argmax(bad))
            acc.violation('centred-symmetry', name, case, [float(vp[i]), float(vm[i])], 'equal',
                          f'value at centre+{d[i].tolist()} differs from value at centre-{d[i].tolist()}')
        mx = max(float(vp.max()), float(vm.max()))
        if mx > v0 * (1 + 1e-12):
            acc.violation('centred-peak', name, case, mx, v0, 'a sample away from (x_0, y_0) exceeds the value at (x_0, y_0)')
        if not (v0 > 0):
            acc.violation('centred-peak', name, case, v0, '> 0', 'value at (x_0, y_0) is not positive')
    # non-negative: exact for the analytic PSFs; for erf differences allow the 1-ulp non-monotonicity of erf
    lo = min(float(vp.min()), float(vm.min()), v0)
    if lo < -2e-16 * abs(fv):
        acc.violation('nonneg', name, case, lo, '>= 0')
    # bounding box midpoint == (x_0, y_0)
    try:
        bb = m.bounding_box
        (ylo, yhi), (xlo, xhi) = bb.bounding_box() if hasattr(bb, 'bounding_box') else bb
        mid = (0.5 * (float(getattr(xlo, 'value', xlo)) + float(getattr(xhi, 'value', xhi))),
               0.5 * (float(getattr(ylo, 'value', ylo)) + float(getattr(yhi, 'value', yhi))))
        half = 0.5 * abs(float(getattr(xhi, 'value', xhi)) - float(getattr(xlo, 'value', xlo)))
        # midpoint of (c-h, c+h) computed in floating point: error <= 2 ulp(|c|+h)
        if abs(mid[0] - cx) > 1e-12 * (abs(cx) + half + 1) or abs(mid[1] - cy) > 1e-12 * (abs(cy) + half + 1):
            acc.violation('centred-bbox', name, case, mid, [cx, cy], 'bounding box is not centred on (x_0, y_0)')
    except Exception as e:
        acc.violation('raises', f'{name}.bounding_box:{type(e).__name__}', case, repr(e), 'a bounding box')
    return v0


def check_prf(acc, case):
    name, params, centre, flux = case['model'], case['params'], case['centre'], case['flux']
    fv = _fluxval(flux)
    try:
        m = make_model(name, params, centre, flux)
    except Exception as e:
        acc.violation('raises', f'{name}():{type(e).__name__}', case, repr(e), 'a model')
        acc.case(nontrivial=False)
        return
    smin, smax = sigmas(name, params)
    rad = int(math.ceil(9.5 * smax)) + 2          # Gaussian mass beyond 9.5 sigma: erfc(9.5/sqrt2) < 3e-21
    ix = np.arange(round(centre[0]) - rad, round(centre[0]) + rad + 1)
    iy = np.arange(round(centre[1]) - rad, round(centre[1]) + rad + 1)
    xx, yy = np.meshgrid(ix, iy)
    try:
        v, unit = call(m, xx, yy)
    except Exception as e:
        acc.violation('raises', f'{name}:{type(e).__name__}', case, repr(e), 'values')
        acc.case(nontrivial=False)
        return
    tot = float(v.sum())
    acc.case(nontrivial=bool(np.ptp(v) > 0 and tot > 0.9 * fv), sample=case if acc.evaluations % 401 == 3 else None)
    acc.outcome(round(tot / fv, 6) if fv else 0)
    if isinstance(flux, (list, tuple)) and unit != flux[0]:
        acc.violation('flux-unit', name, case, unit, flux[0], 'output does not carry the flux unit')
    # every pixel value is flux/4 * product of two erf differences, each with absolute rounding error
    # <= 2 ulp(1) = 4.4e-16; the sum of the (2 rad + 1)^2 <= 3500 pixels therefore carries at most
    # ~ (2 rad + 1) * 2 * 4.4e-16 * flux < 1e-13 * flux (errors of one row share one factor);
    # measured worst case on the unchanged tree 4.8e-16 (seeds 0-2).  1e-11 leaves x100 over the bound.
    if fv and prf_site(name, params) == name:
        _track('prf-sum', abs(tot - fv) / (1e-11 * fv))
    if abs(tot - fv) > 1e-11 * abs(fv):
        acc.violation('prf-sum', prf_site(name, params), case, tot, fv,
                      f'sum over the {v.shape[1]}x{v.shape[0]} pixel grid / flux - 1 = {tot / fv - 1 if fv else tot:.3e}')
    if float(v.min()) < -2e-16 * abs(fv):
        acc.violation('nonneg', name, case, float(v.min()), '>= 0')
    v0 = check_common(acc, case, name, params, centre, flux, m, True)
    if v0 is not None and fv > 0 and float(v.max()) > v0 * (1 + 1e-12):
        acc.violation('centred-peak', name, case, float(v.max()), v0, 'a pixel value exceeds the value at (x_0, y_0)')


def check_psf(acc, case):
    name, params, centre, flux = case['model'], case['params'], case['centre'], case['flux']
    fv = _fluxval(flux)
    try:
        m = make_model(name, params, centre, flux)
    except Exception as e:
        acc.violation('raises', f'{name}():{type(e).__name__}', case, repr(e), 'a model')
        acc.case(nontrivial=False)
        return

    def f(x, y):
        return call(m, x, y)[0]

    try:
        if name in ('GaussianPSF', 'CircularGaussianPSF'):
            smin, smax = sigmas(name, params)
            tot, vmin, npts = R.lattice_integral(f, centre[0], centre[1], smin, smax)
            acc.case(nontrivial=bool(tot > 0.9 * fv), sample=case if acc.evaluations % 101 == 3 else None)
            acc.outcome(round(tot / fv, 6) if fv else 0)
            # up to 7e5 lattice values each with relative error ~1e-15 (exp of a rounded exponent <= 36):
            # the sum carries <~ 1e-13 relative; measured worst case on the unchanged tree 3.7e-14 (x270 below the tolerance).
            _track('psf-integral:lattice', abs(tot - fv) / (1e-11 * fv))
            if abs(tot - fv) > 1e-11 * abs(fv):
                acc.violation('psf-integral', name, case, tot, fv, f'integral/flux - 1 = {tot / fv - 1:.3e} ({npts} lattice points)')
        else:
            if name == 'MoffatPSF':
                a = params['alpha']
                edges = a * np.array([0, 0.5, 1, 2, 4, 8, 16, 32, 64, 128, 256.0])
                want = np.array([R.ee_moffat(r, a, params['beta']) for r in edges[1:]])
                nr = 24
            else:
                a = params['radius']
                edges = a * np.arange(0, 20.5, 0.5)
                want = np.array([R.ee_airy(r, a) for r in edges[1:]])
                nr = 16
            cum, vmin, vmax = R.polar_cumulative(f, centre[0], centre[1], edges, nr=nr)
            acc.case(nontrivial=bool(vmax > vmin and cum[-1] > 0.9 * fv), sample=case if acc.evaluations % 37 == 3 else None)
            acc.outcome(round(cum[-1] / fv, 6) if fv else 0)
            # composite Gauss-Legendre: the integrands are analytic with the nearest singularity (Moffat: r = +-i alpha)
            # at Bernstein parameter rho >= 3.7 for every panel => truncation < rho^-48 ~ 1e-27; Airy panels span
            # < 0.31 oscillation periods, 16 nodes => < 1e-20.  What remains is rounding of ~200-700 values: 1e-13.
            # Measured worst case on the unchanged tree: 8.4e-16 (Moffat), 7.2e-16 (Airy).
            err = np.abs(cum - fv * want)
            _track('psf-integral:' + name, err / (1e-11 * fv))
            if (err > 1e-11 * abs(fv)).any():
                i = int(np.argmax(err))
                acc.violation('psf-integral', name, case, float(cum[i]), float(fv * want[i]),
                              f'flux inside R={edges[i + 1]:.4g} px; total = numeric part + documented tail; rel err {err[i] / fv:.3e}')
            if vmin < 0:
                acc.violation('nonneg', name, case, vmin, '>= 0')
    except Exception as e:
        acc.violation('raises', f'{name}:{type(e).__name__}', case, repr(e), 'values')
        acc.case(nontrivial=False)
        return
    if name in ('GaussianPSF', 'CircularGaussianPSF') and vmin < 0:
        acc.violation('nonneg', name, case, vmin, '>= 0')
    check_common(acc, case, name, params, centre, flux, m, False)


def check_halfmax(acc, case):
    """The value half a FWHM away from the centre is half the central value
    (definition of the parameter / property named ``fwhm``); for the elliptical
    Gaussian along its own (counter-clockwise rotated) axes."""
    name, params, centre, flux = case['model'], case['params'], case['centre'], case['flux']
    m = make_model(name, params, centre, flux)
    cx, cy = centre
    if name == 'GaussianPSF':
        t = math.radians(params['theta'][0])
        pts = [(0.5 * params['x_fwhm'] * math.cos(t), 0.5 * params['x_fwhm'] * math.sin(t)),
               (-0.5 * params['y_fwhm'] * math.sin(t), 0.5 * params['y_fwhm'] * math.cos(t))]
    else:
        if name == 'CircularGaussianPSF':
            fw = params['fwhm']
        else:
            fw = float(m.fwhm)
        pts = [(0.5 * fw, 0.0), (0.0, -0.5 * fw), (0.3 * fw, 0.4 * fw)]
    try:
        v, _ = call(m, np.array([cx] + [cx + p[0] for p in pts]), np.array([cy] + [cy + p[1] for p in pts]))
    except Exception as e:
        acc.violation('raises', f'{name}:{type(e).__name__}', case, repr(e), 'values')
        acc.case(nontrivial=False)
        return
    acc.case(nontrivial=bool(v[0] > 0))
    # rounding of the centre+offset (<= 4e-15 px) times the logarithmic slope at half maximum (2.8/fwhm <= 14 per px)
    # gives < 1e-13; the Airy FWHM constant is documented to 16 digits.  rtol 1e-10 leaves x1000.
    _track('fwhm-half-max:' + name, np.abs(v[1:] - 0.5 * v[0]) / (1e-10 * abs(v[0])))
    for p, val in zip(pts, v[1:]):
        if abs(val - 0.5 * v[0]) > 1e-10 * abs(v[0]):
            acc.violation('fwhm-half-max', name, case, float(val / v[0]) if v[0] else float(val), 0.5,
                          f'value at offset {list(p)} from the centre relative to the central value')
            break


def check_linear(acc, case):
    """model(flux=a) == a * model(flux=1); flux = 0 gives zeros; a unit on flux is carried."""
    name, params, centre = case['model'], case['params'], case['centre']
    if name in ('MoffatPSF',):
        scale = params['alpha']
    elif name == 'AiryDiskPSF':
        scale = params['radius']
    else:
        scale = sigmas(name, params)[1]
    g = np.linspace(-3.0, 3.0, 7)
    xx, yy = np.meshgrid(centre[0] + g * scale + 0.013, centre[1] + g * scale * 0.83 - 0.007)
    try:
        v1, _ = call(make_model(name, params, centre, 1.0), xx, yy)
    except Exception as e:
        acc.violation('raises', f'{name}:{type(e).__name__}', case, repr(e), 'values')
        acc.case(nontrivial=False)
        return
    for flux in case['fluxes']:
        fv = _fluxval(flux)
        c2 = dict(case, flux=flux)
        try:
            v, unit = call(make_model(name, params, centre, flux), xx, yy)
        except Exception as e:
            acc.violation('raises', f'{name}:{type(e).__name__}', c2, repr(e), 'values')
            continue
        acc.case(nontrivial=bool(np.ptp(v1) > 0))
        # one multiplication by flux in a different place of the expression: <= 3 ulp
        # (+1e-290: products of subnormal values lose relative precision)
        _track('linear-flux', np.abs(v - fv * v1) / (1e-14 * np.abs(fv * v1) + 1e-290))
        if not np.all(np.abs(v - fv * v1) <= 1e-14 * np.abs(fv * v1) + 1e-290):
            i = int(np.argmax(np.abs(v - fv * v1)))
            acc.violation('linear-flux', name, c2, float(v.ravel()[i]), float(fv * v1.ravel()[i]))
        if isinstance(flux, (list, tuple)) and unit != flux[0]:
            acc.violation('flux-unit', name, c2, unit, flux[0], 'output does not carry the flux unit')


def _grid_for(centre, scale, n=9, span=3.0):
    g = np.linspace(-span, span, n)
    return np.meshgrid(centre[0] + g * scale + 0.0131, centre[1] + g * scale * 0.83 - 0.0077)


def check_pair(acc, case):
    """Mutual consistency of two real models on a sample grid (metamorphic)."""
    kind = case['pair']
    centre, flux = case['centre'], case['flux']
    a_name, a_par = case['a']
    b_name, b_par = case['b']
    try:
        ma = make_model(a_name, a_par, centre, flux)
        mb = make_model(b_name, b_par, centre, flux)
        smax = sigmas(a_name, a_par)[1]
        xx, yy = _grid_for(centre, max(smax, 0.3))
        if kind.endswith('PRF'):
            # integer pixel grid as well
            ix = np.arange(round(centre[0]) - 4, round(centre[0]) + 5)
            iy = np.arange(round(centre[1]) - 4, round(centre[1]) + 5)
            px, py = np.meshgrid(ix, iy)
            xx = np.concatenate([xx.ravel(), px.ravel()])
            yy = np.concatenate([yy.ravel(), py.ravel()])
        va, _ = call(ma, xx, yy)
        vb, _ = call(mb, xx, yy)
    except Exception as e:
        acc.violation('raises', f'{a_name}/{b_name}:{type(e).__name__}', case, repr(e), 'values')
        acc.case(nontrivial=False)
        return
    acc.case(nontrivial=bool(np.ptp(va) > 0), sample=case if acc.evaluations % 211 == 3 else None)
    peak = float(max(va.max(), vb.max()))
    # The two forms compute the same exponent / erf arguments through different but equivalent expressions
    # (cos^2+sin^2, fwhm*F2S vs sigma): relative argument error ~4 ulp, amplified by the exponent (<= 40 on this
    # grid) => 4e-14 relative; erf differences add 4e-16 absolute per factor.  Measured worst error/tolerance on the
    # unchanged tree: 0.069 (rotation-equivalence PSF), 0.017 (PRF), 0.0024 (circular vs elliptical): >= x14 margin.
    tol = 1e-12 * np.maximum(np.abs(va), np.abs(vb)) + 1e-14 * peak
    if not (kind == 'circ-eq-ellip:PRF' and rotated(b_par)):
        _track(kind, np.abs(va - vb) / tol)
    bad = np.abs(va - vb) > tol
    if bad.any():
        i = int(np.argmax(np.abs(va - vb) - tol))
        if kind == 'circ-eq-ellip:PRF' and rotated(b_par):
            # same defect as the rotated pixel sum (the erf product integrates over rotated pixels)
            clause, site = 'prf-sum', 'GaussianPRF:theta%90!=0'
        else:
            clause, site = kind.split(':')[0], kind.split(':')[1] + ':' + a_name + '/' + b_name
        acc.violation(clause, site, case, float(va.ravel()[i]), float(vb.ravel()[i]),
                      f'{a_name}{a_par} vs {b_name}{b_par} at ({float(np.ravel(xx)[i]):.4f},{float(np.ravel(yy)[i]):.4f}); '
                      f'sub-clause {kind}')
    # derived width properties
    for mdl, nm, par in ((ma, a_name, a_par), (mb, b_name, b_par)):
        if nm in ('CircularGaussianSigmaPRF', 'IntegratedGaussianPRF'):
            if abs(float(mdl.fwhm) - par['sigma'] / F2S) > 1e-14 * par['sigma'] / F2S:
                acc.violation('sigma-eq-fwhm', f'{nm}.fwhm', case, float(mdl.fwhm), par['sigma'] / F2S)
        elif nm in ('CircularGaussianPRF', 'CircularGaussianPSF'):
            if abs(float(mdl.sigma) - par['fwhm'] * F2S) > 1e-14 * par['fwhm'] * F2S:
                acc.violation('sigma-eq-fwhm', f'{nm}.sigma', case, float(mdl.sigma), par['fwhm'] * F2S)


PIX = [(0, 0), (1, 0), (0, -1), (2, 1), (-1, -2)]


def check_pixint(acc, case):
    """PRF value at a pixel == integral of the PSF model with the same
    parameters over that pixel (both sides are the real code; quadrature is ours)."""
    centre, flux = case['centre'], case['flux']
    a_name, a_par = case['a']            # PRF
    b_name, b_par = case['b']            # PSF
    fv = _fluxval(flux)
    try:
        ma = make_model(a_name, a_par, centre, flux)
        mb = make_model(b_name, b_par, centre, flux)
        smin = sigmas(b_name, b_par)[0]
        px = np.array([round(centre[0]) + p[0] for p in PIX], dtype=float)
        py = np.array([round(centre[1]) + p[1] for p in PIX], dtype=float)
        va, _ = call(ma, px, py)
        vb = np.array([R.pixel_integral(lambda x, y: call(mb, x, y)[0], x, y, smin) for x, y in zip(px, py)])
    except Exception as e:
        acc.violation('raises', f'{a_name}/{b_name}:{type(e).__name__}', case, repr(e), 'values')
        acc.case(nontrivial=False)
        return
    acc.case(nontrivial=bool(va.max() > 0), sample=case if acc.evaluations % 97 == 3 else None)
    # quadrature error < 1e-15 relative (10-node panels no longer than sigma_min), rounding of <= 1.4e4 terms
    # ~1e-14*flux; erf differences 4e-16*flux.  Measured worst error/tolerance on the unchanged tree 2.4e-5.
    tol = 1e-12 * fv + 1e-10 * np.abs(vb)
    if not (a_name == 'GaussianPRF' and rotated(a_par)):
        _track('prf-eq-pixel-integral', np.abs(va - vb) / tol)
    bad = np.abs(va - vb) > tol
    if bad.any():
        i = int(np.argmax(np.abs(va - vb)))
        if a_name == 'GaussianPRF' and rotated(a_par):
            clause, site = 'prf-sum', 'GaussianPRF:theta%90!=0'
        else:
            clause, site = 'prf-eq-pixel-integral', f'{a_name}/{b_name}'
        acc.violation(clause, site, case, float(va[i]), float(vb[i]),
                      f'PRF value vs integral of the PSF over the pixel at ({px[i]}, {py[i]}); sub-clause prf-eq-pixel-integral')
    if a_name == 'GaussianPRF' and rotated(a_par) and min(a_par['x_fwhm'], a_par['y_fwhm']) >= 2.3:
        # Weaker form that the pinned tree's rotated-pixel integration still satisfies (so that the known
        # finding does not blind the check to orientation / sign / width mix-ups of the rotated model):
        # integrals of a Gaussian over a unit square and over the same square rotated about its centre agree
        # through third order (equal second moments); the fourth-order term is bounded by
        # (|m40 - m40'| + ...) * max|d^4 g| / 4! < 0.02 * peak / sigma_min^4 for sigma_min >= 0.97.
        # Measured worst case on the unchanged tree: 4.3e-4 * peak at sigma_min = 0.977 (bound 0.022).
        lim = 0.02 / smin ** 4 * float(vb.max())
        _track('prf-orientation', np.abs(va - vb) / lim)
        if (np.abs(va - vb) > lim).any():
            i = int(np.argmax(np.abs(va - vb)))
            acc.violation('prf-orientation', 'GaussianPRF:rotated,fwhm>=2.3', case, float(va[i]), float(vb[i]),
                          f'rotated GaussianPRF differs from the pixel integral of GaussianPSF at ({px[i]}, {py[i]}) by more than '
                          f'the rotated-pixel effect can explain ({lim:.3e})')


# --------------------------------------------------------------------------
# ImagePSF
# --------------------------------------------------------------------------
def _ovpair(ov):
    return (int(ov), int(ov)) if np.isscalar(ov) else (int(ov[0]), int(ov[1]))      # (y, x)


def _fill(f):
    return float('nan') if f == 'nan' else f


def image_data(shape, kind, seed):
    ny, nx = shape
    rng = np.random.default_rng(7000 + seed + 31 * ny + nx)
    if kind == 'generic':
        return rng.random((ny, nx)) + 0.1, None
    coef = rng.uniform(-1.0, 1.0, size=(4, 4))

    def poly(xi, yi):
        u, v = np.asarray(xi) / (nx - 1.0), np.asarray(yi) / (ny - 1.0)
        return sum(coef[a, b] * u ** a * v ** b for a in range(4) for b in range(4))
    jj, ii = np.meshgrid(np.arange(nx), np.arange(ny))
    return poly(jj, ii), poly


def _same(a, b):
    """bit-level equality with NaN == NaN"""
    return np.array_equal(np.asarray(a), np.asarray(b), equal_nan=True)


def _eq_fill(v, fill):
    return bool(np.all(np.isnan(v))) if (isinstance(fill, float) and math.isnan(fill)) else bool(np.all(v == fill))


def outside_points(nx, ny, ox, oy, ovx, ovy, x0, y0):
    """Output coordinates whose index coordinate is outside [0, n-1] by at
    least half a sample in at least one axis (never decided by rounding)."""
    ins_x = [0.3 * (nx - 1), nx - 1.6]
    ins_y = [0.7 * (ny - 1)]
    out_x = [-0.5, -3.0, nx - 0.5, nx + 2.25]
    out_y = [-0.5, -4.0, ny - 0.5, ny + 1.75]
    pts = [(a, b) for a in out_x for b in ins_y] + [(a, b) for a in ins_x for b in out_y] + \
          [(a, b) for a in out_x[1::2] for b in out_y[::2]]
    xi = np.array([p[0] for p in pts])
    yi = np.array([p[1] for p in pts])
    return x0 + (xi - ox) / ovx, y0 + (yi - oy) / ovy


def check_image(acc, case, seed):
    from photutils.psf import ImagePSF
    shape = tuple(case['shape'])
    ny, nx = shape
    ovy, ovx = _ovpair(case['ov'])
    fill = _fill(case['fill'])
    flux, x0, y0 = case['flux'], case['x0'], case['y0']
    data, poly = image_data(shape, case['data'], seed)
    d0 = data.copy()
    origin = case['origin']
    try:
        m = ImagePSF(data, flux=flux, x_0=x0, y_0=y0, origin=None if origin is None else tuple(origin),
                     oversampling=case['ov'] if np.isscalar(case['ov']) else tuple(case['ov']), fill_value=fill)
        ox, oy = ((nx - 1) / 2.0, (ny - 1) / 2.0) if origin is None else origin
        xs = R.sample_coords(nx, ox, ovx, x0)
        ys = R.sample_coords(ny, oy, ovy, y0)
        xx, yy = np.meshgrid(xs, ys)
        v = np.asarray(m(xx, yy), dtype=float)
        xo, yo = outside_points(nx, ny, ox, oy, ovx, ovy, x0, y0)
        vo = np.asarray(m(xo, yo), dtype=float)
    except Exception as e:
        acc.violation('raises', f'ImagePSF:{type(e).__name__}', case, repr(e), 'values')
        acc.case(nontrivial=False)
        return
    acc.case(nontrivial=True, sample=case if acc.evaluations % 307 == 3 else None)
    acc.outcome(round(float(np.nansum(v)), 9))
    scale = abs(flux) * float(np.abs(data).max())
    # The index coordinate ov*(x - x_0) + origin of a sample is an integer up to <= 4 ulp(|x_0| + n) * ov < 1e-13;
    # the spline interpolates its knots to ~1e-15 and has slope <~ 3*max|data| per index => error < 1e-12*scale;
    # measured worst case on the unchanged tree 2.5e-15*scale.
    inner = (slice(1, ny - 1), slice(1, nx - 1))
    err = np.abs(v[inner] - flux * data[inner])
    _track('image-samples', err / (1e-11 * scale))
    if not np.all(err <= 1e-11 * scale):
        i, j = np.unravel_index(int(np.nanargmax(np.where(np.isnan(err), np.inf, err))), err.shape)
        acc.violation('image-samples', f'ImagePSF:{"origin" if origin is not None else "centred"}', case,
                      float(v[i + 1, j + 1]), float(flux * data[i + 1, j + 1]),
                      f'interior sample (i={i + 1}, j={j + 1}) of the {ny}x{nx} array')
    # outermost ring: the value or fill_value (x_i > n-1 can be decided by rounding)
    ring = np.ones(shape, bool)
    ring[inner] = False
    okring = (np.abs(v - flux * data) <= 1e-11 * scale) | (np.isnan(v) if math.isnan(fill) else (v == fill))
    if np.all(err <= 1e-11 * scale) and not np.all(okring[ring]):
        acc.violation('image-samples', 'ImagePSF:outer-ring', case, v[ring & ~okring][:3].tolist(), 'flux*data or fill_value')
    if not _eq_fill(vo, fill):
        acc.violation('image-fill', 'ImagePSF', case, vo.tolist()[:6], fill, 'points at least half a sample outside the array')
    if poly is not None:
        # between the samples: a not-a-knot cubic spline reproduces bicubic polynomial data
        # (conditioning of the 4..9-point spline systems ~10; measured worst case 3.7e-15*scale)
        fx = np.array([0.5, 1.25, nx - 2.5, 0.3 * (nx - 1), nx - 1.001, 0.001])
        fy = np.array([0.5, ny - 1.75, 1.5, 0.6 * (ny - 1), 0.001, ny - 1.001])
        XI, YI = np.meshgrid(fx, fy)
        try:
            vp = np.asarray(m(x0 + (XI - ox) / ovx, y0 + (YI - oy) / ovy), dtype=float)
        except Exception as e:
            acc.violation('raises', f'ImagePSF:{type(e).__name__}', case, repr(e), 'values')
            return
        want = flux * poly(XI, YI)
        _track('image-polynomial', np.abs(vp - want) / (1e-10 * max(scale, abs(flux))))
        if not np.all(np.abs(vp - want) <= 1e-10 * max(scale, abs(flux))):
            k = int(np.nanargmax(np.abs(vp - want)))
            acc.violation('image-polynomial', 'ImagePSF', case, float(vp.ravel()[k]), float(want.ravel()[k]),
                          f'index coordinate ({XI.ravel()[k]}, {YI.ravel()[k]})')
    if not _same(data, d0):
        acc.violation('input-modified', 'ImagePSF:data', case, None, None)


# --------------------------------------------------------------------------
# GriddedPSFModel
# --------------------------------------------------------------------------
LAYOUTS = {
    '2x2': ([0, 40], [0, 60]),
    '2x3': ([0, 40, 100], [0, 60]),
    '3x3irr': ([-10.0, 5.5, 100.0], [0.0, 60.0, 70.25]),
    '1x3': ([0, 40, 100], [30]),
    '3x1': ([20], [0, 60, 140]),
    '1x1': ([12], [7]),
    '3x2': ([0.0, 55.0], [-20.0, 0.0, 31.5]),
    '4x4': ([0, 40, 160, 200], [0, 60, 140, 200]),
    # Wide ('w': columns >= rows + 2) and tall ('t': rows >= columns + 2) grids with >= 3 rows and columns; names are
    # ROWS x COLUMNS like the others.  Every flat cell / grid-point numbering that uses the wrong extent (rows for
    # columns, cells for points, ...) is injective on square and 2-row grids and collides only here.  The two axes share
    # their first three coordinates, so that the mirror image (y, x) of a position of cell (row 1, column 0) lies in the
    # different cell (row 0, column 1) and mirrored grid points (0, 40) / (40, 0) exist.
    '3x5w': ([0, 40, 100, 130, 200.5], [0, 40, 100]),
    '5x3t': ([0, 40, 100], [0, 40, 100, 130, 200.5]),
    '3x6w': ([0, 40, 100, 130, 200.5, 260], [0, 40, 100]),
    '6x4t': ([0, 40, 100, 130], [0, 40, 100, 130, 200.5, 260]),
}


def grid_orders(layout, tier):
    xg, yg = LAYOUTS[layout]
    n = len(xg) * len(yg)
    ident = list(range(n))
    if n == 1:
        return [ident]
    if layout == '2x2':
        return [list(p) for p in itertools.permutations(range(4))]
    # y-major (internal order), x-major (the documented itertools.product(xgrid, ygrid)), reversed, a rotation
    xmajor = [iy * len(xg) + ix for ix in range(len(xg)) for iy in range(len(yg))]
    out = [ident, xmajor, ident[::-1], ident[n // 2:] + ident[:n // 2]]
    if tier == 'thorough' and layout == '2x3':
        out = [list(p) for p in itertools.permutations(range(6))]
    return [o for i, o in enumerate(out) if o not in out[:i]]


def grid_positions(layout, seed):
    """[(kind, (px, py)), ...]: every grid point, every cell centre, a generic
    point of every cell, points on grid lines, the 8 outside directions."""
    g1, g2 = _generic(seed)
    xg, yg = LAYOUTS[layout]
    pos = [('at-grid-point', (float(x), float(y))) for y in yg for x in xg]

    def mids(g, f):
        return [g[i] + f * (g[i + 1] - g[i]) for i in range(len(g) - 1)] or [float(g[0])]
    for x in mids(xg, 0.5):
        for y in mids(yg, 0.5):
            pos.append(('inside-cell', (x, y)))
    for x in mids(xg, g1):
        for y in mids(yg, 1.0 - g2):
            pos.append(('inside-cell', (x, y)))
    if len(yg) > 1:
        pos += [('on-grid-line', (float(x), mids(yg, g2)[-1])) for x in xg]
    if len(xg) > 1:
        pos += [('on-grid-line', (mids(xg, g1)[0], float(y))) for y in yg]
    xin, yin = mids(xg, g2)[0], mids(yg, g1)[-1]
    xl, xr, yb, yt = xg[0] - 25.5, xg[-1] + 25.5, yg[0] - 25.5, yg[-1] + 25.5
    pos += [('outside-grid', p) for p in [(xl, yin), (xr, yin), (xin, yb), (xin, yt), (xl, yb), (xl, yt), (xr, yb), (xr, yt)]]
    out = []
    for k, p in pos:
        if (k, p) not in out:
            out.append((k, p))
    return out


def cell_of(layout, p):
    """(row, column) of the grid cell used for position p: the cell whose lower-left corner is the last grid
    coordinate strictly below p, clamped to the grid (a position ON a grid line has weight 0 for one side, so
    either neighbour gives the same blend; this returns the lower one)."""
    xg, yg = LAYOUTS[layout]

    def idx(g, v):
        k = sum(1 for t in g if t < v) - 1
        return min(max(k, 0), max(len(g) - 2, 0))
    return idx(yg, p[1]), idx(xg, p[0])


def cell_positions(layout, seed):
    """Position alphabet of the 'cells' history roots: [(kind, (px, py)), ...].

    cell-generic       one generic interior point of EVERY cell (row-major).  All cells of a column share the same
                       x_0 and all cells of a row the same y_0 (keys built from x only / y only collide), and every
                       ordered pair of cells occurs in a history of two evaluations;
    same-integer-part  a second point of the first cell with the same floor() and the same round() in both
                       coordinates but different fractions (keys built from truncated / rounded positions);
    at-grid-point, rounds-to-grid-point
                       an interior grid point G with integer coordinates and two points 0.2-0.3 px from it in the two
                       diagonal neighbour cells: three different cells, one rounded position;
    mirrored           the mirror image (y, x) of the generic point of cell (row 1, column 0); it lies in cell
                       (row 0, column 1) (symmetric keys: x_0 + y_0, x_0 * y_0, sorted pairs)."""
    g1, g2 = _generic(seed)
    xg, yg = [float(t) for t in LAYOUTS[layout][0]], [float(t) for t in LAYOUTS[layout][1]]
    assert len(xg) >= 3 and len(yg) >= 3 and xg[:3] == yg[:3]
    fx, fy = g1, 1.0 - g2
    cellpt = {}
    pos = []
    for iy in range(len(yg) - 1):
        for ix in range(len(xg) - 1):
            p = (xg[ix] + fx * (xg[ix + 1] - xg[ix]), yg[iy] + fy * (yg[iy + 1] - yg[iy]))
            cellpt[(iy, ix)] = p
            pos.append(('cell-generic', p))

    def twin(v):
        # the candidate of the same half-pixel (same floor(), same round()) that is farther from v's fraction
        f = v - math.floor(v)
        half = 0.0 if f < 0.5 else 0.5
        f2 = max((half + 0.07 + 1e-5 * math.pi, half + 0.43 - 1e-5 * math.e), key=lambda c: abs(c - f))
        return math.floor(v) + f2
    p0 = cellpt[(0, 0)]
    t0 = (twin(p0[0]), twin(p0[1]))
    assert all(math.floor(a) == math.floor(b) and round(a) == round(b) and a != b for a, b in zip(p0, t0))
    pos.append(('same-integer-part', t0))
    G = (xg[len(xg) // 2], yg[len(yg) // 2])
    assert G[0] == round(G[0]) and G[1] == round(G[1]) and xg[0] < G[0] < xg[-1] and yg[0] < G[1] < yg[-1]
    A, B = (G[0] - 0.3, G[1] + 0.2), (G[0] + 0.2, G[1] - 0.3)
    assert (round(A[0]), round(A[1])) == (round(B[0]), round(B[1])) == G
    pos += [('at-grid-point', G), ('rounds-to-grid-point', A), ('rounds-to-grid-point', B)]
    assert len({cell_of(layout, q) for q in (G, A, B)}) == 3
    o = cellpt[(1, 0)]
    M = (o[1], o[0])
    assert cell_of(layout, o) == (1, 0) and cell_of(layout, M) == (0, 1)
    pos.append(('mirrored', M))
    assert len({p for _, p in pos}) == len(pos)
    return pos


def grid_stack(layout, shape, seed):
    """stack[iy][ix]: distinct generic positive arrays."""
    xg, yg = LAYOUTS[layout]
    ny, nx = shape
    rng = np.random.default_rng(9000 + seed + 31 * ny + nx)
    yy, xx = np.mgrid[0:ny, 0:nx]
    stack = []
    for iy in range(len(yg)):
        row = []
        for ix in range(len(xg)):
            w = 1.2 + 0.35 * ix + 0.2 * iy
            bump = np.exp(-(((xx - (nx - 1) / 2) ** 2 + (yy - (ny - 1) / 2) ** 2) / (2 * w * w)))
            row.append(bump + 0.15 * rng.random((ny, nx)))
        stack.append(row)
    return stack


def make_gridded(layout, order, shape, ov, seed, **kw):
    from astropy.nddata import NDData
    from photutils.psf import GriddedPSFModel
    xg, yg = LAYOUTS[layout]
    stack = grid_stack(layout, shape, seed)
    canon_pos = [(x, y) for y in yg for x in xg]
    canon_dat = [stack[iy][ix] for iy in range(len(yg)) for ix in range(len(xg))]
    pos = [canon_pos[k] for k in order]
    dat = np.array([canon_dat[k] for k in order])
    nd = NDData(dat, meta={'grid_xypos': pos, 'oversampling': ov if np.isscalar(ov) else tuple(ov)})
    return GriddedPSFModel(nd, **kw), stack


def grid_site(layout, kind):
    xg, yg = LAYOUTS[layout]
    return 'single-row-or-column' if min(len(xg), len(yg)) == 1 else kind


def gridded_expected(stack, layout, pos, flux):
    xg, yg = LAYOUTS[layout]
    b, used = R.blend(stack, [float(x) for x in xg], [float(y) for y in yg], pos[0], pos[1])
    return flux * b, used


def check_gridded(acc, case, seed):
    layout, order, shape = case['layout'], case['order'], tuple(case['shape'])
    ny, nx = shape
    ovy, ovx = _ovpair(case['ov'])
    fill = _fill(case['fill'])
    flux = case['flux']
    px, py = case['pos']
    kind = case['kind']
    try:
        m, stack = make_gridded(layout, order, shape, case['ov'], seed, flux=flux, x_0=px, y_0=py, fill_value=fill)
        ox, oy = (nx - 1) / 2.0, (ny - 1) / 2.0
        xx, yy = np.meshgrid(R.sample_coords(nx, ox, ovx, px), R.sample_coords(ny, oy, ovy, py))
        v = np.asarray(m(xx, yy), dtype=float)
        xo, yo = outside_points(nx, ny, ox, oy, ovx, ovy, px, py)
        vo = np.asarray(m(xo, yo), dtype=float)
    except Exception as e:
        acc.violation('raises', f'GriddedPSFModel:{grid_site(layout, kind)}:{type(e).__name__}', case, repr(e), 'values')
        acc.case(nontrivial=False)
        return
    want, used = gridded_expected(stack, layout, (px, py), flux)
    acc.case(nontrivial=bool(len(used) >= 2 or kind == 'outside-grid'), sample=case if acc.evaluations % 503 == 3 else None)
    acc.outcome(round(float(np.nansum(v)), 9))
    scale = abs(flux) * 1.2
    inner = (slice(1, ny - 1), slice(1, nx - 1))
    # same argument as for ImagePSF samples (index coordinate integral to 1e-13, knots reproduced to 1e-15),
    # plus <= 4 weighted terms; measured worst case on the unchanged tree 1.0e-14*scale.
    err = np.abs(v[inner] - want[inner])
    if grid_site(layout, kind) != 'single-row-or-column':
        _track('gridded-blend', err / (1e-11 * scale))
    if not np.all(err <= 1e-11 * scale):
        e2 = np.where(np.isnan(err), np.inf, err)
        i, j = np.unravel_index(int(np.argmax(e2)), err.shape)
        acc.violation('gridded-blend', grid_site(layout, kind), case, float(v[i + 1, j + 1]), float(want[i + 1, j + 1]),
                      f'interior sample (i={i + 1}, j={j + 1}); reference arrays (ix, iy, weight) = {used}')
    ring = np.ones(shape, bool)
    ring[inner] = False
    okring = (np.abs(v - want) <= 1e-11 * scale) | (np.isnan(v) if math.isnan(fill) else (v == fill))
    if np.all(err <= 1e-11 * scale) and not np.all(okring[ring]):
        acc.violation('gridded-blend', grid_site(layout, kind) + ':outer-ring', case, v[ring & ~okring][:3].tolist(),
                      'blend or fill_value')
    if not _eq_fill(vo, fill):
        acc.violation('gridded-fill', grid_site(layout, kind), case, vo.tolist()[:6], fill,
                      'points at least half a sample outside the ePSF array')


# --------------------------------------------------------------------------
# pointwise evaluation: the value at a coordinate pair does not depend on the shape / memory layout / order / container
# in which the coordinates arrive (mcphot/ref/c13_layouts.py)
# --------------------------------------------------------------------------
def _scale(name, params):
    if name == 'MoffatPSF':
        return params['alpha']
    if name == 'AiryDiskPSF':
        return params['radius']
    return sigmas(name, params)[1]


def layout_model(case, seed):
    """(model, site name, flux value, windows {name: (xs, ys)}, positional evaluate() arguments)."""
    kind = case['kind']
    if kind == 'functional':
        name, params, centre = case['model'], case['params'], case['centre']
        m = make_model(name, params, centre, case['flux'])
        cx, cy = centre
        sc = max(_scale(name, params), 0.3)
        win = {'pix5x3': (round(cx) + np.arange(-2.0, 3.0), round(cy) + np.arange(-1.0, 2.0)),
               'frac3x4': (cx + sc * np.array([-1.3, 0.2, 0.9]) + 0.0131, cy + 0.83 * sc * np.array([-1.1, -0.4, 0.5, 1.6]) - 0.0077),
               'frac4x4': (cx + sc * np.array([-1.7, -0.6, 0.3, 1.1]) + 0.0131,
                           cy + 0.83 * sc * np.array([-1.2, -0.1, 0.7, 1.9]) - 0.0077)}
        # what astropy / the fitters hand to evaluate(): the raw value as a numpy float64, or the Quantity where the
        # parameter carries a unit
        args = []
        for pn in m.param_names:
            par = getattr(m, pn)
            args.append(par.quantity if par.unit is not None else np.float64(par.value))
        return m, name, _fluxval(case['flux']), win, args
    shape = tuple(case['shape'])
    ny, nx = shape
    ovy, ovx = _ovpair(case['ov'])
    fill = _fill(case['fill'])
    flux = case['flux']
    if kind == 'image':
        from photutils.psf import ImagePSF
        x0, y0 = case['x0'], case['y0']
        origin = case['origin']
        data, _ = image_data(shape, 'generic', seed)
        m = ImagePSF(data, flux=flux, x_0=x0, y_0=y0, origin=None if origin is None else tuple(origin),
                     oversampling=case['ov'] if np.isscalar(case['ov']) else tuple(case['ov']), fill_value=fill)
        ox, oy = ((nx - 1) / 2.0, (ny - 1) / 2.0) if origin is None else origin
        name = 'ImagePSF'
    else:
        x0, y0 = case['pos']
        m, _ = make_gridded(case['layout'], case['order'], shape, case['ov'], seed, flux=flux, x_0=x0, y_0=y0, fill_value=fill)
        ox, oy = (nx - 1) / 2.0, (ny - 1) / 2.0
        name = 'GriddedPSFModel' + (':single-row-or-column' if grid_site(case['layout'], '') == 'single-row-or-column' else '')

    def X(fi):
        return x0 + (np.asarray(fi, dtype=float) - ox) / ovx

    def Y(fj):
        return y0 + (np.asarray(fj, dtype=float) - oy) / ovy
    # index coordinates: interior samples / between the samples / straddling the array edge (fill_value region included)
    win = {'samples5x3': (X([1, 2, 3, 4, 5]), Y([1, 2, 3])),
           'between3x4': (X([0.5, 1.25, nx - 2.5]), Y([0.5, 1.5, 0.6 * (ny - 1), ny - 1.75])),
           'straddle4x4': (X([-1.5, 0.3 * (nx - 1), nx - 1.6, nx + 0.75]), Y([-2.0, 0.7 * (ny - 1), 1.5, ny + 1.25]))}
    return m, name, float(flux), win, [np.float64(flux), np.float64(x0), np.float64(y0)]


def _strip(v):
    if getattr(v, 'unit', None) is not None:
        return np.asarray(v.value, dtype=float), str(v.unit)
    return np.asarray(v, dtype=float), None


LAYOUT_VIAS = ['call', 'evaluate']


def check_layout(acc, case, seed):
    """For every window x way of evaluating x coordinate-array layout: the output has the broadcast shape of the two
    coordinate arguments and every element equals the value the model returns for that coordinate pair when it is
    asked for that single point (two Python floats)."""
    from ..ref import c13_layouts as LY
    only = case.get('only')
    try:
        m, name, fv, windows, args = layout_model(case, seed)
    except Exception as e:
        acc.violation('raises', f'{case.get("model", case["kind"])}():{type(e).__name__}', case, repr(e), 'a model')
        acc.case(nontrivial=False)
        return
    want_unit = case['flux'][0] if isinstance(case.get('flux'), (list, tuple)) else None
    reported = set()
    for wname, (xs, ys) in windows.items():
        if only and only[0] != wname:
            continue
        # reference: one point at a time
        ref = np.empty((len(ys), len(xs)))
        try:
            for j, yv in enumerate(ys):
                for i, xv in enumerate(xs):
                    r, _ = _strip(m(float(xv), float(yv)))
                    if r.size != 1:
                        raise ValueError(f'model(float, float) returned shape {r.shape}')
                    ref[j, i] = float(r.reshape(()))
        except Exception as e:
            acc.violation('layout-raises', f'{name}:scalar:{type(e).__name__}', dict(case, only=[wname, 'call', 'scalar']), repr(e), 'a value')
            acc.case(nontrivial=False)
            continue
        peak = float(np.nanmax(np.abs(ref))) if np.isfinite(ref).any() else 0.0
        finite = ref[np.isfinite(ref)]
        nontrivial = bool(finite.size and np.ptp(finite) > 0)
        # The layouts change neither the operations nor their operands, only the loop (contiguous / strided / scalar)
        # numpy runs them in; SIMD and scalar loops of exp / erf may differ in the last place: 1 ulp = 1.1e-16 relative
        # for the analytic profiles and the splines, 2.2e-16 * flux absolute per erf value for the PRFs.  rtol 1e-13 and
        # atol 1e-15 * max(flux, peak) leave x100 over that; measured on the unchanged tree (seeds 0-2): bit-identical.
        atol = 1e-15 * max(abs(fv), peak)
        for via in LAYOUT_VIAS:
            if only and only[1] != via:
                continue
            for lname, group, fn in LY.applicable(xs, ys):
                if only and only[2] != lname:
                    continue
                X, Y, I, J, shape = LY.realise(fn, xs, ys)
                if via == 'evaluate' and not (isinstance(X, np.ndarray) and isinstance(Y, np.ndarray)):
                    continue          # evaluate() is documented for arrays; lists and scalars are converted by __call__
                c2 = dict(case, only=[wname, via, lname])
                site = f'{name}:{group}'
                try:
                    with warnings.catch_warnings():
                        warnings.simplefilter('ignore')
                        v, unit = _strip(m(X, Y) if via == 'call' else m.evaluate(X, Y, *args))
                except Exception as e:
                    if isinstance(e, ValueError) and 'must be 1D or 2D' in str(e) and len(shape) > 2:
                        acc.skip(f'{name.split(":")[0]}: documented validation error "{e}" for coordinate arrays of more than 2 dimensions')
                        continue
                    acc.case(nontrivial=False)
                    k = ('raises', site, type(e).__name__)
                    if k not in reported:
                        reported.add(k)
                        acc.violation('layout-raises', f'{site}:{type(e).__name__}', c2, repr(e), f'values of shape {shape}')
                    continue
                acc.case(nontrivial=nontrivial, sample=c2 if acc.evaluations % 20011 == 3 else None)
                want = ref[J, I]
                if v.shape != shape:
                    if ('shape', site) not in reported:
                        reported.add(('shape', site))
                        acc.violation('layout-shape', site, c2, list(v.shape), list(shape),
                                      f'x has shape {np.shape(X)}, y has shape {np.shape(Y)}: the output must have their broadcast shape')
                    continue
                err = np.abs(v - want)
                tol = 1e-13 * np.abs(want) + atol
                ok = (err <= tol) | (np.isnan(v) & np.isnan(want)) | (v == want)
                _track('layout-pointwise', np.where(ok & ~np.isfinite(err), 0.0, np.where(np.isfinite(err), err, np.inf)) / np.where(tol > 0, tol, 1.0))
                if want_unit is not None and via == 'call' and unit != want_unit and ('unit', site) not in reported:
                    reported.add(('unit', site))
                    acc.violation('flux-unit', site, c2, unit, want_unit, 'output does not carry the flux unit')
                if not ok.all() and ('value', site) not in reported:
                    reported.add(('value', site))
                    k = tuple(int(t) for t in np.unravel_index(int(np.argmax(np.where(ok, -1.0, np.where(np.isfinite(err), err, np.inf)))), ok.shape))
                    acc.violation('layout-pointwise', site, c2, float(v[k]), float(want[k]),
                                  f'window {wname}, layout {lname} via {via}: output element {list(k)} belongs to the point '
                                  f'(x, y) = ({float(xs[I[k]])!r}, {float(ys[J[k]])!r}); model(x, y) for that single point gives the '
                                  f'expected value; {int((~ok).sum())} of {ok.size} elements differ')
        acc.outcome(round(float(np.nansum(ref)) / (fv or 1.0), 9))


# --------------------------------------------------------------------------
# evaluation-history exploration (shape A)
# --------------------------------------------------------------------------
HIST_ROOTS = {
    # name: (kind, layout/shape, order, data shape, oversampling, mode)
    # mode 'mixed': few positions of every kind x every operation (parameter / attribute assignments included), deep;
    # mode 'cells': a position in EVERY grid cell (cell_positions) x {call, evaluate(), call on a copy / deepcopy,
    #               replace by copy / deepcopy}: every ordered pair of cells, with and without a copy in between
    'g2x3': ('gridded', '2x3', 'xmajor', (7, 9), 2, 'mixed'),
    'g3x3irr': ('gridded', '3x3irr', 'ident', (8, 8), (2, 3), 'mixed'),
    'g1x3': ('gridded', '1x3', 'ident', (7, 9), 1, 'mixed'),
    'image': ('image', None, None, (7, 9), (2, 3), 'mixed'),
    'c3x5w': ('gridded', '3x5w', 'xmajor', (7, 9), 2, 'cells'),
    'c5x3t': ('gridded', '5x3t', 'ident', (8, 8), (2, 3), 'cells'),
    'c3x6w': ('gridded', '3x6w', 'ident', (7, 9), (2, 3), 'cells'),
    'c6x4t': ('gridded', '6x4t', 'xmajor', (8, 8), 1, 'cells'),
    # mode 'cells-deep': the same position alphabet x {call, replace by copy, replace by deepcopy} only, one level deeper
    # (three evaluations: return to a cell after visiting another one; evaluate, copy, evaluate)
    'd3x5w': ('gridded', '3x5w', 'ident', (8, 8), (2, 3), 'cells-deep'),
    'd5x3t': ('gridded', '5x3t', 'xmajor', (7, 9), 2, 'cells-deep'),
    'd3x6w': ('gridded', '3x6w', 'xmajor', (8, 8), 1, 'cells-deep'),
    'd6x4t': ('gridded', '6x4t', 'ident', (7, 9), (2, 3), 'cells-deep'),
}
THOROUGH_ONLY_ROOTS = ('c3x6w', 'c6x4t', 'd3x6w', 'd6x4t')


def hist_roots(tier):
    return [r for r in HIST_ROOTS if tier == 'thorough' or r not in THOROUGH_ONLY_ROOTS]


class HState:
    __slots__ = ('m', 'kind', 'pos', 'flux', 'fill', 'ov', 'origin', 'nevals', 'data_digest')


def _spline_digest(s):
    from ..snapshot import digest
    d = dict(s.__dict__)
    out = []
    for k in sorted(d):
        out.append((k, repr(digest(d[k]))))
    return tuple(out)


def model_state_key(m):
    """Digest of the COMPLETE instance __dict__: astropy Parameters are expanded
    to (value, unit, fixed, bounds, tied, owner-is-self), cached splines to their
    coefficient arrays.  Anything the digester does not understand is a harness error
    (an unmergeable token would make replays diverge)."""
    import hashlib
    from astropy.modeling import Parameter
    from ..snapshot import digest
    items = []
    for k, v in m.__dict__.items():
        if isinstance(v, Parameter):
            d = ('param', repr(np.asarray(v.value).tolist()), repr(v.unit), bool(v.fixed), repr(v.bounds), repr(v.tied),
                 v._model is m)
        elif k == '_interpolator':
            d = tuple(sorted((repr(tuple(float(t) for t in kk)), _spline_digest(s)) for kk, s in v.items()))
        elif k == 'interpolator':
            d = _spline_digest(v)
        elif k == '_parameters':
            # astropy scratch buffer (np.empty at construction, refilled from the Parameter objects by
            # Model._parameters_to_array() before every use): its content is not state
            d = ('scratch', v.shape, v.dtype.str)
        else:
            d = digest(v)
        r = repr(d)
        if 'unmergeable' in r:
            raise RuntimeError(f'C13 state digest: attribute {k!r} of {type(m).__name__} is not digestible: {r[:200]}')
        items.append((k, r))
    items.sort()
    return hashlib.blake2b(repr(items).encode(), digest_size=12).hexdigest()


class HistSystem:
    def __init__(self, root, tier, seed):
        self.root = root
        self.tier = tier
        self.seed = seed
        self.kind, self.layout, order, self.shape, self.ov0, self.mode = HIST_ROOTS[root]
        g1, g2 = _generic(seed)
        if self.kind == 'gridded' and self.mode in ('cells', 'cells-deep'):
            xg, yg = LAYOUTS[self.layout]
            n = len(xg) * len(yg)
            self.order = list(range(n)) if order == 'ident' else [iy * len(xg) + ix for ix in range(len(xg)) for iy in range(len(yg))]
            self.position_kinds = [k for k, _ in cell_positions(self.layout, seed)]
            self.positions = [p for _, p in cell_positions(self.layout, seed)]
        elif self.kind == 'gridded':
            xg, yg = LAYOUTS[self.layout]
            n = len(xg) * len(yg)
            self.order = list(range(n)) if order == 'ident' else [iy * len(xg) + ix for ix in range(len(xg)) for iy in range(len(yg))]
            allpos = grid_positions(self.layout, seed)

            def first(kind, nth=0):
                c = [p for k, p in allpos if k == kind]
                return c[min(nth, len(c) - 1)]
            self.positions = [first('at-grid-point', 1), first('inside-cell', 0), first('inside-cell', 99),
                              first('outside-grid', 0), first('outside-grid', 7), first('on-grid-line', 0)]
            if tier == 'thorough':
                self.positions += [first('at-grid-point', 0), first('inside-cell', 1), first('outside-grid', 3)]
            self.alt_ov = 4 if self.ov0 != 4 else 1
        else:
            self.order = None
            self.positions = [(0.0, 0.0), (10.3, -4.7), (0.25, 0.5), (g1 - 3.0, 7.0 + g2)]
            self.alt_origin = (2.0, 4.5)
        self.stack = None

    # ------------------------------------------------------------- building
    def _construct(self, flux, pos, fill, ov, origin):
        if self.kind == 'gridded':
            m, stack = make_gridded(self.layout, self.order, self.shape, ov, self.seed,
                                    flux=flux, x_0=pos[0], y_0=pos[1], fill_value=fill)
            self.stack = stack
            return m
        from photutils.psf import ImagePSF
        data, _ = image_data(self.shape, 'generic', self.seed)
        return ImagePSF(data, flux=flux, x_0=pos[0], y_0=pos[1], origin=origin, oversampling=ov, fill_value=fill)

    def initial(self):
        from ..snapshot import digest
        st = HState()
        st.kind = self.kind
        st.flux, st.pos, st.fill, st.ov, st.origin, st.nevals = 1.0, (0.0, 0.0), 0.0, self.ov0, None, 0
        st.m = self._construct(st.flux, st.pos, st.fill, st.ov, st.origin)
        st.data_digest = digest(st.m.data)
        return st

    def canon(self, st):
        return model_state_key(st.m)

    def ops(self, st):
        npos = len(self.positions)
        if self.mode == 'cells':
            # every position x every way of evaluating there; parameter / attribute assignments are explored by the
            # 'mixed' roots
            return ([('eval', k) for k in range(npos)] + [('copy',), ('deepcopy',)]
                    + [('copy_eval', k) for k in range(npos)] + [('deepcopy_eval', k) for k in range(npos)]
                    + [('evaluate', k) for k in range(npos)])
        if self.mode == 'cells-deep':
            return [('eval', k) for k in range(npos)] + [('copy',), ('deepcopy',)]
        ops = [('eval', k) for k in range(npos)]
        ops += [('evaluate', 1), ('evaluate', 3)]
        ops += [('set_flux', 2.5), ('copy',), ('deepcopy',), ('copy_eval', 0), ('copy_eval', 2), ('deepcopy_eval', 2),
                ('set_fill', 'nan')]
        if self.kind == 'gridded':
            ops.append(('set_oversampling', self.alt_ov))
        else:
            ops.append(('set_origin', tuple(self.alt_origin)))
        return ops

    def nontrivial(self, hist):
        return any(op[0] in ('eval', 'evaluate', 'copy_eval', 'deepcopy_eval') for op in hist[:-1])

    def outcome(self, st):
        return (tuple(st.pos), st.flux, repr(st.fill), repr(st.ov), st.nevals > 0)

    # ----------------------------------------------------------- evaluation
    def _coords(self, st, pos):
        ny, nx = self.shape
        ovy, ovx = _ovpair(st.ov)
        ox, oy = ((nx - 1) / 2.0, (ny - 1) / 2.0) if st.origin is None else st.origin
        xs = R.sample_coords(nx, ox, ovx, pos[0])
        ys = R.sample_coords(ny, oy, ovy, pos[1])
        # one extra column half a sample further out and two off-sample rows: fill_value region and
        # genuinely interpolated values take part in the bit-level comparison
        xs = np.concatenate([xs, [xs[-1] + 0.75 / ovx, xs[0] + 0.4 / ovx]])
        ys = np.concatenate([ys, [ys[0] - 0.75 / ovy, ys[1] + 0.3 / ovy]])
        return np.meshgrid(xs, ys)

    def _site(self):
        if self.kind == 'gridded':
            return 'GriddedPSFModel' + (':single-row-or-column' if grid_site(self.layout, '') == 'single-row-or-column' else '')
        return 'ImagePSF'

    def _check_eval(self, st, m, pos, flux, report, how, via_evaluate=False):
        """Evaluate ``m`` at ``pos`` and compare (a) bit-for-bit with a fresh
        model constructed with the same public configuration, (b) with the reference."""
        xx, yy = self._coords(st, pos)
        try:
            if via_evaluate:
                v = m.evaluate(xx, yy, flux, pos[0], pos[1])
            else:
                v = m(xx, yy)
            v = np.asarray(v, dtype=float)
        except Exception as e:
            report('history-raises', f'{self._site()}:{how}:{type(e).__name__}', repr(e), 'values')
            return False
        fresh = self._construct(flux, pos, st.fill, st.ov, st.origin)
        vf = np.asarray(fresh(xx, yy), dtype=float)
        if not _same(v, vf):
            bad = ~((v == vf) | (np.isnan(v) & np.isnan(vf)))
            i = tuple(int(t) for t in np.argwhere(bad)[0])
            report('history-differs-from-fresh', f'{self._site()}:{how}', float(v[i]), float(vf[i]),
                   f'{int(bad.sum())} of {v.size} values differ from a freshly constructed model with flux={flux}, '
                   f'(x_0, y_0)={tuple(pos)}, fill_value={st.fill}, oversampling={st.ov}, origin={st.origin}; first at {i}')
        # reference values at the interior sample points
        ny, nx = self.shape
        inner = (slice(1, ny - 1), slice(1, nx - 1))
        if self.kind == 'gridded':
            want, _ = gridded_expected(self.stack, self.layout, pos, flux)
            clause, site = 'gridded-blend', grid_site(self.layout, 'history')
        else:
            want = flux * image_data(self.shape, 'generic', self.seed)[0]
            clause, site = 'image-samples', 'ImagePSF:history'
        err = np.abs(v[:ny, :nx][inner] - want[inner])
        if not np.all(err <= 1e-11 * 1.2 * abs(flux)):
            report(clause, site, float(v[1, 1]), float(want[1, 1]), f'after this history, position {tuple(pos)}')
        return True

    def apply(self, st, op, report):
        from ..snapshot import digest
        name = op[0]
        m = st.m
        try:
            if name == 'eval':
                pos = self.positions[op[1]]
                m.x_0 = pos[0]
                m.y_0 = pos[1]
                st.pos = tuple(pos)
                st.nevals += 1
                return self._check_eval(st, m, st.pos, st.flux, report, 'call')
            if name == 'evaluate':
                pos = self.positions[op[1]]
                st.nevals += 1
                return self._check_eval(st, m, tuple(pos), 1.75, report, 'evaluate', via_evaluate=True)
            if name == 'set_flux':
                m.flux = op[1]
                st.flux = op[1]
            elif name in ('copy', 'deepcopy'):
                st.m = m.copy() if name == 'copy' else m.deepcopy()
                if type(st.m) is not type(m):
                    report('history-copy', f'{self._site()}:{name}', type(st.m).__name__, type(m).__name__)
            elif name in ('copy_eval', 'deepcopy_eval'):
                c = m.copy() if name == 'copy_eval' else m.deepcopy()
                pos = self.positions[op[1]]
                c.x_0 = pos[0]
                c.y_0 = pos[1]
                c.flux = 3.25
                st.nevals += 1
                ok = self._check_eval(st, c, tuple(pos), 3.25, report, name)
                # the original keeps its own parameters
                got = (float(m.flux.value), float(m.x_0.value), float(m.y_0.value))
                if got != (st.flux, st.pos[0], st.pos[1]):
                    report('history-copy-aliases-parameters', f'{self._site()}:{name}', got, (st.flux,) + tuple(st.pos))
                return ok
            elif name == 'set_fill':
                m.fill_value = _fill(op[1])
                st.fill = _fill(op[1])
            elif name == 'set_oversampling':
                m.oversampling = op[1]
                st.ov = op[1]
            elif name == 'set_origin':
                m.origin = tuple(op[1])
                st.origin = tuple(op[1])
            else:  # pragma: no cover
                raise AssertionError(op)
        except AssertionError:
            raise
        except Exception as e:
            report('history-raises', f'{self._site()}:{name}:{type(e).__name__}', repr(e), 'no exception')
            return False
        return True

    def invariant(self, st, report):
        from ..snapshot import digest
        m = st.m
        got = (float(m.flux.value), float(m.x_0.value), float(m.y_0.value))
        if got != (st.flux, st.pos[0], st.pos[1]):
            report('history-parameters', self._site(), got, (st.flux,) + tuple(st.pos))
        self._check_eval(st, m, st.pos, st.flux, report, 'invariant')
        if digest(m.data) != st.data_digest:
            report('history-data-modified', self._site(), None, None, 'the stored ePSF data changed')


def _tup(x):
    return tuple(_tup(v) for v in x) if isinstance(x, (list, tuple)) else x


# --------------------------------------------------------------------------
# enumeration
# --------------------------------------------------------------------------
def _centres(A):
    return [(a, b) for a in A['centre1d'] for b in A['centre1d']]


def functional_cases(part, tier, seed):
    """Generator of the case dicts of one functional-model part (full products)."""
    A = alphabets(tier, seed)
    W, TH = A['width'], A['theta']
    if part == 'prf':
        for name in PRF_CLASSES:
            if name == 'GaussianPRF':
                plist = [{'x_fwhm': a, 'y_fwhm': b, 'theta': list(t)} for a in W for b in W for t in TH]
            elif name == 'CircularGaussianPRF':
                plist = [{'fwhm': a} for a in W]
            else:
                plist = [{'sigma': a} for a in W] + [{'sigma': a * F2S} for a in W[:2]]
            for params in plist:
                for c in _centres(A):
                    yield {'part': 'prf', 'model': name, 'params': params, 'centre': list(c), 'flux': 3.7}
    elif part == 'psf':
        for name in PSF_CLASSES:
            if name == 'GaussianPSF':
                plist = [{'x_fwhm': a, 'y_fwhm': b, 'theta': list(t)} for a in W for b in W for t in TH]
            elif name == 'CircularGaussianPSF':
                plist = [{'fwhm': a} for a in W]
            elif name == 'MoffatPSF':
                plist = [{'alpha': a, 'beta': b} for a in W for b in A['beta']]
            else:
                plist = [{'radius': a} for a in W]
            for params in plist:
                for c in A['centre_psf']:
                    yield {'part': 'psf', 'model': name, 'params': params, 'centre': list(c), 'flux': 3.7}
    elif part == 'halfmax':
        for name in PSF_CLASSES:
            if name == 'GaussianPSF':
                plist = [{'x_fwhm': a, 'y_fwhm': b, 'theta': list(t)} for a in W for b in W for t in TH]
            elif name == 'CircularGaussianPSF':
                plist = [{'fwhm': a} for a in W]
            elif name == 'MoffatPSF':
                plist = [{'alpha': a, 'beta': b} for a in W for b in A['beta']]
            else:
                plist = [{'radius': a} for a in W]
            for params in plist:
                for c in A['centre_psf'][:2]:
                    yield {'part': 'halfmax', 'model': name, 'params': params, 'centre': list(c), 'flux': 3.7}
    elif part == 'linear':
        g1, g2 = _generic(seed)
        c = [g1, -4.7]
        fl = [list(f) if isinstance(f, tuple) else f for f in A['flux']]
        for name in PRF_CLASSES + PSF_CLASSES:
            if name in ('GaussianPRF', 'GaussianPSF'):
                plist = [{'x_fwhm': a, 'y_fwhm': b, 'theta': list(t)} for a in W for b in (W[0], W[-2]) for t in TH]
            elif name in ('CircularGaussianPRF', 'CircularGaussianPSF'):
                plist = [{'fwhm': a} for a in W]
            elif name == 'MoffatPSF':
                plist = [{'alpha': a, 'beta': b} for a in W for b in A['beta']]
            elif name == 'AiryDiskPSF':
                plist = [{'radius': a} for a in W]
            else:
                plist = [{'sigma': a} for a in W]
            for params in plist:
                yield {'part': 'linear', 'model': name, 'params': params, 'centre': c, 'fluxes': fl}
    elif part == 'pair':
        cs = _centres(A)[1::3] if tier != 'thorough' else _centres(A)
        for c in cs:
            for w in W:
                for t in TH:
                    yield {'part': 'pair', 'pair': 'circ-eq-ellip:PSF', 'centre': list(c), 'flux': 3.7,
                           'a': ['CircularGaussianPSF', {'fwhm': w}],
                           'b': ['GaussianPSF', {'x_fwhm': w, 'y_fwhm': w, 'theta': list(t)}]}
                    yield {'part': 'pair', 'pair': 'circ-eq-ellip:PRF', 'centre': list(c), 'flux': 3.7,
                           'a': ['CircularGaussianPRF', {'fwhm': w}],
                           'b': ['GaussianPRF', {'x_fwhm': w, 'y_fwhm': w, 'theta': list(t)}]}
                yield {'part': 'pair', 'pair': 'sigma-eq-fwhm:PRF', 'centre': list(c), 'flux': 3.7,
                       'a': ['CircularGaussianPRF', {'fwhm': w}], 'b': ['CircularGaussianSigmaPRF', {'sigma': w * F2S}]}
                yield {'part': 'pair', 'pair': 'sigma-eq-fwhm:PRF', 'centre': list(c), 'flux': 3.7,
                       'a': ['CircularGaussianSigmaPRF', {'sigma': w}], 'b': ['IntegratedGaussianPRF', {'sigma': w}]}
                yield {'part': 'pair', 'pair': 'sigma-eq-fwhm:PRF', 'centre': list(c), 'flux': 3.7,
                       'a': ['CircularGaussianSigmaPRF', {'sigma': w}], 'b': ['CircularGaussianPRF', {'fwhm': w / F2S}]}
                # theta and theta + 180 deg describe the same ellipse; x/y widths swap under +90 deg
                for w2 in (W[0], W[-2]):
                    for t in TH:
                        for cls in ('GaussianPSF', 'GaussianPRF'):
                            yield {'part': 'pair', 'pair': f'rotation-equivalence:{cls[-3:]}', 'centre': list(c), 'flux': 3.7,
                                   'a': [cls, {'x_fwhm': w, 'y_fwhm': w2, 'theta': list(t)}],
                                   'b': [cls, {'x_fwhm': w2, 'y_fwhm': w, 'theta': [t[0] + 90.0, t[1]]}]}
    elif part == 'pixint':
        cs = _centres(A)[2::5] if tier != 'thorough' else _centres(A)[::2]
        for c in cs:
            for w in W:
                yield {'part': 'pixint', 'centre': list(c), 'flux': 3.7,
                       'a': ['CircularGaussianPRF', {'fwhm': w}], 'b': ['CircularGaussianPSF', {'fwhm': w}]}
                yield {'part': 'pixint', 'centre': list(c), 'flux': 3.7,
                       'a': ['CircularGaussianSigmaPRF', {'sigma': w}], 'b': ['CircularGaussianPSF', {'fwhm': w / F2S}]}
                for w2 in W:
                    for t in TH:
                        p = {'x_fwhm': w, 'y_fwhm': w2, 'theta': list(t)}
                        yield {'part': 'pixint', 'centre': list(c), 'flux': 3.7, 'a': ['GaussianPRF', p], 'b': ['GaussianPSF', p]}
    else:  # pragma: no cover
        raise AssertionError(part)


def image_cases(tier, seed):
    thorough = tier == 'thorough'
    shapes = [[7, 9], [8, 8]] + ([[4, 5], [5, 4], [4, 4]] if thorough else [[4, 5]])
    ovs = [1, 2, 3, 4, [2, 3]] + ([[3, 1], [1, 4]] if thorough else [])
    for shape in shapes:
        ny, nx = shape
        origins = [None, [2.0, 1.0], [0.5 * nx - 1.25, 0.5 * ny + 0.5]] + ([[0.0, 0.0], [nx - 1.0, ny - 1.0]] if thorough else [])
        for ov in ovs:
            for origin in origins:
                for x0 in (0.0, 10.3, -4.7):
                    for y0 in (0.0, 10.3, -4.7):
                        for flux in (1.0, 2.5):
                            for fill in (0.0, -1.5, 'nan'):
                                for kind in ('generic', 'poly'):
                                    yield {'part': 'image', 'shape': shape, 'ov': ov, 'origin': origin, 'x0': x0, 'y0': y0,
                                           'flux': flux, 'fill': fill, 'data': kind}


def gridded_cases(tier, seed):
    thorough = tier == 'thorough'
    layouts = ['2x2', '2x3', '3x3irr', '1x3', '3x1', '1x1', '3x5w', '5x3t'] + (['3x2', '4x4', '3x6w', '6x4t'] if thorough else [])
    for layout in layouts:
        for oi, order in enumerate(grid_orders(layout, tier)):
            for shape in ([[7, 9], [8, 8]] if (thorough or oi == 0) else [[7, 9]]):
                for ov in ([1, 4, [2, 3]] if (thorough or oi == 0) else [[2, 3]]):
                    for kind, pos in grid_positions(layout, seed):
                        for flux, fill in ((1.0, 0.0), (2.5, 'nan')):
                            yield {'part': 'gridded', 'layout': layout, 'order': order, 'shape': shape, 'ov': ov,
                                   'kind': kind, 'pos': list(pos), 'flux': flux, 'fill': fill}


def layout_cases(tier, seed):
    """Model alphabet of the pointwise-evaluation part (every case is then multiplied by window x via x layout)."""
    A = alphabets(tier, seed)
    W, TH = A['width'], A['theta']
    thorough = tier == 'thorough'
    fluxes = [3.7, ['Jy', 2.5]]
    for name in PRF_CLASSES + PSF_CLASSES:
        if name in ('GaussianPRF', 'GaussianPSF'):
            plist = [{'x_fwhm': a, 'y_fwhm': b, 'theta': list(t)} for a in W for b in ((W[0], W[4], W[-2]) if thorough else (W[0], W[-2])) for t in TH]
        elif name in ('CircularGaussianPRF', 'CircularGaussianPSF'):
            plist = [{'fwhm': a} for a in W]
        elif name == 'MoffatPSF':
            plist = [{'alpha': a, 'beta': b} for a in W for b in A['beta']]
        elif name == 'AiryDiskPSF':
            plist = [{'radius': a} for a in W]
        else:
            plist = [{'sigma': a} for a in W]
        for params in plist:
            for c in A['centre_psf']:
                for flux in fluxes:
                    yield {'part': 'layout', 'kind': 'functional', 'model': name, 'params': params, 'centre': list(c), 'flux': flux}
    for shape in [[7, 9], [8, 8]]:
        ny, nx = shape
        for ov in [1, 2, [2, 3]] + ([4, [3, 1]] if thorough else []):
            for origin in [None, [2.0, 1.0]] + ([[0.5 * nx - 1.25, 0.5 * ny + 0.5]] if thorough else []):
                for x0, y0 in [(0.0, 0.0), (10.3, -4.7)] + ([(-4.7, 0.25)] if thorough else []):
                    for fill in (0.0, 'nan'):
                        yield {'part': 'layout', 'kind': 'image', 'shape': shape, 'ov': ov, 'origin': origin, 'x0': x0, 'y0': y0,
                               'flux': 2.5, 'fill': fill}
    for layout in ['2x3', '3x3irr', '1x3', '3x5w'] + (['2x2', '3x1', '1x1', '5x3t'] if thorough else []):
        allpos = grid_positions(layout, seed)
        kinds = []
        for k, _ in allpos:
            if k not in kinds:
                kinds.append(k)
        for order in grid_orders(layout, 'quick')[:2]:
            for shape in ([[7, 9], [8, 8]] if thorough else [[7, 9]]):
                for ov in [1, [2, 3]]:
                    for k in kinds:
                        # the last position of each kind (generic fractions rather than the first grid point / cell centre)
                        pos = [p for kk, p in allpos if kk == k][-1]
                        for fill in (0.0, 'nan'):
                            yield {'part': 'layout', 'kind': 'gridded', 'layout': layout, 'order': order, 'shape': shape, 'ov': ov,
                                   'poskind': k, 'pos': list(pos), 'flux': 2.5, 'fill': fill}


PARTS = {'prf': check_prf, 'psf': check_psf, 'halfmax': check_halfmax, 'linear': check_linear, 'pair': check_pair,
         'pixint': check_pixint}
SHARDS = {'prf': 8, 'psf': 12, 'halfmax': 1, 'linear': 1, 'pair': 4, 'pixint': 8, 'image': 4, 'gridded': 6, 'layout': 8}


def hist_depth(root, tier):
    if HIST_ROOTS[root][5] == 'cells':
        return 2          # every ordered pair of (position, way of evaluating)
    if HIST_ROOTS[root][5] == 'cells-deep':
        return 4 if (tier == 'thorough' and root not in THOROUGH_ONLY_ROOTS) else 3
    if tier == 'thorough':
        return 4
    return 3


def plan(tier, seed):
    units = []
    mult = 4 if tier == 'thorough' else 1
    for part, n in SHARDS.items():
        n = n * mult if part not in ('halfmax', 'linear') else n
        for j in range(n):
            units.append({'kind': part, 'shard': j, 'nshards': n})
    for root in hist_roots(tier):
        sysm = HistSystem(root, tier, seed)
        nops = len(sysm.ops(None))
        depth = hist_depth(root, tier)
        # one unit per first operation; the shallow (depth 2) roots are sharded into groups of 8 first operations
        step = 8 if depth <= 2 else 1
        for i in range(0, nops, step):
            units.append({'kind': 'hist', 'root': root, 'depth': depth, 'first': list(range(i, min(i + step, nops)))})
    # slowest first
    units.sort(key=lambda u: 0 if u['kind'] == 'hist' else 1)
    return units


def run_case(acc, case, seed):
    part = case['part']
    if part == 'image':
        check_image(acc, case, seed)
    elif part == 'gridded':
        check_gridded(acc, case, seed)
    elif part == 'layout':
        check_layout(acc, case, seed)
    else:
        PARTS[part](acc, case)


def run_unit(unit, tier, seed):
    acc = Acc()
    kind = unit['kind']
    if kind == 'hist':
        from ..explorer import explore
        sysm = HistSystem(unit['root'], tier, seed)
        explore(sysm, unit['depth'], acc, first_ops=unit['first'], extra={'part': 'hist', 'root': unit['root'], 'tier': tier},
                root_check=(unit['first'][0] == 0))
        return acc
    if kind == 'image':
        gen = image_cases(tier, seed)
    elif kind == 'gridded':
        gen = gridded_cases(tier, seed)
    elif kind == 'layout':
        gen = layout_cases(tier, seed)
    else:
        gen = functional_cases(kind, tier, seed)
    for i, case in enumerate(gen):
        if i % unit['nshards'] != unit['shard']:
            continue
        run_case(acc, case, seed)
    return acc


def replay(case, seed):
    acc = Acc()
    if case.get('part') == 'hist':
        from ..explorer import build, _mk_report
        sysm = HistSystem(case['root'], case.get('tier', 'quick'), seed)
        hist = _tup(case['history'])
        extra = {k: v for k, v in case.items() if k != 'history'}
        if hist:
            st, usable = build(sysm, hist, acc, extra)
        else:
            st, usable = sysm.initial(), True
        if usable:
            sysm.invariant(st, _mk_report(acc, sysm, hist, extra))
        return acc
    run_case(acc, case, seed)
    return acc


def describe(tier, seed):
    A = alphabets(tier, seed)
    sizes = {}
    for part in PARTS:
        sizes[part] = sum(1 for _ in functional_cases(part, tier, seed))
    sizes['image'] = sum(1 for _ in image_cases(tier, seed))
    sizes['gridded'] = sum(1 for _ in gridded_cases(tier, seed))
    from ..ref import c13_layouts as LY
    lc = list(layout_cases(tier, seed))
    sizes['layout'] = {'model_configurations': {k: sum(1 for c in lc if c['kind'] == k) for k in ('functional', 'image', 'gridded')},
                       'windows_per_configuration': 3, 'ways_of_evaluating': LAYOUT_VIAS,
                       'layouts': {g: [n for n, gg, _, _ in LY.LAYOUTS if gg == g] for g in LY.GROUPS},
                       'integer_windows_only': [n for n, _, _, ints in LY.LAYOUTS if ints]}
    hs = {}
    for r in hist_roots(tier):
        h = HistSystem(r, tier, seed)
        hs[r] = {'depth': hist_depth(r, tier), 'ops': len(h.ops(None)), 'mode': h.mode, 'layout': h.layout,
                 'positions': [list(p) for p in h.positions]}
        if h.mode in ('cells', 'cells-deep'):
            hs[r]['position_kinds'] = h.position_kinds
            hs[r]['cells_rows_x_columns'] = [len(LAYOUTS[h.layout][1]) - 1, len(LAYOUTS[h.layout][0]) - 1]
            hs[r]['operations'] = sorted({op[0] for op in h.ops(None)})
    return {'alphabet': {k: [list(v) if isinstance(v, tuple) else v for v in vals] for k, vals in A.items()},
            'product_sizes': sizes,
            'gridded_layouts': {k: [list(map(float, v[0])), list(map(float, v[1]))] for k, v in LAYOUTS.items()},
            'bound': {'history': hs},
            'history_level': 'model_checking (states/transitions/traces keys refer to the history part only)'}
