"""C15 -- results do not depend on how the same numbers are represented.

Shape (C): full product  numerical registry entry  x  representation.  The
entries are the call recipes of ``mcphot.ref.registry`` that take image data
(the same recipes C10 uses); the scene is integer valued, so every
representation holds exactly the same numbers:

    f8 (baseline) | f4 | i4 | i8 | big-endian >f8 | Fortran order | strided view |
    MaskedArray with an all-False mask | MaskedArray with nomask | NDData |
    Quantity with the same unit on every companion argument            (must agree)
    Quantity data + plain companions | plain data + Quantity companions (must raise)

Oracle (metamorphic, no expected numbers):
 * every step (function call, constructor, every public property / argument-less
   method of the returned object) that succeeds for f8 succeeds for every valid
   representation and returns the same numbers;
 * Quantity: same numbers, and the unit is the one dimensional analysis gives:
   an output that is homogeneous of integer degree k in the data (measured by
   running the f8 baseline on 2 x data: every value scales by exactly 2**k)
   carries  (baseline unit) * Jy**k ;
 * a step that receives the data and a unit-ful companion raises when only one
   of them carries units.
Exempt: Background2D value comparison for integer input (documented: output has
the integer dtype of the input, i.e. is rounded).
"""
import re

import numpy as np

from ..ref import registry as R
from ..runner import Acc

PROPERTY = 'C15'
LEVEL = 'exploration'
RULE = ('full Cartesian product: every numerical registry recipe (entry points taking image data) x representation '
        '{f4, i4, i8, big-endian, Fortran order, strided view, MaskedArray(empty mask), MaskedArray(nomask), NDData, Quantity, '
        'mixed unit-ful/unit-less (2 ways)} x data condition {clean, masked} (+ negatives in the thorough tier); each recipe '
        'executes its steps (call, then every public property / argument-less method of the result) and every step output '
        'is compared with the float64 baseline; one evaluation = one compared step; a step is non-trivial when the '
        'baseline step succeeded and returned at least one number; distinct = distinct (step label, representation, condition)')
ASSUMPTIONS = ['the scene is integer valued (|values| < 2**24) so that f4 / i4 / i8 hold exactly the float64 numbers',
               'float64 little-endian C-contiguous ndarray is the reference representation',
               'units: outputs homogeneous of integer degree k in the data (exact scaling by 2) carry baseline_unit * data_unit**k; '
               'outputs of no integer degree (magnitudes, flags) are only required to match in value',
               'Quantity / NDData are demanded only where the API documents them (registry flags units / nddata)']

# -- tolerances ---------------------------------------------------------------
# Same numbers in, same algorithm: every difference is floating-point
# re-association (numpy's pairwise summation blocks differ between contiguous,
# Fortran and strided operands; bottleneck vs numpy code paths for big-endian /
# masked input).  Direct computations: rtol = 1e-12 of the output scale (DESIGN
# C15); measured worst case on the repaired tree over seeds 0-2: 2.9e-15
# (StdBackgroundRMS, big-endian).  Outputs of iterative least-squares fits may
# amplify a 1e-16 re-association by the conditioning of the fit: 1e-9 of scale
# (measured worst case: 0 -- the fitters see C-contiguous float64 cutouts in
# every representation).
RTOL = 1e-12
RTOL_FIT = 1e-9
# The property allows float32 precision for float32 AND integer input ("integer
# or float32 arrays holding the same values (to float32 precision)"; astropy's
# SigmaClip, the documented clipping engine, computes in float32 for integer
# input).  float32 / integers hold the scene exactly; arithmetic carried out in
# float32 has eps = 6e-8 per operation: 1e-5 of scale (DESIGN C15); measured
# worst case 2.7e-7 (SExtractorBackground, f4), fits 6.6e-8 (PSFPhotometry cfit).
RTOL_F4 = 1e-5
RTOL_F4_FIT = 1e-5
FIT_STEPS = re.compile(r'centroid_1dg|centroid_2dg|centroid_sources\[[12]dg|find_peaks\[centroid_2dg|gaussian_f|PSFPhotometry|'
                       r'fit_2dgaussian|fit_fwhm|fwhm|Ellipse|Isophote|build_ellipse_model|EllipseFitter|centroid_win|kron|'
                       r'fluxfrac|make_kron')


# Outputs whose docstrings state that they are in the units of the input data
# (matched against '<step label>|<output path>'); for these the unit must be
# present.  For every other output a unit is only required to be dimensionally
# right *if one is attached* (its power of the data unit must be the degree k).
DOCUMENTED_UNIT = re.compile('|'.join([
    r'^aperture_photometry[^|]*\|aperture_sum',
    r'\.do_photometry[^|]*\|',
    r'^ApertureStats(\[[^|]*\])?\.(sum|sum_err|mean|median|mode|std|mad_std|var|biweight_location|biweight_midvariance|min|max)\|',
    r'^Background2D(\[[^|]*\])?\.(background|background_rms|background_median|background_rms_median|background_mesh|background_rms_mesh)\|',
    r'^(Mean|Median|ModeEstimator|MMM|SExtractor|BiweightLocation)Background[^|]*\|',
    r'^(Std|MADStd|BiweightScale)BackgroundRMS[^|]*\|',
    r'^detect_threshold[^|]*\|', r'^calc_total_error[^|]*\|',
    r'^SourceCatalog(\[[^|]*\])?\.(segment_flux|segment_fluxerr|kron_flux|kron_fluxerr|min_value|max_value|local_background|'
    r'background_sum|background_mean|background_centroid)\|',
    r'^SourceCatalog\.(circular_photometry|kron_photometry)\|',
    r'^find_peaks[^|]*\|peak_value', r'^(DAO|IRAF)StarFinder[^|]*\|(peak|flux)$', r'^StarFinder[^|]*\|(flux|max_value)$',
    r'^(RadialProfile|CurveOfGrowth)(\[[^|]*\])?\.(profile|profile_error)\|',
    r'PSFPhotometry[^|]*\(\)\|(flux_init|flux_fit|flux_err|local_bkg)$',
    r'PSFPhotometry[^|]*\.make_(model|residual)_image\|',
]))


def conds(tier):
    # 'masked': a mask argument with True pixels inside the sources (NDData then carries a mask too)
    return ('clean', 'masked', 'negatives') if tier == 'thorough' else ('clean', 'masked')


def numeric_recipes():
    return [r for r in R.RECIPES.values() if r.numeric]


def reps_for(r):
    out = []
    for rep in R.C15_REPS:
        if rep == 'nddata' and not r.nddata:
            continue
        if rep == 'quantity' and not r.units:
            continue
        out.append(rep)
    if r.units:
        out += list(R.C15_MIXED)
    return out


def plan(tier, seed):
    return [{'recipe': r.name, 'cond': cond} for r in numeric_recipes() for cond in conds(tier)]


def site_of(label, rep):
    base = re.sub(r'\[[^\]]*\]', '', label)
    cls = {'i4': 'int', 'i8': 'int'}.get(rep, rep)
    return f'{base}:{cls}'


# -- comparison ------------------------------------------------------------------
def leaves(x, path=''):
    """Flatten a normalised output into {path: leaf}."""
    out = {}
    if isinstance(x, dict):
        for k, v in x.items():
            out.update(leaves(v, f'{path}.{k}' if path else str(k)))
    elif isinstance(x, list):
        out[path + '#len'] = ('str', str(len(x)))
        for i, v in enumerate(x):
            out.update(leaves(v, f'{path}[{i}]'))
    else:
        out[path or '<value>'] = x
    return out


def cmp_leaf(a, b, rtol):
    """None when equal, else a message.  a = baseline leaf."""
    if a is None or b is None:
        return None if (a is None and b is None) else f'{R.short(a, 60)} vs {R.short(b, 60)}'
    if a[0] != b[0]:
        return f'kind {a[0]} vs {b[0]}'
    if a[0] == 'opaque':
        return None
    if a[0] == 'str':
        return None if a[1] == b[1] else f'{a[1][:60]!r} vs {b[1][:60]!r}'
    x, y = a[1], b[1]
    if x.shape != y.shape:
        return f'shape {x.shape} vs {y.shape}'
    if x.size == 0:
        return None
    fin = np.isfinite(x)
    scale = float(np.max(np.abs(x[fin]))) if fin.any() else 1.0
    with np.errstate(all='ignore'):
        ok = np.isclose(y, x, rtol=rtol, atol=rtol * max(scale, 1e-300), equal_nan=True)
    if ok.all():
        return None
    idx = tuple(int(i) for i in np.argwhere(~ok)[0]) if x.ndim else ()
    return (f'at {idx}: {y[idx] if x.ndim else y[()]!r} vs baseline {x[idx] if x.ndim else x[()]!r} '
            f'({int((~ok).sum())} of {ok.size} differ, scale {scale:.3g}, rtol {rtol:g})')


def degree(a, b):
    """integer k with b == 2**k * a for every finite non-zero value, else None."""
    x, y = a[1], b[1]
    if x.shape != y.shape or x.size == 0:
        return None
    m = np.isfinite(x) & np.isfinite(y) & (x != 0)
    if not m.any() or not np.array_equal(np.isfinite(x), np.isfinite(y)):
        return None
    with np.errstate(all='ignore'):
        ratio = y[m] / x[m]
    for k in (0, 1, 2, -1, -2, 3):
        if np.allclose(ratio, 2.0 ** k, rtol=1e-6, atol=0):
            # zeros must stay zeros
            if np.all(y[np.isfinite(x) & (x == 0)] == 0):
                return k
    return None


def expected_unit(base_unit, k):
    import astropy.units as u
    b = u.Unit(base_unit) if base_unit not in (None, '') else u.dimensionless_unscaled
    return b * u.Jy ** k


def same_unit(got, want):
    import astropy.units as u
    g = u.Unit(got) if got not in (None, '') else u.dimensionless_unscaled
    try:
        return g == want
    except Exception:
        return False


def nnum(leafs):
    return sum(1 for v in leafs.values() if isinstance(v, tuple) and v[0] == 'num' and v[1].size)


def run_recipe_cond(acc, r, cond, seed, only_rep=None, sample=False):
    name = r.name
    base = R.run_recipe(name, 'f8', cond, seed, integer_scene=True)
    base_out = {lab: R.norm(v) for lab, v in base.out.items()}
    base_leaves = {lab: leaves(v) for lab, v in base_out.items() if not isinstance(v, R.Raised)}
    scaled_leaves = None
    for rep in reps_for(r):
        if only_rep is not None and rep != only_rep:
            continue
        c = R.run_recipe(name, rep, cond, seed, integer_scene=True)
        if c is None:
            acc.skip('combination not applicable')
            continue
        case0 = {'recipe': name, 'rep': rep, 'cond': cond}
        mixed = rep in R.C15_MIXED
        if mixed and not (c.uses_companion and c.uses_data):
            acc.skip('recipe has no unit-ful companion argument (nothing to mix)')
            continue
        if rep == 'quantity' and scaled_leaves is None:
            s2 = R.run_recipe(name, 'f8', cond, seed, integer_scene=True, scale=2.0)
            scaled_leaves = {lab: leaves(R.norm(v)) for lab, v in s2.out.items() if not isinstance(v, R.Raised)}
        for i, (label, status) in enumerate(c.steps):
            b = base_out.get(label, None)
            case = dict(case0, step=label)
            smp = dict(case, status=status) if (sample and i == 0) else None
            if label not in base_out and dict(base.steps).get(label) is None:
                acc.skip('step absent from the float64 baseline run (an earlier step of the recipe failed differently)')
                continue
            if isinstance(b, R.Raised):
                acc.case(nontrivial=False, sample=smp)
                acc.skip('float64 baseline raises (nothing to compare)')
                continue
            if mixed:
                if label not in c.mix_steps:
                    continue
                acc.case(nontrivial=True, key=(label, rep, cond), sample=smp)
                acc.outcome((label, rep, status))
                rejected = status != 'ok' and c.out[label].is_rejection
                if not rejected:
                    # a deliberate rejection is a ValueError / TypeError (astropy's UnitsError, UnitConversionError and
                    # UnitTypeError are subclasses); an AttributeError from deep inside is a crash, not a rejection
                    acc.violation('mixed-accepted', site_of(label, rep), case,
                                  observed='call returned normally' if status == 'ok' else repr(c.out[label]),
                                  expected='ValueError / TypeError / UnitsError (unit-ful mixed with unit-less input)',
                                  detail=f'step {label!r}: ' + ('data is a Quantity, error/background/threshold are plain numbers'
                                                               if rep == 'mixed_data' else
                                                               'data is a plain array, error/background/threshold are Quantities'))
                continue
            bl = base_leaves[label]
            acc.case(nontrivial=nnum(bl) > 0, key=(label, rep, cond) if nnum(bl) else None, sample=smp)
            if status != 'ok':
                acc.violation('repr-raises', site_of(label, rep), case, observed=repr(c.out[label]),
                              expected='succeeds as for the float64 ndarray',
                              detail=f'step {label!r} with data representation {rep!r}')
                continue
            ol = leaves(R.norm(c.out.get(label)))
            if rep == 'nddata' and 'nddata.data' in ol and '<value>' in bl:
                ol = {'<value>': ol['nddata.data']}      # an NDData in gives an NDData out (documented): compare its data
            acc.outcome((label, rep, len(ol)))
            if rep in ('i4', 'i8') and label.startswith('Background2D'):
                acc.counters['exempt_background2d_integer_output'] += 1
                continue
            fit = bool(FIT_STEPS.search(label))
            rtol = (RTOL_F4_FIT if fit else RTOL_F4) if rep in ('f4', 'i4', 'i8') else (RTOL_FIT if fit else RTOL)
            if set(ol) != set(bl):
                acc.violation('repr-differs', site_of(label, rep), case, observed=sorted(set(ol) ^ set(bl))[:6],
                              expected='same output structure as the float64 baseline', detail=f'step {label!r}')
                continue
            for path, a in bl.items():
                msg = cmp_leaf(a, ol[path], rtol)
                if msg:
                    acc.violation('repr-differs', site_of(label, rep), dict(case, output=path), observed=msg,
                                  expected=f'equal to the float64 baseline within rtol {rtol:g} of scale',
                                  detail=f'step {label!r} output {path!r} with data representation {rep!r}')
                    break
            if rep == 'quantity':
                sl = scaled_leaves.get(label)
                for path, a in bl.items():
                    o = ol[path]
                    if not (isinstance(a, tuple) and a[0] == 'num' and isinstance(o, tuple) and o[0] == 'num'):
                        continue
                    k = degree(a, sl[path]) if (sl is not None and path in sl and isinstance(sl[path], tuple)
                                                and sl[path][0] == 'num') else None
                    if k is None:
                        acc.counters['unit_not_checked_no_integer_degree'] += 1
                        continue
                    want = expected_unit(a[2], k)
                    documented = bool(DOCUMENTED_UNIT.search(f'{label}|{path}'))
                    if same_unit(o[2], want):
                        acc.counters['unit_checked_ok'] += 1
                        continue
                    if not documented and same_unit(o[2], expected_unit(a[2], 0)):
                        # an undocumented output without the data unit: not demanded
                        acc.counters['unit_absent_on_undocumented_output'] += 1
                        continue
                    acc.violation('unit-wrong', site_of(label, rep), dict(case, output=path),
                                  observed=f'unit {o[2]!r}', expected=f'unit {want.to_string()!r} (output scales as data**{k}; '
                                                                      f'float64 baseline unit {a[2]!r})',
                                  detail=f'step {label!r} output {path!r}' + (' (documented to be in data units)' if documented else ''))
                    break


def run_unit(unit, tier, seed):
    acc = Acc()
    run_recipe_cond(acc, R.RECIPES[unit['recipe']], unit['cond'], seed, sample=True)
    return acc


def replay(case, seed):
    acc = Acc()
    run_recipe_cond(acc, R.RECIPES[case['recipe']], case['cond'], seed, only_rep=case['rep'])
    return acc


def describe(tier, seed):
    cov = R.coverage()
    num = numeric_recipes()
    return {'alphabet': {'recipes': len(num), 'representations': ['f8 (baseline)'] + list(R.C15_REPS) + list(R.C15_MIXED),
                         'conditions': list(conds(tier))},
            'numerical_recipes': [r.name for r in num],
            'recipes_without_image_argument (C10 only)': [r.name for r in R.RECIPES.values() if not r.numeric],
            'quantity_demanded_for': [r.name for r in num if r.units],
            'nddata_demanded_for': [r.name for r in num if r.nddata],
            'public_callables': cov['public_callables'],
            'uncovered': cov['uncovered'],
            'unclassified_public_callables': cov['unclassified'],
            'tolerances': {'rtol': RTOL, 'rtol_fit': RTOL_FIT, 'rtol_f4': RTOL_F4, 'rtol_f4_fit': RTOL_F4_FIT}}
