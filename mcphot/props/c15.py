"""C15 -- results do not depend on how the same numbers are represented.

Shape (C): full product  numerical registry entry  x  representation.  The
entries are the call recipes of ``mcphot.ref.registry`` that take image data
(the same recipes C10 uses); the scene is integer valued, so every
representation holds exactly the same numbers.  Representations:

 (a) dtype x byte order, full product
         {f8, f4, i1, i2, i4, i8, u1, u2, u4, u8} x {little, big endian}
     (C-contiguous ndarray; error / background / kernel arrays are given in the
     same dtype).  A type can hold "the same numbers" only if they fit, so the
     float64 baseline of a representation is run in the *value domain* of its
     type class: 'full' (the scene as it is: floats, signed >= 16 bit),
     'nonneg' (negative pixels of the background-subtracted image clipped to 0:
     unsigned >= 16 bit), 'byte' (a fainter exposure of the scene, data x 0.15
     rounded, within 0..127: uint8 and int8; the error map keeps its values
     4..30, whose squares do not fit into 8 bits);
 (b) memory layout {Fortran order, strided view} of the float64 array; thorough
     tier: the full product (a) x {Fortran, strided} in addition;
 (c) containers: MaskedArray with an all-False mask, MaskedArray with nomask,
     NDData, Quantity with the same unit on every companion argument, NDData
     carrying the unit (with Quantity companions);
     forms of the NDData container (``registry.NDDATA_FORMS``), for every entry
     that accepts an NDData: full product  uncertainty type {StdDevUncertainty
     (sigma), VarianceUncertainty(sigma**2), InverseVariance(1 / sigma**2)} x
     unit form {unit-less container; unit-ful container with an uncertainty
     without a unit of its own (inherits), with the unit given explicitly (Jy,
     Jy**2, Jy**-2), with the same physical values in mJy (numbers x 1e3, 1e6,
     1e-6)} (12 forms, 2 of them the plain 'nddata' / 'nddata_q'), plus the
     CCDData class.  Each must equal the plain-array call with error=sigma.
     aperture_photometry / ApertureStats document that the error must be a
     StdDevUncertainty: their Variance / InverseVariance forms are skipped
     (counted); an uncertainty in mJy inside a Jy container may be rejected
     (ValueError / TypeError / UnitsError) instead of converted, as in (e);
                                                                   (must agree)
 (d) unit mixing, as a block: Quantity data + plain companions, plain data +
     Quantity companions                                           (must raise)
 (e) unit mixing, one companion at a time.  The *companions* of a recipe are
     the unit-ful arguments other than the data that it hands out (error,
     background, convolved_data, bkg_error, effective_gain, local_bkg,
     threshold, peakmax, init_params flux column); for every companion S:
        solo_plain:S  data and every other companion in Jy, S alone plain
        solo_unit:S   data and every other companion plain, S alone in Jy
                                                                   (must raise)
        other_unit:S  everything in Jy, S in mJy with the numbers x 1000 (the
                      same physical quantity): the call must raise, or every
                      result read from it must equal the all-Jy result.
     Which calls receive S is tracked by the context: the call is handed S's
     value, or an object built from it (a finder made with the threshold, a
     table holding the flux column, the catalog returned by the constructor).

Oracle (metamorphic, no expected numbers):
 * every step (function call, constructor, every public property / argument-less
   method of the returned object) that succeeds for f8 succeeds for every valid
   representation and returns the same numbers;
 * Quantity: same numbers, and the unit is the one dimensional analysis gives:
   an output that is homogeneous of integer degree k in the data (measured by
   running the f8 baseline on 2 x data: every value scales by exactly 2**k)
   carries  (baseline unit) * Jy**k ;
 * a step that receives the data and a unit-ful companion raises when only one
   of them carries units (d, e); a convertible but different unit is rejected
   or converted, never used as raw numbers (e).

 (g) OPTIONS (``mcphot.ref.c15_options``): unit-ful input x the optional
     arguments of the call.  Whether a Quantity / unit-ful NDData / CCDData is
     handled like the bare array depends on which options are in effect (a fill
     value written before or after the unit is attached, a mask, an
     interpolator, a clipping object, a local background ...); the recipes of
     (a)-(e) use one or two fixed option sets per entry.  For each of 17 entries
     (Background2D, CutoutImage, calc_total_error, aperture_photometry,
     ApertureStats, detect_threshold, detect_sources + deblend_sources,
     find_peaks, DAOStarFinder, IRAFStarFinder, StarFinder, SourceCatalog,
     RadialProfile, CurveOfGrowth, centroid_sources, data_properties,
     extract_stars): FULL PRODUCT of the option alphabets (every optional
     argument that touches values: default first, then every other kind of
     value; listed in the evidence) x representation {Quantity, NDData with
     unit, CCDData, unit-less NDData (the last three where the entry accepts an
     NDData)}.  Quick tier: a stated sub-product for Background2D (2048 -> 108
     combinations: coverage_mask x fill_value {0, NaN, -1.5} x mask x
     interpolator in full, mesh options x zoom interpolator in full),
     ApertureStats and SourceCatalog (one value dropped); everything else in
     full.  Oracle: every output equals the plain float64 call of the same
     combination (RTOL; fits RTOL_FIT) and carries Jy**k for the k the docs give
     that output (undocumented outputs: no unit demanded).  extract_stars takes
     an NDData only: its "plain call" is the plain model cutout / weights =
     1 / sigma (0 where masked), for uncertainty type {std, var, ivar} x mask.

Exempt: Background2D value comparison for integer input (documented: output has
the integer dtype of the input, i.e. is rounded).
Not enumerated (outside the property's list): float16 and bool images.

 (f) LARGE REDUCTIONS (``mcphot.ref.c15_large``).  Whether a representation is
     handled correctly can depend on the SIZE of the input: an accumulator kept
     in the dtype of the data (a float32 running sum, an int16 sum) is exact or
     invisible on the 41 x 47 scene and wrong by per cents on 1e6 pixels.  Full
     product  entry x representation x condition  on one 1024 x 1000 image
     round(1000 + 5 N(0,1)) (sum 1e9: beyond int16 / uint16, float32 ulp 64; the
     8-bit types get the same noise on a pedestal of 100):
       entries: the nan-statistics wrappers of photutils.utils._stats {nansum,
         nanmean, nanmedian, nanstd, nanvar, nanmin, nanmax} x axis {None, 0, 1,
         (0, 1)}; the 6 background and 3 background-RMS estimator classes x
         {no clipping, sigma clipping} over the image and (no clipping) x axis
         {0, 1}; detect_threshold {no mask, mask}; Background2D with box = image
         / half the image x {no clipping, sigma clipping}; calc_total_error;
         centroid_com; aperture_photometry {exact, center, subpixel},
         ApertureStats {exact, center}, RadialProfile, CurveOfGrowth over an
         aperture of 6.9e5 pixels; SourceCatalog over a segment of 8.8e5 pixels;
       representations: dtype x byte order (the 17 of (a)), {Fortran, strided}
         of float64 and of float32 (thorough: of every dtype), and for the
         statistics wrappers Quantity of float64 / float32 (unit: data unit,
         squared for nanvar);
       conditions: clean; 57 NaN pixels (floating-point types; statistics,
         estimators, detect_threshold, Background2D).
     Oracle: every output equals the float64 C-contiguous result (tolerances
     below); Background2D for integer input: within 2.5 (integer-typed output).
     A sigma-clipped entry is skipped for float32 / integer input when a
     clipping bound (plain float64 reference clipping) lies within 1e-3 of a
     pixel value: which pixels are clipped is then not determined to float32
     precision (tie).
"""
import re

import numpy as np

from ..ref import c15_large as L
from ..ref import c15_options as O
from ..ref import registry as R
from ..runner import Acc

PROPERTY = 'C15'
LEVEL = 'exploration'
RULE = ('full Cartesian product: every numerical registry recipe (entry points taking image data) x representation x data '
        'condition {clean, masked} (+ negatives in the thorough tier).  Representations: the full product dtype {f8, f4, i1, i2, '
        'i4, i8, u1, u2, u4, u8} x byte order {little, big} (each compared with the float64 baseline run in the value domain '
        'its type can hold: full / non-negative / 7-bit); layouts {Fortran order, strided view} (thorough: x every dtype and '
        'byte order); containers {MaskedArray(empty mask), MaskedArray(nomask), NDData, Quantity, NDData with unit}; NDData forms for the '
        'NDData-accepting recipes: uncertainty type {StdDev, Variance, InverseVariance} x unit form {unit-less container; unit-ful: '
        'uncertainty unit inherited / explicit / explicit in mJy} + the CCDData class (11 forms besides the two plain ones), each '
        'compared with the plain-array call with error=sigma; unit mixing as a block (2 '
        'ways) and one companion at a time: every unit-ful companion argument the recipe hands out (error, background, '
        'convolved_data, bkg_error, effective_gain, local_bkg, threshold, peakmax, flux column) x {alone plain, alone unit-ful, '
        'alone in mJy instead of Jy}.  Each recipe executes its steps (call, then every public property / argument-less method '
        'of the result) and every step output is compared with the float64 baseline (unit mixing: the steps that receive the '
        'data and the companion must raise; other unit: raise or equal the all-Jy result); one evaluation = one compared step; '
        'a step is non-trivial when the baseline step succeeded and returned at least one number (mixing: when the call '
        'receives the companion); distinct = distinct (step label, representation, condition).  LARGE-REDUCTION family (size-'
        'dependent representation defects: accumulators kept in the input dtype): full product of 80 entries (nan-statistics '
        'wrappers x axis {None, 0, 1, (0,1)}; 9 background / RMS estimator classes x {no clip, sigma clip, axis 0, axis 1}; '
        'detect_threshold x {no mask, mask}; Background2D box {image, half image} x {no clip, sigma clip}; calc_total_error; '
        'centroid_com; aperture_photometry x 3 methods, ApertureStats x 2 methods, RadialProfile, CurveOfGrowth over a 6.9e5 '
        'pixel aperture; SourceCatalog over a 8.8e5 pixel segment) x representation {17 dtype x byte order, Fortran / strided '
        'float64 and float32 (thorough: every dtype), Quantity float64 / float32 for the wrappers} x condition {clean, 57 NaN '
        'pixels (floating-point types)} on one 1024 x 1000 integer-valued image (pedestal 1000, sigma 5; 8-bit types: pedestal '
        '100), each output compared with the float64 result; one evaluation = one compared entry, non-trivial when the '
        'float64 baseline returned a number.  OPTIONS family (unit-ful input x optional arguments): for each of 17 entries the full '
        'product of its option alphabets (evidence: coverage.options; quick tier: stated sub-product for Background2D / ApertureStats / '
        'SourceCatalog) x representation {Quantity, NDData with unit, CCDData, unit-less NDData}, every output compared with the '
        'plain float64 call of the same option combination (numbers + documented unit); one evaluation = one (combination, '
        'representation), non-trivial when the float64 call returned a number')
ASSUMPTIONS = ['the scene is integer valued (|values| < 2**15) so that every float / signed type of >= 16 bit holds exactly the '
               'float64 numbers; unsigned types are compared on the scene with negative pixels clipped to 0, 8-bit types on '
               'a fainter exposure (x 0.15, rounded, within 0..127), each against a float64 baseline of the same numbers '
               '(asserted per run: the array handed over has the dtype and equals the baseline array)',
               'float64 little-endian C-contiguous ndarray is the reference representation',
               'units: outputs homogeneous of integer degree k in the data (exact scaling by 2) carry baseline_unit * data_unit**k; '
               'outputs of no integer degree (magnitudes, flags) are only required to match in value',
               'Quantity / NDData are demanded only where the API documents them (registry flags units / nddata)',
               'which calls receive a companion is derived by the context from the objects a call is given (the companion itself '
               'or an object built from it in an earlier step); a companion carried by an object but documented to be unused by '
               'the call (the finder of PSFPhotometry when init_params are given) is declared in the recipe',
               'a raised ValueError / TypeError / astropy UnitsError is a rejection; any other exception is a crash',
               'after a call on an object was rejected, later reads of that object are not judged (state after an error)',
               'an unsigned / 8-bit kernel or convolved image that cannot hold its values stays float64 (counted in the evidence)',
               'float16 and bool images are not in the property\'s list of representations and are not enumerated',
               'NDData forms: an InverseVariance holds sigma to 2 roundings (1 / sigma**2, then 1 / sqrt): relative 2e-16, covered by '
               'RTOL / RTOL_FIT (measured worst case 4.6e-11 on fit outputs); aperture_photometry / ApertureStats are documented to take '
               'the error from a StdDevUncertainty only (other types skipped); a unit-less container holding an uncertainty with a unit '
               'is itself a unit mixture and is not enumerated',
               'options family: the option alphabets are hand-listed per entry (every optional argument that touches values; evidence '
               'coverage.options); entries / options not listed there are covered only by the fixed option sets of the recipes; the unit '
               'demanded of an output is the one its docstring gives (power of the data unit), undocumented outputs (CutoutImage.data, '
               'normalised profiles, magnitudes) are compared in value only',
               'large reductions: "float32 precision" of a reduction over n = 2**20 pixels means float64 or pairwise float32 '
               'accumulation (error <= ~32 float32 roundings: 2e-6 relative), along an image axis of length L ~ 1e3 a plain '
               'float32 running sum (<= (L-1) roundings per pass: 6e-5); float64 accumulation of a float64 image may be a '
               'plain running sum (n roundings of 1.1e-16)',
               'large reductions: a sigma-clipped entry whose clipping bound (float64 reference clipping, every iteration) lies '
               'within 1e-3 of a pixel value is a tie for float32 / integer input and is skipped (counted)',
               'large reductions: the photutils.utils._stats wrappers are internal; they are enumerated because every '
               'background class, Background2D and detect_threshold compute through them (anchor of the property)']

# -- tolerances ---------------------------------------------------------------
# Same numbers in, same algorithm: every difference is floating-point
# re-association (numpy's pairwise summation blocks differ between contiguous,
# Fortran and strided operands; bottleneck vs numpy code paths for big-endian /
# masked input).  Direct computations: rtol = 1e-12 of the output scale (DESIGN
# C15); measured worst case on the repaired tree over seeds 0-2: 2.9e-15
# (StdBackgroundRMS, big-endian).  Outputs of iterative least-squares fits may
# amplify a 1e-16 re-association by the conditioning of the fit: 1e-9 of scale
# (measured worst case: 0 -- the fitters see C-contiguous float64 cutouts in
# every representation).
RTOL = 1e-12
RTOL_FIT = 1e-9
# The property allows float32 precision for float32 AND integer input ("integer
# or float32 arrays holding the same values (to float32 precision)"; astropy's
# SigmaClip, the documented clipping engine, computes in float32 for integer
# input).  float32 / integers hold the scene exactly; arithmetic carried out in
# float32 has eps = 6e-8 per operation: 1e-5 of scale (DESIGN C15); measured
# worst case over seeds 0-2: 2.7e-7 (SExtractorBackground, f4).  Every integer
# type of either byte order measured 0 for the fits and <= 2.3e-7 elsewhere (the
# code promotes to float64 or float32 before computing).  Fit outputs: the
# parameter errors from the covariance matrix amplify the float32 rounding of
# the data by the conditioning of the fit: measured worst case 1.6e-6
# (IterativePSFPhotometry y_err, f4 / big-endian f4, masked, seed 2): 1e-4.
RTOL_F4 = 1e-5
RTOL_F4_FIT = 1e-4
# LARGE REDUCTIONS (family f).  n = 2**20 pixels, values ~1000 (all of one sign: the condition number of the sums is 1),
# u32 = 2**-24 = 6.0e-8, u64 = 1.1e-16.
#  * float32 / integer input, reduction over the image / a box / an aperture (kind 'whole'): correct handling is float64
#    accumulation (error ~u32 from the final rounding) or numpy's pairwise float32 summation: blocks of 128 terms in 8
#    running sums (16 roundings) + 3 + log2(n / 128) = 13 combining levels: <= 32 u32 = 1.9e-6; the two-pass variance
#    doubles it: 3.8e-6.  RTOL_LARGE = 1e-5 of scale (= RTOL_F4; 2.6 x the worst-case bound; measured: see CALIBRATION
#    below).  A float32 *running* sum over the image is off by 8e-3 in the
#    mean (ulp 64 at 1e9: every addend 1000 +- 15 is rounded to 1024) and by a factor 1.9 in the standard deviation.
#  * along one image axis (kind 'axis', L = 1024 / 1000 terms): numpy reduces over a non-contiguous axis with a plain
#    float32 running sum per column: <= (L - 1) u32 = 6.1e-5 per pass, two passes for the variance: 1.2e-4.
#    RTOL_LARGE_AXIS = 2.5e-4 (2 x the bound).
#  * float64 input (big-endian / Fortran / strided / Quantity): bottleneck keeps a plain float64 running sum where numpy
#    sums pairwise: <= n u64 = 1.2e-10 per pass (measured 1.7e-12 for nanstd): RTOL_LARGE_F8 = 1e-9.
#  * element-wise entries (kind 'pixel'): RTOL_F4 / RTOL as on the small scene.
# CALIBRATION (unchanged /repo, seeds 0-2, maximum over every entry and representation of the class; the 'worst:' notes
# in the evidence of a run with VERIF_C15_CALIBRATE=1): whole 4.7e-7 (ModeEstimatorBackground, sigma clipped, big-endian
# float32), axis 1.5e-5 (nanvar axis=0, float32), float64 3.7e-12 (nanvar, big-endian).
RTOL_LARGE = 1e-5
RTOL_LARGE_AXIS = 2.5e-4
RTOL_LARGE_F8 = 1e-9
# Background2D returns the integer dtype of an integer input (documented, the property's exception).  Two casts
# (truncations) to the integer type: the mesh of box statistics (error in (-1, 0]), then the image interpolated from the
# truncated mesh: the cubic-spline weights sum to 1 with sum |w| <= ~1.2, so the interpolated error is < 1.2, the second
# truncation adds < 1: 2.5.  Measured worst case, seeds 0-2: 1.005 (a mesh of [4.99, 5.005] becomes [4, 5]).  A
# float32 running sum over the image (Background2D computes integer images in float32) is off by 8.
ATOL_B2D_INTEGER = 2.5
# a clipping bound closer than this to a pixel value: the clipped set is not determined to float32 precision (the bound
# 1000 +- 15 carries the float32 rounding 6e-5 and the error of the float32 standard deviation, 3 x 5 x 1e-5 = 1.5e-4)
TIE_MARGIN = 1e-3
FIT_STEPS = re.compile(r'centroid_1dg|centroid_2dg|centroid_sources\[[12]dg|find_peaks\[centroid_2dg|gaussian_f|PSFPhotometry|'
                       r'fit_2dgaussian|fit_fwhm|fwhm|Ellipse|Isophote|build_ellipse_model|EllipseFitter|centroid_win|kron|'
                       r'fluxfrac|make_kron')


# Outputs whose docstrings state that they are in the units of the input data
# (matched against '<step label>|<output path>'); for these the unit must be
# present.  For every other output a unit is only required to be dimensionally
# right *if one is attached* (its power of the data unit must be the degree k).
DOCUMENTED_UNIT = re.compile('|'.join([
    r'^aperture_photometry[^|]*\|aperture_sum',
    r'\.do_photometry[^|]*\|',
    r'^ApertureStats(\[[^|]*\])?\.(sum|sum_err|mean|median|mode|std|mad_std|var|biweight_location|biweight_midvariance|min|max)\|',
    r'^Background2D(\[[^|]*\])?\.(background|background_rms|background_median|background_rms_median|background_mesh|background_rms_mesh)\|',
    r'^(Mean|Median|ModeEstimator|MMM|SExtractor|BiweightLocation)Background[^|]*\|',
    r'^(Std|MADStd|BiweightScale)BackgroundRMS[^|]*\|',
    r'^detect_threshold[^|]*\|', r'^calc_total_error[^|]*\|',
    r'^SourceCatalog(\[[^|]*\])?\.(segment_flux|segment_fluxerr|kron_flux|kron_fluxerr|min_value|max_value|local_background|'
    r'background_sum|background_mean|background_centroid)\|',
    r'^SourceCatalog\.(circular_photometry|kron_photometry)\|',
    r'^find_peaks[^|]*\|peak_value', r'^(DAO|IRAF)StarFinder[^|]*\|(peak|flux)$', r'^StarFinder[^|]*\|(flux|max_value)$',
    r'^(RadialProfile|CurveOfGrowth)(\[[^|]*\])?\.(profile|profile_error)\|',
    r'PSFPhotometry[^|]*\(\)\|(flux_init|flux_fit|flux_err|local_bkg)$',
    r'PSFPhotometry[^|]*\.make_(model|residual)_image\|',
]))


# aperture_photometry / ApertureStats: "In the case of error, it must be defined in the uncertainty attribute with a
# StdDevUncertainty instance" (docstrings): other uncertainty types are outside their documented domain
STDDEV_ONLY = frozenset({'aperture_photometry', 'ApertureStats'})


def conds(tier):
    # 'masked': a mask argument with True pixels inside the sources (NDData then carries a mask too)
    return ('clean', 'masked', 'negatives') if tier == 'thorough' else ('clean', 'masked')


def numeric_recipes():
    return [r for r in R.RECIPES.values() if r.numeric]


NEW_DTYPE_REPS = tuple(rep for rep in R.C15_DTYPE_REPS if rep not in R.C15_REPS)
INT_REPS = frozenset(rep for rep in R.C15_DTYPE_REPS if np.dtype(R.DTYPE_OF_REP[rep]).kind in 'iu')
# representations judged with the float32 tolerance: float32 and every integer type (either byte order)
F4_CLASS = frozenset(rep for rep in R.C15_DTYPE_REPS if R.DTYPE_OF_REP[rep] != '>f8')


def dtype_of(rep):
    """The dtype member of a 'dtype' or 'dtype@layout' representation (else None)."""
    d = rep.split('@', 1)[0]
    return d if d in R.DTYPE_OF_REP else None


def reps_for(r, tier='quick'):
    """Representations of the whole argument set (the per-companion ones are
    enumerated from the companions the recipe hands out: see solo_reps)."""
    out = []
    for rep in R.C15_REPS + ('nddata_q',) + NEW_DTYPE_REPS:
        if rep == 'nddata' and not r.nddata:
            continue
        if rep == 'nddata_q' and not (r.nddata and r.units):
            continue
        if rep == 'quantity' and not r.units:
            continue
        out.append(rep)
    if r.nddata:
        # forms of the NDData container: uncertainty type x unit form (+ the CCDData class)
        out += [f for f in R.NDDATA_FORMS if r.units or R.nddata_base(f) == 'nddata']
    if tier == 'thorough':
        out += [f'{d}@{lay}' for d in R.C15_DTYPE_REPS for lay in R.C15_LAYOUTS]
    if r.units:
        out += list(R.C15_MIXED)
    return out


def solo_reps(cq):
    """companion slots of the all-Quantity run x {alone plain, alone unit-ful, alone in another unit}"""
    return [f'{mode}:{slot}' for slot in cq.slots for mode in R.C15_SOLO]


def large_units(tier):
    """The large-reduction family: one unit per (entry group, batch of representations); each unit computes the float64
    baselines it needs.  First in the plan: they are the longest units."""
    out = []
    for g in L.GROUPS:
        reps = L.reps_of(g, tier)
        nb = {'stats': 1, 'estimators': 4, 'background2d': 3, 'sums': 4}[g] * (2 if tier == 'thorough' else 1)
        for b in range(nb):
            out.append({'large': g, 'reps': list(reps[b::nb])})
    return out


def option_units(tier):
    """The options family: one unit per entry (the thorough product of the larger entries is split by representation)."""
    out = []
    for e in O.ENTRIES.values():
        reps = O.reps_of(e)
        if tier == 'thorough' and len(O.combos(e, tier)) > 400:
            out += [{'options': e.label, 'reps': [rep]} for rep in reps]
        else:
            out.append({'options': e.label, 'reps': list(reps)})
    return out


def plan(tier, seed):
    return large_units(tier) + option_units(tier) + [{'recipe': r.name, 'cond': cond} for r in numeric_recipes() for cond in conds(tier)]


def site_of(label, rep):
    base = re.sub(r'\[[^\]]*\]', '', label)
    d = dtype_of(rep)
    if d is not None and d not in ('f4', 'be'):
        dt = np.dtype(R.DTYPE_OF_REP[d])
        cls = ('be_' if d.startswith('be_') else '') + {'i': 'int', 'u': 'uint', 'f': 'f' + str(dt.itemsize)}[dt.kind]
    else:
        cls = d or rep
    if '@' in rep:
        cls += '@' + rep.split('@', 1)[1]
    return f'{base}:{cls}'


# -- comparison ------------------------------------------------------------------
def leaves(x, path=''):
    """Flatten a normalised output into {path: leaf}."""
    out = {}
    if isinstance(x, dict):
        for k, v in x.items():
            out.update(leaves(v, f'{path}.{k}' if path else str(k)))
    elif isinstance(x, list):
        out[path + '#len'] = ('str', str(len(x)))
        for i, v in enumerate(x):
            out.update(leaves(v, f'{path}[{i}]'))
    else:
        out[path or '<value>'] = x
    return out


def cmp_leaf(a, b, rtol, atol=0.0):
    """None when equal, else a message.  a = baseline leaf."""
    if a is None or b is None:
        return None if (a is None and b is None) else f'{R.short(a, 60)} vs {R.short(b, 60)}'
    if a[0] != b[0]:
        return f'kind {a[0]} vs {b[0]}'
    if a[0] == 'opaque':
        return None
    if a[0] == 'str':
        return None if a[1] == b[1] else f'{a[1][:60]!r} vs {b[1][:60]!r}'
    x, y = a[1], b[1]
    if x.shape != y.shape:
        return f'shape {x.shape} vs {y.shape}'
    if x.size == 0:
        return None
    fin = np.isfinite(x)
    scale = float(np.max(np.abs(x[fin]))) if fin.any() else 1.0
    with np.errstate(all='ignore'):
        ok = np.isclose(y, x, rtol=rtol, atol=max(rtol * max(scale, 1e-300), atol), equal_nan=True)
    if ok.all():
        return None
    idx = tuple(int(i) for i in np.argwhere(~ok)[0]) if x.ndim else ()
    return (f'at {idx}: {y[idx] if x.ndim else y[()]!r} vs baseline {x[idx] if x.ndim else x[()]!r} '
            f'({int((~ok).sum())} of {ok.size} differ, scale {scale:.3g}, rtol {rtol:g})')


def degree(a, b):
    """integer k with b == 2**k * a for every finite non-zero value, else None."""
    x, y = a[1], b[1]
    if x.shape != y.shape or x.size == 0:
        return None
    m = np.isfinite(x) & np.isfinite(y) & (x != 0)
    if not m.any() or not np.array_equal(np.isfinite(x), np.isfinite(y)):
        return None
    with np.errstate(all='ignore'):
        ratio = y[m] / x[m]
    for k in (0, 1, 2, -1, -2, 3):
        if np.allclose(ratio, 2.0 ** k, rtol=1e-6, atol=0):
            # zeros must stay zeros
            if np.all(y[np.isfinite(x) & (x == 0)] == 0):
                return k
    return None


def expected_unit(base_unit, k):
    import astropy.units as u
    b = u.Unit(base_unit) if base_unit not in (None, '') else u.dimensionless_unscaled
    return b * u.Jy ** k


def same_unit(got, want):
    import astropy.units as u
    g = u.Unit(got) if got not in (None, '') else u.dimensionless_unscaled
    try:
        return g == want
    except Exception:
        return False


def nnum(leafs):
    return sum(1 for v in leafs.values() if isinstance(v, tuple) and v[0] == 'num' and v[1].size)


class Runs:
    """The reference runs of one (recipe, condition), computed on demand:
    the float64 baseline of each value domain, the float64 baseline on 2 x data
    (degree of homogeneity) and the all-Quantity run."""

    def __init__(self, name, cond, seed):
        self.name, self.cond, self.seed = name, cond, seed
        self._base = {}
        self._scaled = None
        self._quantity = None

    def base(self, domain):
        if domain not in self._base:
            c = R.run_recipe(self.name, 'f8', self.cond, self.seed, integer_scene=True, domain=domain)
            out = {lab: R.norm(v) for lab, v in c.out.items()}
            self._base[domain] = (c, out, {lab: leaves(v) for lab, v in out.items() if not isinstance(v, R.Raised)})
        return self._base[domain]

    def scaled(self):
        if self._scaled is None:
            s2 = R.run_recipe(self.name, 'f8', self.cond, self.seed, integer_scene=True, scale=2.0)
            self._scaled = {lab: leaves(R.norm(v)) for lab, v in s2.out.items() if not isinstance(v, R.Raised)}
        return self._scaled

    def quantity(self):
        if self._quantity is None:
            c = R.run_recipe(self.name, 'quantity', self.cond, self.seed, integer_scene=True)
            self._quantity = (c, {lab: leaves(R.norm(v)) for lab, v in c.out.items() if not isinstance(v, R.Raised)})
        return self._quantity


def run_recipe_cond(acc, r, cond, seed, only_rep=None, sample=False, tier='quick'):
    name = r.name
    runs = Runs(name, cond, seed)
    for rep in reps_for(r, tier):
        if only_rep is not None and rep != only_rep:
            continue
        domain = R.DOMAIN_OF_REP.get(dtype_of(rep), 'full')
        if domain != 'full' and cond == 'negatives':
            acc.skip('unsigned / 8-bit representation x negatives condition (the type cannot hold the negative pixels)')
            continue
        if '+' in rep and name in STDDEV_ONLY and ('+var' in rep or '+ivar' in rep):
            acc.skip('NDData with a Variance / InverseVariance uncertainty: the entry documents that the error must be given as a '
                     'StdDevUncertainty (aperture_photometry, ApertureStats)')
            continue
        c = R.run_recipe(name, rep, cond, seed, integer_scene=True, domain=domain)
        if c is None:
            acc.skip('combination not applicable')
            continue
        base, base_out, base_leaves = runs.base(domain)
        if dtype_of(rep) is not None:
            # the representation must really have been used for the image, with exactly the baseline's numbers
            d, d0 = c.held.get('data'), base.held.get('data')
            if isinstance(d, np.ndarray) and isinstance(d0, np.ndarray):
                if d.dtype.str != R.DTYPE_OF_REP[dtype_of(rep)]:
                    raise AssertionError(f'{name}: representation {rep} was not used for the image '
                                         f'({d.dtype.str}, domain {domain})')
                if not np.array_equal(d.astype(float), d0, equal_nan=True):
                    # the arrays are inspected after the calls: they were built from the same numbers, so one of the
                    # calls has written into the caller's image.  That is C10's question, not C15's; the outputs are
                    # still compared below.
                    acc.counters['image_changed_by_a_call_(left_to_C10)'] += 1
            if c.uncast:
                acc.counters['arguments_left_float64_next_to_a_narrow_integer_image'] += len(c.uncast)
        case0 = {'recipe': name, 'rep': rep, 'cond': cond}
        mixed = rep in R.C15_MIXED
        if mixed and not (c.uses_companion and c.uses_data):
            acc.skip('recipe has no unit-ful companion argument (nothing to mix)')
            continue
        scaled_leaves = runs.scaled() if (rep == 'quantity' or R.nddata_base(rep) == 'nddata_q') else None
        for i, (label, status) in enumerate(c.steps):
            b = base_out.get(label, None)
            case = dict(case0, step=label)
            smp = dict(case, status=status) if (sample and i == 0) else None
            if label not in base_out and dict(base.steps).get(label) is None:
                acc.skip('step absent from the float64 baseline run (an earlier step of the recipe failed differently)')
                continue
            if isinstance(b, R.Raised):
                acc.case(nontrivial=False, sample=smp)
                acc.skip('float64 baseline raises (nothing to compare)')
                continue
            if mixed:
                if label not in c.mix_steps:
                    continue
                acc.case(nontrivial=True, key=(label, rep, cond), sample=smp)
                acc.outcome((label, rep, status))
                rejected = status != 'ok' and c.out[label].is_rejection
                if not rejected:
                    # a deliberate rejection is a ValueError / TypeError (astropy's UnitsError, UnitConversionError and
                    # UnitTypeError are subclasses); an AttributeError from deep inside is a crash, not a rejection
                    acc.violation('mixed-accepted', site_of(label, rep), case,
                                  observed='call returned normally' if status == 'ok' else repr(c.out[label]),
                                  expected='ValueError / TypeError / UnitsError (unit-ful mixed with unit-less input)',
                                  detail=f'step {label!r}: ' + ('data is a Quantity, error/background/threshold are plain numbers'
                                                               if rep == 'mixed_data' else
                                                               'data is a plain array, error/background/threshold are Quantities'))
                continue
            bl = base_leaves[label]
            acc.case(nontrivial=nnum(bl) > 0, key=(label, rep, cond) if nnum(bl) else None, sample=smp)
            if status != 'ok' and rep.endswith('+other') and c.out[label].is_rejection:
                # an uncertainty in a convertible but different unit (mJy in a Jy container) is rejected or converted,
                # never used as raw numbers (the rule of (e)): a rejection is accepted
                acc.counters['nddata: uncertainty in another unit rejected (accepted outcome)'] += 1
                continue
            if status != 'ok':
                acc.violation('repr-raises', site_of(label, rep), case, observed=repr(c.out[label]),
                              expected='succeeds as for the float64 ndarray',
                              detail=f'step {label!r} with data representation {rep!r}')
                continue
            ol = leaves(R.norm(c.out.get(label)))
            if R.nddata_base(rep) is not None and 'nddata.data' in ol and '<value>' in bl:
                ol = {'<value>': ol['nddata.data']}      # an NDData in gives an NDData out (documented): compare its data
            acc.outcome((label, rep, len(ol)))
            if dtype_of(rep) in INT_REPS and label.startswith('Background2D'):
                acc.counters['exempt_background2d_integer_output'] += 1
                continue
            fit = bool(FIT_STEPS.search(label))
            rtol = (RTOL_F4_FIT if fit else RTOL_F4) if dtype_of(rep) in F4_CLASS else (RTOL_FIT if fit else RTOL)
            if set(ol) != set(bl):
                acc.violation('repr-differs', site_of(label, rep), case, observed=sorted(set(ol) ^ set(bl))[:6],
                              expected='same output structure as the float64 baseline', detail=f'step {label!r}')
                continue
            for path, a in bl.items():
                msg = cmp_leaf(a, ol[path], rtol)
                if msg:
                    acc.violation('repr-differs', site_of(label, rep), dict(case, output=path), observed=msg,
                                  expected=f'equal to the float64 baseline within rtol {rtol:g} of scale',
                                  detail=f'step {label!r} output {path!r} with data representation {rep!r}'
                                         + (f' (value domain {domain!r})' if domain != 'full' else ''))
                    break
            if scaled_leaves is not None:
                sl = scaled_leaves.get(label)
                for path, a in bl.items():
                    o = ol[path]
                    if not (isinstance(a, tuple) and a[0] == 'num' and isinstance(o, tuple) and o[0] == 'num'):
                        continue
                    k = degree(a, sl[path]) if (sl is not None and path in sl and isinstance(sl[path], tuple)
                                                and sl[path][0] == 'num') else None
                    if k is None:
                        acc.counters['unit_not_checked_no_integer_degree'] += 1
                        continue
                    want = expected_unit(a[2], k)
                    documented = bool(DOCUMENTED_UNIT.search(f'{label}|{path}'))
                    if same_unit(o[2], want):
                        acc.counters['unit_checked_ok'] += 1
                        continue
                    if not documented and same_unit(o[2], expected_unit(a[2], 0)):
                        # an undocumented output without the data unit: not demanded
                        acc.counters['unit_absent_on_undocumented_output'] += 1
                        continue
                    acc.violation('unit-wrong', site_of(label, rep), dict(case, output=path),
                                  observed=f'unit {o[2]!r}', expected=f'unit {want.to_string()!r} (output scales as data**{k}; '
                                                                      f'float64 baseline unit {a[2]!r})',
                                  detail=f'step {label!r} output {path!r}' + (' (documented to be in data units)' if documented else ''))
                    break
    if r.units and (only_rep is None or ':' in only_rep):
        run_solo(acc, r, cond, seed, runs, only_rep, sample)


def to_unit_of(a, o):
    """Leaf ``o`` expressed in the unit of leaf ``a`` (None when not convertible)."""
    import astropy.units as u
    if a[2] == o[2]:
        return o
    try:
        f = (u.Unit(o[2]) if o[2] not in (None, '') else u.dimensionless_unscaled).to(
            u.Unit(a[2]) if a[2] not in (None, '') else u.dimensionless_unscaled)
    except Exception:
        return None
    return ('num', o[1] * f, a[2])


def run_solo(acc, r, cond, seed, runs, only_rep, sample):
    """One companion at a time.  The companions (slots) are the unit-ful
    arguments other than the data that the recipe hands out; the steps that
    receive a slot are those whose call is given the slot's value or an object
    built from it (tracked by the context)."""
    name = r.name
    cq, q_leaves = runs.quantity()
    if not (cq.uses_companion and cq.uses_data):
        return
    base, base_out, _ = runs.base('full')
    qstatus = dict(cq.steps)
    for rep in solo_reps(cq):
        if only_rep is not None and rep != only_rep:
            continue
        mode, slot = rep.split(':', 1)
        c = R.run_recipe(name, rep, cond, seed, integer_scene=True)
        case0 = {'recipe': name, 'rep': rep, 'cond': cond}
        origin = None            # the first accepted call that received the slot: where a wrongly accepted unit entered
        spoiled = set()          # objects (built by steps) that were given to a call that raised: their state is not judged
        for label, status in c.steps:
            if slot not in c.step_slots.get(label, ()):
                continue         # the call does not receive this companion: identical to the all-Quantity / all-plain call
            built = c.step_built.get(label, set())
            if status != 'ok':
                if mode == 'other_unit' and built & spoiled:
                    continue
                spoiled |= built
            elif mode == 'other_unit' and built & spoiled:
                acc.skip('reads an object after a call on it was rejected (state after an error is not judged)')
                continue
            if mode != 'other_unit' and label not in c.mix_steps:
                continue         # no data in this call (a constructor taking thresholds only)
            if isinstance(base_out.get(label), R.Raised) or qstatus.get(label) != 'ok':
                acc.skip('float64 or all-Quantity call raises (nothing to mix)')
                continue
            case = dict(case0, step=label)
            acc.case(nontrivial=True, key=(label, rep, cond), sample=case if (sample and origin is None and mode == 'solo_plain') else None)
            acc.counters[f'companion judged: {name} / {slot}'] += 1
            rejected = status != 'ok' and c.out[label].is_rejection
            acc.outcome((label, rep, 'rejected' if rejected else status))
            if mode != 'other_unit':
                if not rejected:
                    acc.violation('mixed-accepted', site_of(label, rep), case,
                                  observed='call returned normally' if status == 'ok' else repr(c.out[label]),
                                  expected='ValueError / TypeError / UnitsError (unit-ful mixed with unit-less input)',
                                  detail=f'step {label!r}: ' + (f'the data and every other companion are Quantities, {slot!r} alone is a plain number'
                                                               if mode == 'solo_plain' else
                                                               f'the data and every other companion are plain numbers, {slot!r} alone is a Quantity'))
                continue
            if rejected:
                continue
            if origin is None:
                origin = label
            site = site_of(origin, rep)
            want = 'rejected (ValueError / TypeError / UnitsError) or converted: the result of the call with everything in Jy'
            if status != 'ok':
                acc.violation('other-unit', site, case, observed=repr(c.out[label]), expected=want,
                              detail=f'step {label!r}: {slot!r} given in mJy (same physical values), data and other companions in Jy')
                continue
            ql = q_leaves[label]
            ol = leaves(R.norm(c.out.get(label)))
            rtol = RTOL_FIT if FIT_STEPS.search(label) else RTOL
            if set(ol) != set(ql):
                acc.violation('other-unit', site, case, observed=sorted(set(ol) ^ set(ql))[:6], expected=want, detail=f'step {label!r}')
                continue
            for path, a in ql.items():
                o = ol[path]
                if isinstance(a, tuple) and a[0] == 'num' and isinstance(o, tuple) and o[0] == 'num':
                    o = to_unit_of(a, o)
                    msg = f'unit {ol[path][2]!r} vs {a[2]!r}' if o is None else cmp_leaf(a, o, rtol)
                else:
                    msg = cmp_leaf(a, o, rtol)
                if msg:
                    acc.violation('other-unit', site, dict(case, output=path), observed=msg, expected=want,
                                  detail=f'step {label!r} output {path!r}: {slot!r} given in mJy (numbers x 1000: the same physical '
                                         f'values), data and every other companion in Jy; accepted at step {origin!r}')
                    break


# -- the large-reduction family -----------------------------------------------------
def large_rtol(entry, rep):
    d = L.dtype_of(rep)
    f4class = d is not None and R.DTYPE_OF_REP[d] != '>f8'
    if entry.kind == 'pixel':
        return RTOL_F4 if f4class else RTOL
    if not f4class:
        return RTOL_LARGE_F8
    return RTOL_LARGE_AXIS if entry.kind == 'axis' else RTOL_LARGE


def worst_rel(bl, ol):
    """largest |difference| / scale over the numeric leaves (calibration only)"""
    w = 0.0
    for path, a in bl.items():
        o = ol.get(path)
        if isinstance(a, tuple) and a[0] == 'num' and isinstance(o, tuple) and o[0] == 'num' and a[1].shape == o[1].shape and a[1].size:
            fin = np.isfinite(a[1]) & np.isfinite(o[1])
            if fin.any():
                w = max(w, float(np.max(np.abs(a[1][fin] - o[1][fin])) / max(float(np.max(np.abs(a[1][fin]))), 1e-300)))
    return w


def run_large(acc, group, reps, seed, only=None, sample=False):
    """entries of ``group`` x ``reps`` x conditions, each compared with the float64 C-contiguous baseline of the same
    image.  ``only``: (entry label, cond) for a replay."""
    import os
    calibrate = bool(os.environ.get('VERIF_C15_CALIBRATE'))
    entries = [e for e in L.GROUPS[group] if only is None or e.label == only[0]]
    base = {}          # (domain, cond) -> {label: leaves | Raised}
    margins = {}       # (domain, cond, set) -> distance of the nearest clipping bound to a pixel value

    def baseline(domain, cond):
        if (domain, cond) not in base:
            env = L.Env('f8', cond, seed, domain=domain)
            out = {}
            for e in entries:
                if cond in L.conds_of(e, 'f8'):
                    o = L.run_entry(e, env)
                    out[e.label] = o if isinstance(o, R.Raised) else leaves(o)
            base[(domain, cond)] = (out, env.data64)
        return base[(domain, cond)]

    def margin(domain, cond, name):
        if (domain, cond, name) not in margins:
            margins[(domain, cond, name)] = L.clip_margin(L.clip_sets(baseline(domain, cond)[1])[name]())
        return margins[(domain, cond, name)]

    for rep in reps:
        d = L.dtype_of(rep)
        f4class = d is not None and R.DTYPE_OF_REP[d] != '>f8'
        integer = d in INT_REPS
        domain = L.domain_of(rep)
        for cond in L.CONDS:
            if only is not None and cond != only[1]:
                continue
            todo = [e for e in entries if cond in L.conds_of(e, rep) and (rep not in L.QUANTITY_REPS or e.unit_power is not None)]
            if not todo:
                continue
            env = L.Env(rep, cond, seed)
            if d is not None and rep not in L.QUANTITY_REPS and env.data.dtype.str != R.DTYPE_OF_REP[d]:
                raise AssertionError(f'large: representation {rep} not in effect ({env.data.dtype.str})')
            bout, _ = baseline(domain, cond)
            for e in todo:
                case = {'family': 'large', 'group': group, 'entry': e.label, 'rep': rep, 'cond': cond}
                bl = bout[e.label]
                if isinstance(bl, R.Raised):
                    acc.case(nontrivial=False)
                    acc.skip('large: float64 baseline raises (nothing to compare)')
                    continue
                if f4class and any(margin(domain, cond, name) < TIE_MARGIN for name in e.clipsets):
                    acc.skip('large: a sigma-clipping bound lies within 1e-3 of a pixel value (tie: the clipped set is not '
                             'determined to float32 precision)')
                    continue
                o = L.run_entry(e, env)
                acc.case(nontrivial=nnum(bl) > 0, key=(e.label, rep, cond) if nnum(bl) else None,
                         sample=dict(case, status='ok' if not isinstance(o, R.Raised) else repr(o)) if (sample and e is todo[0]) else None)
                site = site_of(e.label, 'f4' if rep == 'quantity_f4' else rep) + (':quantity' if rep == 'quantity_f4' else '')
                if isinstance(o, R.Raised):
                    acc.violation('repr-raises', site, case, observed=repr(o), expected='succeeds as for the float64 ndarray',
                                  detail=f'large reduction {e.label!r} with data representation {rep!r} ({cond})')
                    continue
                ol = leaves(o)
                acc.outcome((e.label, rep, cond, len(ol)))
                if set(ol) != set(bl):
                    acc.violation('repr-differs', site, case, observed=sorted(set(ol) ^ set(bl))[:6],
                                  expected='same output structure as the float64 baseline', detail=f'large reduction {e.label!r}')
                    continue
                rtol = large_rtol(e, rep)
                atol = ATOL_B2D_INTEGER if (e.b2d and integer) else 0.0
                if atol:
                    acc.counters['large: Background2D integer input judged within 2.5 (integer-typed output)'] += 1
                if calibrate and atol:
                    w = max([float(np.nanmax(np.abs(a[1] - ol[path][1]))) for path, a in bl.items()
                             if isinstance(a, tuple) and a[0] == 'num' and a[1].size and a[1].shape == ol[path][1].shape] + [0.0])
                    if w > acc.worst.get('worst:b2d-integer-abs', (0.0,))[0]:
                        acc.worst['worst:b2d-integer-abs'] = (w, e.label, rep, cond)
                if calibrate and not atol:
                    cls = 'pixel' if e.kind == 'pixel' else ('float64' if not f4class else e.kind)
                    w = worst_rel(bl, ol)
                    key = f'worst:{cls}'
                    if w > acc.worst.get(key, (0.0,))[0]:
                        acc.worst[key] = (w, e.label, rep, cond)
                for path, a in bl.items():
                    msg = cmp_leaf(a, ol[path], rtol, atol)
                    if msg:
                        acc.violation('repr-differs', site, dict(case, output=path), observed=msg,
                                      expected=f'equal to the float64 baseline within rtol {rtol:g} of scale'
                                               + (f' or {atol:g} (integer-typed, twice truncated output)' if atol else ''),
                                      detail=f'large reduction {e.label!r} output {path!r} over the {L.SHAPE[0]} x {L.SHAPE[1]} image '
                                             f'(pedestal {L.PEDESTAL[domain]:g}, sigma {L.NOISE_SIGMA:g}, {cond}) with data representation {rep!r}')
                        break
                if rep in L.QUANTITY_REPS:
                    want = expected_unit(None, e.unit_power)
                    for path, v in ol.items():
                        if not (isinstance(v, tuple) and v[0] == 'num'):
                            continue
                        if not same_unit(v[2], want):
                            acc.violation('unit-wrong', site, dict(case, output=path), observed=f'unit {v[2]!r}',
                                          expected=f'unit {want.to_string()!r}', detail=f'large reduction {e.label!r} of a Quantity in Jy')
                            break
                        acc.counters['unit_checked_ok'] += 1
    for (domain, cond, name), m in sorted(margins.items()):
        acc.counters['large: sigma-clipped pixel sets examined for ties (per unit)'] += 1
        if m < TIE_MARGIN:
            acc.counters[f'large: tie in pixel set {name!r} ({domain}, {cond}) (per unit)'] += 1


# -- the options family ---------------------------------------------------------------
def run_options(acc, label, reps, tier, seed, only=None, sample=False):
    """entry ``label``: every combination of its option alphabets x ``reps``, each output compared with the plain float64
    call of the same combination (numbers: RTOL / RTOL_FIT; unit-ful representations: the declared unit)."""
    e = O.ENTRIES[label]
    env0 = O.Env('f8', seed)
    envs = {rep: O.Env(rep, seed) for rep in reps}
    fit = bool(FIT_STEPS.search(label)) or label == 'centroid_sources'
    for opts in ([only] if only is not None else O.combos(e, tier)):
        base = O.run(e, env0, opts)
        if isinstance(base, R.Raised):
            acc.case(nontrivial=False)
            acc.skip('options: the float64 call raises for this combination (documented validation; nothing to compare)')
            continue
        bl = leaves(base)
        for rep in reps:
            case = {'family': 'options', 'entry': label, 'opts': opts, 'rep': rep}
            o = O.run(e, envs[rep], opts)
            acc.case(nontrivial=nnum(bl) > 0, key=(label, rep, tuple(sorted((k, str(v)) for k, v in opts.items()))) if nnum(bl) else None,
                     sample=dict(case, status='ok' if not isinstance(o, R.Raised) else repr(o)) if (sample and acc.evaluations % 997 == 1) else None)
            site = f'{label}[options]:{rep}'
            if isinstance(o, R.Raised):
                acc.violation('repr-raises', site, case, observed=repr(o), expected='succeeds as for the float64 ndarray',
                              detail=f'{label} with options {opts} and the image given as {rep!r}')
                continue
            ol = leaves(o)
            acc.outcome((label, rep, len(ol), tuple(sorted(ol))[:3]))
            if set(ol) != set(bl):
                acc.violation('repr-differs', site, case, observed=sorted(set(ol) ^ set(bl))[:6],
                              expected='same output structure as the float64 call', detail=f'{label} with options {opts}')
                continue
            bad = False
            for path, a in bl.items():
                msg = cmp_leaf(a, ol[path], RTOL_FIT if fit else RTOL)
                if msg:
                    acc.violation('repr-differs', site, dict(case, output=path), observed=msg,
                                  expected=f'equal to the float64 call within rtol {RTOL_FIT if fit else RTOL:g} of scale',
                                  detail=f'{label} with options {opts}: output {path!r} with the image given as {rep!r}')
                    bad = True
                    break
            if bad or rep not in O.UNITFUL:
                continue
            for path, v in ol.items():
                if not (isinstance(v, tuple) and v[0] == 'num' and v[1].size):
                    continue
                k = e.powers.get(re.split(r'[.\[]', path, maxsplit=1)[0], None)
                if k is None:
                    acc.counters['options: unit not demanded for this output'] += 1
                    continue
                want = expected_unit(bl[path][2], k)
                if same_unit(v[2], want):
                    acc.counters['unit_checked_ok'] += 1
                    continue
                acc.violation('unit-wrong', site, dict(case, output=path), observed=f'unit {v[2]!r}',
                              expected=f'unit {want.to_string()!r} (documented: data unit ** {k})',
                              detail=f'{label} with options {opts}: output {path!r}')
                break


def run_unit(unit, tier, seed):
    acc = Acc()
    if 'large' in unit:
        acc.worst = {}
        run_large(acc, unit['large'], unit['reps'], seed, sample=True)
        for k, v in sorted(acc.worst.items()):
            acc.notes.append(f'{k} {v[0]:.3g} {v[1]} {v[2]} {v[3]}')
        return acc
    if 'options' in unit:
        run_options(acc, unit['options'], unit['reps'], tier, seed, sample=True)
        return acc
    run_recipe_cond(acc, R.RECIPES[unit['recipe']], unit['cond'], seed, sample=True, tier=tier)
    return acc


def replay(case, seed):
    acc = Acc()
    if case.get('family') == 'large':
        acc.worst = {}
        run_large(acc, case['group'], [case['rep']], seed, only=(case['entry'], case['cond']))
        return acc
    if case.get('family') == 'options':
        run_options(acc, case['entry'], [case['rep']], 'thorough', seed, only=case['opts'])
        return acc
    run_recipe_cond(acc, R.RECIPES[case['recipe']], case['cond'], seed, only_rep=case['rep'], tier='thorough')
    return acc


def describe(tier, seed):
    cov = R.coverage()
    num = numeric_recipes()
    reps = ['f8 (baseline)'] + [rep for rep in R.C15_REPS + ('nddata_q',) + NEW_DTYPE_REPS]
    if tier == 'thorough':
        reps += [f'{d}@{lay}' for d in R.C15_DTYPE_REPS for lay in R.C15_LAYOUTS]
    reps += [f'{f} (NDData-accepting recipes)' for f in R.NDDATA_FORMS]
    reps += list(R.C15_MIXED) + [f'{mode}:<companion>' for mode in R.C15_SOLO]
    return {'alphabet': {'recipes': len(num), 'representations': reps,
                         'dtype_of_representation': {rep: R.DTYPE_OF_REP[rep] for rep in R.C15_DTYPE_REPS},
                         'value_domains': {d: {'clip': list(R.DOMAINS[d]), 'representations': ['f8 (baseline)'] + [
                             rep for rep in R.C15_DTYPE_REPS if R.DOMAIN_OF_REP.get(rep, 'full') == d]} for d in R.DOMAINS},
                         'byte_domain_scale': R.BYTE_SCALE,
                         'companion_modes': list(R.C15_SOLO),
                         'companions': 'per recipe: see counters "companion judged: <recipe> / <companion>" (number of judged calls)',
                         'conditions': list(conds(tier))},
            'numerical_recipes': [r.name for r in num],
            'recipes_without_image_argument (C10 only)': [r.name for r in R.RECIPES.values() if not r.numeric],
            'quantity_demanded_for': [r.name for r in num if r.units],
            'nddata_demanded_for': [r.name for r in num if r.nddata],
            'not_enumerated': ['float16 images', 'bool images', 'Quantity pixel positions',
                               'unit-less NDData holding an uncertainty with a unit (a unit mixture)',
                               'equal but not identical unit objects (Jy ** 1 next to Jy)'],
            'nddata_forms': {'forms': list(R.NDDATA_FORMS), 'recipes': [r.name for r in num if r.nddata],
                             'stddev_only (Variance / InverseVariance skipped, documented)': sorted(STDDEV_ONLY)},
            'options': O.describe(tier),
            'public_callables': cov['public_callables'],
            'uncovered': cov['uncovered'],
            'unclassified_public_callables': cov['unclassified'],
            'large_reductions': {
                'image_shape': list(L.SHAPE), 'pedestal_by_value_domain': dict(L.PEDESTAL), 'noise_sigma': L.NOISE_SIGMA,
                'entries': {g: [e.label for e in es] for g, es in L.GROUPS.items()},
                'representations': list(L.reps_of('sums', tier)), 'extra_representations_of_the_statistics_wrappers': list(L.QUANTITY_REPS),
                'conditions': {'clean': 'every entry', 'nan': f'{len(L.NAN_PIX)} NaN pixels; floating-point representations; groups '
                                                               'stats / estimators / background2d'},
                'aperture': list(L.APERTURE), 'segment_pixels': int(np.zeros(L.SHAPE)[L.SEGMENT].size),
                'tie_margin': TIE_MARGIN,
                'tolerances': {'rtol_large (float32 / integer input, reduction over the image / box / aperture)': RTOL_LARGE,
                               'rtol_large_axis (float32 / integer input, along one image axis)': RTOL_LARGE_AXIS,
                               'rtol_large_f8 (float64 input in another byte order / layout)': RTOL_LARGE_F8,
                               'atol_background2d_integer_input': ATOL_B2D_INTEGER}},
            'tolerances': {'rtol': RTOL, 'rtol_fit': RTOL_FIT, 'rtol_f4': RTOL_F4, 'rtol_f4_fit': RTOL_F4_FIT}}
